"""C10 — PIN / Parquet parsing: correspondence of Model/PinCols.v with mokapot.read_pin / read_percolator.

White-box review (reviews/C10.md): besides the column-chunk arithmetic the generator now leaves the 'one fresh
float-only .tsv file, one call, default row labels' domain: file suffixes, text styles (missing-value tokens, CRLF, BOM,
gzip), Parquet layouts (row groups independent of the scan batch, label dtypes, NaN vs null, dictionary columns, stored
pandas index), feature columns of every dtype and with awkward names, missing values in the optional key columns,
caller-named columns next to default-named ones, several files per call, repeated calls, relative paths, direct
read_percolator calls, zero / one / several hundred rows.

R2.19: the ROW chunks of the missing-value scan are modelled.  Every modelled table is sent to the driver entry
c10.read_rc (Model/PinCols.v pc_read_rc) with the actual CHUNK_SIZE_ROWS_FOR_DROP_COLUMNS, the actual missingness of
every cell of the written table and the reader kind (text: one empty chunk for a table without rows, Parquet: none);
only the column-chunk sweep cases that are read in ONE row chunk stay on c10.read (pc_read, told the NaN columns)."""
import gzip
import os
import shutil
import tempfile
from pathlib import Path

from .. import lib
from ..lib import call_impl

PROP = "C10"
RULE = ("generated PSM tables written as tab-delimited text or Parquet and parsed by the real read_pin / read_percolator: "
        "(1) sweep: every (column-scan chunk size c in 1..25 (quick: a stride), feature count n with every residue of "
        "(n + #identifier columns) mod c) x identifier sets of 2..5 columns; (1b) create_chunks_with_identifier itself "
        "against the model for n in 0..45, 1..5 identifier columns, c in 1..25; (2) random tables: 0..60 features, shuffled "
        "column order, random letter case of reserved names (also of the charge columns), optional "
        "filename/calcmass/expmass/ret_time/charge and rollup-level columns (also several level columns differing only in "
        "case), labels as 1/-1, 1/0, mixed 1/0/-1 or booleans (text: True/true/TRUE; Parquet: bool, int8..int64, uint8), NaN in "
        "none/one/several feature columns and in the optional key columns (rows must stay), row-scan chunk sizes "
        "1..rows+1, max_workers 1..4 and -1; each such table is also varied in: file suffix (.tsv/.txt fall-back, .pin, "
        ".tab, .pin.gz), missing-value token ('', NaN, nan, NA, NULL, N/A, null), CRLF, no final newline, UTF-8 BOM, Parquet row-group "
        "size independent of the scan batch, NaN stored as NaN or as null, dictionary-encoded strings, feature columns of "
        "int / bool / string / inf / huge-int values, feature names that contain reserved names, differ only in case, carry "
        "blanks or look like pandas-internal names, absolute or relative path, read_pin or read_percolator, parse repeated; "
        "(2b) caller-named optional columns (also charge_column=), also next to a default-named column of the same role; "
        "(3) malformed: missing (one or two) or duplicated required column, duplicated optional column, labels 2/-2/3/100/.., "
        "missing or textual label (oracle only), user-specified optional column that does not exist or differs in case; "
        "(4) several files in one read_pin call (list/tuple, 2..4 files of different formats, headers and row counts, file "
        "names not in sorted order): dataset k must be the faithful parse of file k; (5) Parquet files carrying a pandas "
        "index (int / string / offset RangeIndex) and zero-row files [known findings]; 1-row and 150..400-row tables. "
        "(6) row chunks of the missing-value scan: 2..14 rows read in chunks of 1..rows, missing cells only in the first / "
        "a middle / the last row chunk or one per chunk, feature counts that leave a column slice of identifier columns only "
        "or an identifier slice whose features are all incomplete, text and Parquet; row-chunk size 0 (ValueError). "
        "Model entry: c10.read_rc (row-chunk size, per-cell missingness, reader kind) for every modelled table except the "
        "sweep cases read in one row chunk (c10.read). "
        "Every second case of a run is written to one shared path (the file is replaced). The property oracle is part of "
        "the verdict of every case (same()), the model is compared on all but the 'oracle only' cases. distinct = distinct "
        "case; non-trivial = table has >=1 NaN column, or >=1 optional/level column, or feature count >= c, or >1 file")
ASSUMPTIONS = [
    "column names are ASCII; str.lower modelled for A-Z only",
    "cell values are opaque to the model (mapped to integer ids by the harness); pandas/pyarrow (de)serialisation is an oracle "
    "(cell values are chosen so that text round-trips exactly: halves/quarters, integers, plain words)",
    "row chunks of the NaN scan: the model is given the row-chunk size and one missingness bit per cell (None in the generated "
    "table); the readers' chunk iterators are oracles with the contract 'rows[i:i+c] for i in range(0, n, c); for n = 0 one empty "
    "chunk (pandas.read_csv) or none (pyarrow iter_batches)' (by C10_rc_any_partition any other partition into >= 1 batches gives "
    "the same result); a row-chunk size above the number of rows is passed to the model as rows + 1 (C10_rc_large; nat is unary)",
    "column-chunk size 0 raises ZeroDivisionError in read_percolator; the model's error type has no such constructor (EValue): "
    "not generated",
    "a Parquet file that stores a pandas index column holds that column under the name __index_level_0__ (schema name); the "
    "property is read as: it is an ordinary non-reserved column",
    "PYTHONHASHSEED is fixed per run (set iteration order inside the NaN scan is not varied within a run)",
]
TRUSTED_EXTRA = ["pandas.read_csv / pyarrow Parquet reader (oracle: cell values, dtypes, NaN detection, default missing-value tokens)"]

REQ = ["SpecId", "Label", "ScanNr", "Peptide", "Proteins"]
REQ_L = [r.lower() for r in REQ]
OPT_L = ("filename", "calcmass", "expmass", "ret_time")
LEVEL_L = ("modifiedpeptide", "precursor", "peptidegroup")
OPT_KEYS = (("filename", "filename_column"), ("calcmass", "calcmass_column"), ("expmass", "expmass_column"),
            ("ret_time", "rt_column"))
IDX_COL = "__index_level_0__"
K_PQ_INDEX = "read_pin:parquet-stored-pandas-index"
K_PQ_EMPTY = "read_pin:parquet-zero-rows"

# feature names a real table may carry: reserved names as substrings, names differing only in case, blanks, punctuation,
# names pandas uses internally
ODD_NAMES = ["lnExpect", "Label2", "ScanNrX", "specid_2", "peptide_len", "PepLen", "ProteinsCount", "ExpMassDiff", "dM",
             "absdM", "index", "level_0", "0", "1", "scan nr", " lead", "trail ", "f,1", "f#1", "mass (Da)", "abs(dM)",
             "x.1", "Unnamed", "FEAT0", "Feat1", "feaT2", "XCorr", "xcorr", "deltCn", "deltLCn", "enzN", "enzC", "enzInt",
             "Mass", "calc_mass", "ret-time", "file", "Peptides", "Protein", "target", "is_decoy", "score", "q-value",
             "Charge1", "ChargeState", "none_feat", "True", "nan_count"]
WORDS = ["trypsin", "lysc", "hcd", "cid", "etd", "orbi", "qtof", "a b", "x-y", "semi", "full"]


def _case(rng, name):
    m = rng.choice(["same", "lower", "upper", "mixed"])
    if m == "same":
        return name
    if m == "lower":
        return name.lower()
    if m == "upper":
        return name.upper()
    return "".join(ch.upper() if rng.random() < 0.5 else ch.lower() for ch in name)


def _table(rng, nfeat, cs, opt=None, levels=None, nrows=None, label_enc=None, nan=None, shuffle=True,
           fmt=None, tags=()):
    opt = opt if opt is not None else [o for o in ["filename", "calcmass", "expmass", "ret_time"] if rng.random() < 0.5]
    levels = levels if levels is not None else [l for l in ["ModifiedPeptide", "Precursor", "PeptideGroup"] if rng.random() < 0.3]
    nrows = nrows or rng.randint(1, 25)
    label_enc = label_enc or rng.choice(["pm1", "01", "bool"])
    cols = [_case(rng, c) for c in REQ] + [_case(rng, c) for c in opt] + [_case(rng, c) for c in levels]
    charge = rng.choice([[], [], ["charge"], ["Charge2", "Charge3"], ["charge_column"], ["charge_column", "Charge2"]])
    cols += charge
    feats = ["feat%d" % i for i in range(nfeat)]
    cols += feats
    if shuffle:
        rng.shuffle(cols)
    nan = nan if nan is not None else rng.choice(["none", "none", "one", "several", "allrows"])
    nan_cols = []
    if feats and nan != "none":
        k = 1 if nan in ("one", "allrows") else rng.randint(min(2, len(feats)), min(5, len(feats)))
        nan_cols = rng.sample(feats + [c for c in charge], min(k, len(feats) + len(charge)))
    data = {}
    for c in cols:
        lc = c.lower()
        if lc == "specid":
            data[c] = ["psm_%d" % i for i in range(nrows)]
        elif lc == "label":
            tg = [rng.random() < 0.6 for _ in range(nrows)]
            if label_enc == "pm1":
                data[c] = [1 if t else -1 for t in tg]
            elif label_enc == "01":
                data[c] = [1 if t else 0 for t in tg]
            else:
                data[c] = [bool(t) for t in tg]
        elif lc == "scannr":
            data[c] = [rng.randint(1, 40) for _ in range(nrows)]
        elif lc == "peptide":
            data[c] = ["K.PEP%dK.A" % rng.randint(0, 9) for _ in range(nrows)]
        elif lc == "proteins":
            data[c] = ["prot%d" % rng.randint(0, 5) for _ in range(nrows)]
        elif lc == "filename":
            data[c] = ["run%d.mzML" % rng.randint(0, 2) for _ in range(nrows)]
        elif lc in ("calcmass", "expmass"):
            data[c] = [500 + rng.randint(0, 40) * 0.25 for _ in range(nrows)]
        elif lc == "ret_time":
            data[c] = [rng.randint(0, 60) * 0.5 for _ in range(nrows)]
        elif lc in ("modifiedpeptide", "precursor", "peptidegroup"):
            data[c] = ["lv%d" % rng.randint(0, 5) for _ in range(nrows)]
        else:
            data[c] = [rng.randint(0, 50) * 0.5 for _ in range(nrows)]
    for c in nan_cols:
        if nan == "allrows":
            data[c] = [None] * nrows
        else:
            for r in rng.sample(range(nrows), rng.randint(1, nrows)):
                data[c][r] = None
    return {"fn": "read", "cols": cols, "data": data, "cs": cs, "rowchunk": rng.choice([1, 2, 3, nrows - 1 or 1, nrows, nrows + 1, 2000000]),
            "workers": rng.randint(1, 4), "fmt": fmt or rng.choice(["tsv", "tsv", "parquet"]),
            "user_opts": {}, "label_enc": label_enc, "tags": list(tags) + [label_enc, "nan=" + nan]}


# ----------------------------------------------------------------------------- white-box variation of one table
def _nrows(c):
    return len(c["data"][c["cols"][0]]) if c["cols"] else 0


def _is_feat(c, x):
    """a column that plays no role at all (a feature unless it has a missing value)"""
    lx = x.lower()
    if lx in REQ_L or lx in OPT_L or lx in LEVEL_L or lx.startswith("charge") or x == IDX_COL:
        return False
    return x not in (c.get("user_opts") or {}).values()


def _rename(c, old, new):
    c["cols"][c["cols"].index(old)] = new
    c["data"][new] = c["data"].pop(old)
    for k, v in list((c.get("user_opts") or {}).items()):
        if v == old:
            c["user_opts"][k] = new


def _vary_format(rng, c):
    """how the table is stored and how the parser is called (does not change the table)"""
    tags = c["tags"]
    n = _nrows(c)
    if c["fmt"] == "tsv":
        c["suffix"] = rng.choice([".tsv", ".pin", ".pin", ".pin", ".tab", ".txt", ".pin.gz"])
        c["tsv"] = {"na_rep": rng.choice(["", "", "", "NaN", "nan", "NA", "NULL", "N/A", "null"]),
                    "eol": rng.choice(["\n", "\n", "\n", "\r\n"]), "final_nl": rng.random() < 0.8,
                    "bom": rng.random() < 0.1, "bool": rng.choice(["True", "True", "true", "TRUE"])}
        tags += ["suffix=" + c["suffix"], "na_rep=" + (c["tsv"]["na_rep"] or "empty")]
        if c["tsv"]["eol"] != "\n":
            tags.append("crlf")
        if not c["tsv"]["final_nl"]:
            tags.append("no-final-newline")
        if c["tsv"]["bom"]:
            tags.append("bom")
        if c["label_enc"] == "bool" and c["tsv"]["bool"] != "True":
            tags.append("bool-text=" + c["tsv"]["bool"])
    else:
        c["suffix"] = ".parquet"
        ld = None
        if c["label_enc"] == "01":
            ld = rng.choice([None, "int8", "int32", "uint8", "int16"])
        elif c["label_enc"] in ("pm1", "mixed"):
            ld = rng.choice([None, "int8", "int32", "int16"])
        c["pq"] = {"row_group": rng.choice([1, 2, 3, 5, max(1, n - 1), n + 1, 1000]), "label_dtype": ld,
                   "nan_not_null": rng.random() < 0.35, "categorical": rng.random() < 0.3, "index": None}
        tags += ["suffix=.parquet", "rowgroup" + ("=" if c["pq"]["row_group"] == min(c["rowchunk"], 1000) else "!=") + "batch"]
        if ld:
            tags.append("label-dtype=" + ld)
        if c["pq"]["nan_not_null"]:
            tags.append("pq-nan-not-null")
        if c["pq"]["categorical"]:
            tags.append("pq-dictionary")
    if rng.random() < 0.12:
        c["workers"] = -1
        tags.append("workers=-1")
    c["call"] = "read_percolator" if rng.random() < 0.15 else "read_pin"
    c["pathkind"] = "rel" if rng.random() < 0.15 else "abs"
    c["twice"] = rng.random() < 0.12
    tags += ["call=" + c["call"], "path=" + c["pathkind"]] + (["twice"] if c["twice"] else [])
    return c


def _vary_table(rng, c, p=1.0):
    """leave the 'float features called feat<i>, complete key columns' domain"""
    tags = c["tags"]
    n = _nrows(c)
    feats = [x for x in c["cols"] if _is_feat(c, x)]
    # feature columns of other dtypes (missing cells stay missing)
    if feats and rng.random() < 0.5 * p:
        for x in feats:
            if rng.random() < 0.35:
                kind = rng.choice(["int", "bool", "str", "inf", "bigint", "intlike-float"])
                new = []
                for v in c["data"][x]:
                    if v is None:
                        new.append(None)
                    elif kind == "int":
                        new.append(rng.randint(-5, 40))
                    elif kind == "bool":
                        new.append(rng.random() < 0.5)
                    elif kind == "str":
                        new.append(rng.choice(WORDS))
                    elif kind == "inf":
                        new.append(rng.choice([float("inf"), float("-inf"), 1.5, -2.25]))
                    elif kind == "bigint":
                        new.append(rng.choice([2 ** 40, -2 ** 40, 10 ** 15 + 1, 7]))
                    else:
                        new.append(float(rng.randint(0, 9)))
                c["data"][x] = new
                if "feat-dtype=" + kind not in tags:
                    tags.append("feat-dtype=" + kind)
    # awkward feature names
    if feats and rng.random() < 0.4 * p:
        taken = set(c["cols"]) | {"RunFile", "TheoMass", "ObsMass", "RT", "Z"}
        for x in rng.sample(feats, min(len(feats), rng.randint(1, 6))):
            new = rng.choice(ODD_NAMES)
            if new in taken:
                continue
            taken.add(new)
            _rename(c, x, new)
        tags.append("odd-names")
        if len({y.lower() for y in c["cols"]}) < len(c["cols"]):
            tags.append("case-twin-features")
    # letter case of the charge columns
    if rng.random() < 0.5 * p:
        for x in [y for y in c["cols"] if y.lower().startswith("charge") and _case(rng, y) != y]:
            new = _case(rng, x)
            if new not in c["cols"] and new.lower() not in [y.lower() for y in c["cols"] if y != x]:
                _rename(c, x, new)
                if "charge-case" not in tags:
                    tags.append("charge-case")
    # several level columns that differ only in case (find_columns returns them all)
    if rng.random() < 0.15 * p:
        base = rng.choice(["Precursor", "ModifiedPeptide", "PeptideGroup"])
        have = [y for y in c["cols"] if y.lower() == base.lower()]
        for cand in (base, base.upper(), base.lower(), base.swapcase()):
            if cand not in c["cols"] and len(have) < 2:
                c["cols"].insert(rng.randint(0, len(c["cols"])), cand)
                c["data"][cand] = ["lw%d" % rng.randint(0, 4) for _ in range(n)]
                have.append(cand)
        if c["cols"][-1] != IDX_COL and IDX_COL in c["cols"]:
            c["cols"].remove(IDX_COL)
            c["cols"].append(IDX_COL)
        tags.append("level-twins")
    # missing values in the optional key / mass columns: the rows must stay
    keyish = [x for x in c["cols"] if x.lower() in OPT_L or x in (c.get("user_opts") or {}).values()]
    keyish = [x for x in keyish if not x.lower().startswith("charge")]
    if keyish and n and rng.random() < 0.3 * p:
        for x in rng.sample(keyish, rng.randint(1, len(keyish))):
            for r in rng.sample(range(n), rng.randint(1, max(1, n // 2))):
                c["data"][x][r] = None
        tags.append("nan-in-key-columns")
    # all three label values in one table
    if c["label_enc"] == "01" and rng.random() < 0.35 * p:
        lab = [x for x in c["cols"] if x.lower() == "label"][0]
        c["data"][lab] = [(-1 if (v == 0 and rng.random() < 0.5) else v) for v in c["data"][lab]]
        c["label_enc"] = "mixed"
        tags.append("mixed")
    # scan numbers beyond 32 bit, key values with blanks / non-ASCII text
    if rng.random() < 0.15 * p:
        sc = [x for x in c["cols"] if x.lower() == "scannr"]
        if sc:
            c["data"][sc[0]] = [v + 10 ** 12 for v in c["data"][sc[0]]]
            tags.append("scan-huge")
    if rng.random() < 0.3 * p:
        fn = [x for x in c["cols"] if x.lower() == "filename" or x == (c.get("user_opts") or {}).get("filename_column")]
        if fn:
            pool = ["run 1 (a).raw", "C:\\data\\r2.raw", "r\u00e9pl_3.mzML", "/mnt/x/y.d", "b.mzML"]
            c["data"][fn[0]] = [None if v is None else rng.choice(pool) for v in c["data"][fn[0]]]
            tags.append("filename-odd-text")
    return c


def _vary(rng, c, p=1.0):
    return _vary_format(rng, _vary_table(rng, c, p))


def _with_pq_index(rng, c, kind):
    """Parquet file written by pandas with its index (df[mask].to_parquet(path), df.set_index(..).to_parquet(path))"""
    n = _nrows(c)
    c["fmt"] = "parquet"
    c = _vary_format(rng, c)
    c["pq"]["index"] = kind
    if kind == "int":
        vals = sorted(rng.sample(range(0, 3 * n + 5), n))
        if vals == list(range(n)):
            vals = [v + 1 for v in vals]
    elif kind == "str":
        vals = ["row%d" % i for i in range(n)]
    else:
        vals = None
        c["pq"]["range_start"] = rng.randint(1, 50)
    if vals is not None:
        c["cols"].append(IDX_COL)
        c["data"][IDX_COL] = vals
    c["tags"] += ["pq-pandas-index=" + kind]
    return c


# ----------------------------------------------------------------------------- generator
def gen(ctx):
    cases = []
    rng = ctx.sub("sweep")
    vr = ctx.sub("sweep-vary")
    # (1) residue sweep
    chunk_sizes = range(2, 26) if ctx.thorough else [2, 3, 5, 7, 19]
    for cs in chunk_sizes:
        for opt in ([], ["expmass"], ["filename", "expmass"], ["filename", "ret_time", "expmass"]):
            k = len(opt) + 2     # scan + label + optional spectrum columns
            base = rng.randint(0, 2) * cs
            for r in range(cs):
                # choose nfeat such that (nfeat + k) % cs == r
                nfeat = (r - k) % cs + base
                c = _table(rng, nfeat, cs, opt=list(opt), levels=[], nrows=rng.randint(1, 6), nan="none",
                           shuffle=False, fmt="tsv", tags=("sweep", f"cs={cs}", f"nid={k}"))
                c["suffix"] = vr.choice([".tsv", ".pin"])
                c["tags"].append("suffix=" + c["suffix"])
                cases.append(c)
    # column chunk of ONE column (every identifier set is larger than the chunk)
    for opt in ([], ["expmass"], ["filename", "ret_time", "expmass"]):
        for nfeat in ((0, 1, 2, 5, 9) if ctx.thorough else (0, 1, 4)):
            cases.append(_vary_format(vr, _table(rng, nfeat, 1, opt=list(opt), nrows=rng.randint(1, 6), fmt=vr.choice(["tsv", "parquet"]),
                                                 tags=("sweep", "cs=1", f"nid={len(opt) + 2}"))))
    # default chunk size 19 with 18 / 37 features and three identifier columns (F2)
    for nfeat in (18, 37, 17, 19, 36, 38):
        cases.append(_table(rng, nfeat, 19, opt=["expmass"], levels=[], nrows=4, nan="none", shuffle=False, fmt="tsv",
                            tags=("sweep", "default-chunk", "nid=3")))
    # (1b) the chunking function itself
    rng = ctx.sub("chunks")
    for cs in (range(1, 26) if ctx.thorough else (1, 2, 3, 4, 7, 19)):
        for k in range(1, 6):
            for n in (range(0, 46) if ctx.thorough else sorted({0, 1, cs - 1, cs, cs + 1, 2 * cs - k if 2 * cs > k else 2, 18, 37, rng.randint(0, 45)})):
                cases.append({"fn": "chunks", "n": max(0, n), "k": k, "cs": cs, "tags": ["chunks-fn"]})
    # (2) random tables
    rng = ctx.sub("random")
    vr = ctx.sub("random-vary")
    for k in range(500 if ctx.thorough else 120):
        cs = rng.choice([2, 3, 4, 5, 7, 10, 19, 19, 25, 64])
        nfeat = rng.randint(0, 60)
        c = _table(rng, nfeat, cs, tags=("random",))
        # the first third stays in the plain domain (plain .tsv, float features) except for the storage format
        cases.append(c if k % 3 == 0 else _vary(vr, c))
    # (2b) caller-named optional columns (filename_column=, calcmass_column=, expmass_column=, rt_column=, charge_column=):
    #      the optional columns carry unconventional names and the matching options are passed to read_pin
    rng = ctx.sub("useropt")
    vr = ctx.sub("useropt-vary")
    ALT = {"filename": ("filename_column", "RunFile"), "calcmass": ("calcmass_column", "TheoMass"),
           "expmass": ("expmass_column", "ObsMass"), "ret_time": ("rt_column", "RT")}
    for k in range(200 if ctx.thorough else 60):
        opt = [o for o in ["filename", "calcmass", "expmass", "ret_time"] if rng.random() < 0.65] or ["expmass"]
        c = _table(rng, rng.randint(0, 12), rng.choice([3, 5, 19]), opt=opt, tags=("useropt-valid",))
        ren = [o for o in opt if rng.random() < 0.7] or [opt[0]]
        for o in ren:
            key, new = ALT[o]
            old_name = [x for x in c["cols"] if x.lower() == o][0]
            c["cols"][c["cols"].index(old_name)] = new
            c["data"][new] = c["data"].pop(old_name)
            c["user_opts"][key] = new
        c["tags"].append("renamed=" + "+".join(sorted(ren)))
        if k % 2:
            n = _nrows(c)
            # a default-named column of the same role next to the caller-named one: it plays no role
            for o in ren:
                if vr.random() < 0.4:
                    dn = _case(vr, {"filename": "FileName", "calcmass": "CalcMass", "expmass": "ExpMass", "ret_time": "ret_time"}[o])
                    c["cols"].insert(vr.randint(0, len(c["cols"])), dn)
                    c["data"][dn] = ["other%d.raw" % vr.randint(0, 2) for _ in range(n)] if o == "filename" else \
                        [vr.randint(0, 80) * 0.25 for _ in range(n)]
                    if "coexist" not in c["tags"]:
                        c["tags"].append("coexist")
            # caller-named charge column
            if vr.random() < 0.5:
                ch = [x for x in c["cols"] if x.lower().startswith("charge")]
                if ch and vr.random() < 0.6:
                    c["user_opts"]["charge_column"] = vr.choice(ch)
                else:
                    c["cols"].insert(vr.randint(0, len(c["cols"])), "Z")
                    c["data"]["Z"] = [vr.randint(1, 4) for _ in range(n)]
                    c["user_opts"]["charge_column"] = "Z"
                c["tags"].append("user-charge")
            c = _vary(vr, c)
        cases.append(c)
    # (3) malformed
    rng = ctx.sub("malformed")
    for k in range(120 if ctx.thorough else 40):
        c = _table(rng, rng.randint(0, 8), 19, nan="none", tags=("malformed",))
        kind = rng.choice(["missing", "dup", "label2", "labelneg2", "useropt-missing", "useropt-ok"])
        cols, data = c["cols"], c["data"]
        if kind == "missing":
            victim = rng.choice([x for x in cols if x.lower() in [r.lower() for r in REQ]])
            cols.remove(victim)
            del data[victim]
        elif kind == "dup":
            victim = rng.choice([x for x in cols if x.lower() in [r.lower() for r in REQ]])
            alt = victim.swapcase() if victim.swapcase() != victim else victim + "x"
            if alt in cols or alt.lower() != victim.lower():
                alt = victim.upper() if victim.upper() != victim else victim.lower()
            if alt in cols:
                continue
            cols.append(alt)
            data[alt] = list(data[victim])
        elif kind in ("label2", "labelneg2"):
            lab = [x for x in cols if x.lower() == "label"][0]
            if c["label_enc"] == "bool":
                data[lab] = [1 if v else -1 for v in data[lab]]
                c["label_enc"] = "pm1"
            data[lab][rng.randrange(len(data[lab]))] = 2 if kind == "label2" else -2
        elif kind == "useropt-missing":
            c["user_opts"] = {rng.choice(["filename_column", "calcmass_column", "expmass_column", "rt_column", "charge_column"]): "nope"}
        else:
            feats = [x for x in cols if x.startswith("feat")]
            if not feats:
                continue
            c["user_opts"] = {rng.choice(["filename_column", "calcmass_column", "expmass_column", "rt_column", "charge_column"]): rng.choice(feats)}
        c["tags"].append(kind)
        cases.append(c)
    # (3b) more malformed tables
    rng = ctx.sub("malformed2")
    for k in range(240 if ctx.thorough else 48):
        kind = ["missing2", "dup-opt", "label-far", "label-nan", "label-text", "useropt-case", "label-far-late", "dup-plain"][k % 8]
        c = _table(rng, rng.randint(0, 8), rng.choice([3, 19]), nan="none", opt=["expmass", "filename"] if kind in ("dup-opt", "useropt-case") else None,
                   nrows=rng.randint(6, 20) if kind == "label-far-late" else None, tags=("malformed",))
        cols, data = c["cols"], c["data"]
        n = _nrows(c)
        lab = [x for x in cols if x.lower() == "label"][0]
        if kind == "missing2":
            for victim in rng.sample([x for x in cols if x.lower() in REQ_L], 2):
                cols.remove(victim)
                del data[victim]
        elif kind == "dup-opt":
            victim = rng.choice([x for x in cols if x.lower() in ("expmass", "filename")])
            alt = [a for a in (victim.swapcase(), victim.upper(), victim.lower()) if a not in cols]
            if not alt:
                continue
            cols.insert(rng.randint(0, len(cols)), alt[0])
            data[alt[0]] = list(data[victim])
        elif kind == "dup-plain":
            # the duplicate sits far from the original and holds other values
            victim = rng.choice([x for x in cols if x.lower() in REQ_L])
            alt = [a for a in (victim.upper(), victim.lower(), victim.swapcase()) if a not in cols]
            if not alt:
                continue
            cols.insert(0 if cols.index(victim) > len(cols) // 2 else len(cols), alt[0])
            data[alt[0]] = list(reversed(data[victim]))
        elif kind in ("label-far", "label-far-late"):
            if c["label_enc"] == "bool":
                data[lab] = [1 if v else -1 for v in data[lab]]
                c["label_enc"] = "pm1"
            bad = rng.choice([3, -3, 100, -100, 2 ** 40, -2 ** 40, 7, 255, 256, -128, 65537])
            data[lab][n - 1 if kind == "label-far-late" else rng.randrange(n)] = bad
            if kind == "label-far-late":
                c["rowchunk"] = rng.choice([1, 2, 3])
        elif kind == "label-nan":
            data[lab][rng.randrange(n)] = None
            c["model"] = False
        elif kind == "label-text":
            data[lab] = ["target" if v in (1, True) else "decoy" for v in data[lab]]
            c["label_enc"] = "text"
            c["model"] = False
        elif kind == "useropt-case":
            victim = rng.choice([x for x in cols if x.lower() in ("expmass", "filename")])
            wrong = [a for a in (victim.swapcase(), victim.upper(), victim.lower()) if a not in cols]
            if not wrong:
                continue
            c["user_opts"] = {"expmass_column" if victim.lower() == "expmass" else "filename_column": wrong[0]}
        c = _vary_format(rng, c)
        if c.get("pq"):
            c["pq"]["label_dtype"] = None
        if kind in ("label-nan", "label-text"):
            c["twice"] = False
        c["tags"].append(kind)
        cases.append(c)
    # (4) several files in one call: dataset k belongs to file k
    rng = ctx.sub("multi")
    for k in range(150 if ctx.thorough else 24):
        nfiles = rng.randint(2, 4)
        names = rng.sample(["b_rep", "a_rep", "z_first", "m.part", "A_upper", "run10", "run2", "c c"], nfiles)
        if names == sorted(names):
            names.reverse()
        tabs = []
        for j in range(nfiles):
            t = _vary(rng, _table(rng, rng.randint(0, 10), 19, nrows=rng.randint(1, 9), tags=()), p=0.6)
            t["fname"] = names[j]
            t["twice"] = False
            t["call"] = "read_pin"
            tabs.append(t)
        pos = rng.randrange(nfiles)
        c = tabs[pos]
        c["cs"] = rng.choice([2, 3, 5, 19])
        c["siblings"] = [dict(t, tags=[]) for j, t in enumerate(tabs) if j != pos]
        c["pos"] = pos
        c["container"] = rng.choice(["list", "tuple"])
        c["pathkind"] = rng.choice(["abs", "abs", "rel"])
        c["tags"] = ["multi", f"files={nfiles}", "container=" + c["container"]] + c["tags"]
        cases.append(c)
    # (5) Parquet files that carry a pandas index, zero-row tables, 1-row and larger tables
    rng = ctx.sub("layout")
    for k in range(90 if ctx.thorough else 18):
        kind = ["int", "str", "range"][k % 3]
        c = _table(rng, rng.randint(0, 8), rng.choice([3, 19]), nrows=rng.randint(2, 12), fmt="parquet", tags=("layout",))
        cases.append(_with_pq_index(rng, c, kind))
    for k in range(24 if ctx.thorough else 10):
        c = _table(rng, rng.randint(0, 8), rng.choice([3, 19]), nrows=3, fmt=["tsv", "parquet"][k % 2], tags=("layout", "rows=0"))
        c["data"] = {x: [] for x in c["cols"]}
        c["zero_like"] = {x: ("s" if x.lower() in ("specid", "peptide", "proteins", "filename") + LEVEL_L else
                              ("b" if (x.lower() == "label" and c["label_enc"] == "bool") else
                               ("i" if x.lower() in ("label", "scannr") else "f"))) for x in c["cols"]}
        c["tags"] = [t for t in c["tags"] if not t.startswith("nan=")] + ["nan=none"]
        c = _vary_format(rng, c)
        c["rowchunk"] = rng.choice([1, 3, 2000000])
        cases.append(c)
    for k in range(24 if ctx.thorough else 8):
        c = _table(rng, rng.randint(0, 20), rng.choice([3, 19]), nrows=1, tags=("layout", "rows=1"))
        cases.append(_vary(rng, c))
    for k in range(30 if ctx.thorough else 5):
        n = rng.randint(150, 400)
        c = _table(rng, rng.randint(1, 25), rng.choice([4, 19]), nrows=n, tags=("layout", "rows>=150"))
        c["rowchunk"] = rng.choice([7, 64, 100, n // 2, n - 1, 2000000])
        cases.append(_vary(rng, c))
    # (6) the row chunks of the missing-value scan (R2.19)
    rng = ctx.sub("rowchunks")
    for k in range(240 if ctx.thorough else 40):
        cases.append(_rowchunk_case(rng, k))
    for k in range(12 if ctx.thorough else 4):
        c = _table(rng, rng.randint(0, 6), rng.choice([2, 19]), nrows=rng.randint(1, 5), fmt=["tsv", "parquet"][k % 2],
                   tags=("rowchunks", "rowchunk=0"))
        c["rowchunk"] = 0
        cases.append(c)
    for c in cases:
        if c["fn"] == "read" and c.get("model") is not False:
            c["tags"].append("model=" + _entry(c))
    return cases


def _rowchunk_case(rng, k):
    """several row chunks; missing cells confined to chosen row chunks; column slices that consist of identifier columns only
    or whose features are all incomplete"""
    opt = rng.choice([[], ["expmass"], ["filename", "expmass"], ["filename", "ret_time", "expmass"]])
    nid = len(opt) + 2
    cs = rng.choice([2, 3, 4, 5, 19])
    shape = ["ids-only-slice", "ids-slice-all-nan", "any"][k % 3]
    if shape == "ids-only-slice":
        # (nfeat + nid) % cs in 1..nid-1: the identifier columns get a chunk of their own
        cand = [f for f in range(0, 3 * cs + 1) if 0 < (f + nid) % cs < nid]
        nfeat = rng.choice(cand) if cand else rng.randint(0, 8)
    elif shape == "ids-slice-all-nan":
        cand = [f for f in range(1, 3 * cs + 1) if ((f + nid) % cs or cs) > nid]
        nfeat = rng.choice(cand) if cand else rng.randint(1, 8)
    else:
        nfeat = rng.randint(0, 12)
    n = rng.randint(2, 14)
    c = _table(rng, nfeat, cs, opt=list(opt), levels=[], nrows=n, nan="none", shuffle=False,
               fmt=rng.choice(["tsv", "parquet"]), tags=("rowchunks", shape))
    c["tags"] = [t for t in c["tags"] if not t.startswith("nan=")]
    for x in [y for y in c["cols"] if y.lower().startswith("charge")]:      # keep the slice arithmetic exact
        c["cols"].remove(x)
        del c["data"][x]
    rc = rng.choice([1, 1, 2, 3, max(1, n // 2), max(1, n - 1)])
    c["rowchunk"] = rc
    nchunks = (n + rc - 1) // rc
    feats = [x for x in c["cols"] if x.startswith("feat")]
    if shape == "ids-slice-all-nan":
        last = ((nfeat + nid) % cs or cs) - nid          # features that share the slice of the identifier columns
        victims = feats[len(feats) - last:] if rng.random() < 0.7 else feats
    else:
        victims = rng.sample(feats, rng.randint(0, min(4, len(feats)))) if feats else []
    where = rng.choice(["first", "middle", "last", "each", "scattered"])
    for j, x in enumerate(victims):
        if where == "first":
            ch = [0]
        elif where == "last":
            ch = [nchunks - 1]
        elif where == "middle":
            ch = [nchunks // 2]
        elif where == "each":
            ch = [j % nchunks]
        else:
            ch = rng.sample(range(nchunks), rng.randint(1, nchunks))
        for q in ch:
            lo, hi = q * rc, min(n, (q + 1) * rc)
            for r in rng.sample(range(lo, hi), rng.randint(1, hi - lo)):
                c["data"][x][r] = None
    c["tags"] += ["nan=" + ("none" if not victims else "several"), "nan-chunk=" + where, "rowchunks=%d" % min(nchunks, 4)]
    if c["fmt"] == "parquet":
        c["pq"] = {"row_group": rng.choice([1, 2, 3, max(1, n - 1), n + 1]), "label_dtype": None,
                   "nan_not_null": rng.random() < 0.3, "categorical": False, "index": None}
    return c


# ----------------------------------------------------------------------------- model side
def _cellmap(c):
    """value -> integer id per column (same mapping applied to the implementation's output)"""
    m = {}
    for col in c["cols"]:
        vals = c["data"][col]
        d = {}
        for v in vals:
            key = _key(v)
            if key not in d:
                d[key] = len(d) + 1
        m[col] = d
    return m


def _key(v):
    if v is None:
        return "nan"
    if isinstance(v, bool):
        return "b%d" % int(v)
    if isinstance(v, (int, float)):
        return "n%r" % float(v)
    return "s" + str(v)


def _entry(c):
    """which model a table is compared with: the column-chunk sweep read in ONE row chunk stays on pc_read (told the NaN
    columns), everything else goes to pc_read_rc (row-chunk size + missingness of every cell)"""
    n = _nrows(c)
    if "sweep" in c.get("tags", ()) and n >= 1 and c["rowchunk"] >= n:
        return "read"
    return "read_rc"


def encode(c):
    if c["fn"] == "chunks":
        return "c10.chunks %s %s %s" % (lib.lst(range(c["n"])), lib.lst(range(1000, 1000 + c["k"])), lib.z(c["cs"]))
    if c.get("model") is False:
        return "c10.chunks 0 0 b1"        # not modelled (label cell that is no number): property oracle only
    if _entry(c) == "read_rc":
        return _encode_rc(c)
    cols = c["cols"]
    uo = c.get("user_opts", {})
    opts = [uo.get(k) for k in ("filename_column", "calcmass_column", "expmass_column", "rt_column", "charge_column")]
    label_is_bool = c["label_enc"] == "bool"
    cm = _cellmap(c)
    nrows = len(next(iter(c["data"].values()))) if c["data"] else 0
    rows = []
    for r in range(nrows):
        row = []
        for col in cols:
            v = c["data"][col][r]
            if col.lower() == "label":
                row.append(int(v) if v is not None else 0)
            else:
                row.append(cm[col][_key(v)])
        rows.append(row)
    nan_cols = [col for col in cols if any(v is None for v in c["data"][col])]
    return "c10.read %s %s %s %s %s %s" % (
        lib.z(c["cs"]), lib.lst(cols, lib.s), " ".join(lib.opt(o, lib.s) for o in opts),
        lib.b(label_is_bool), lib.lst(rows, lambda r: lib.lst(r)), lib.lst(nan_cols, lib.s))


def _encode_rc(c):
    cols = c["cols"]
    uo = c.get("user_opts", {})
    opts = [uo.get(k) for k in ("filename_column", "calcmass_column", "expmass_column", "rt_column", "charge_column")]
    cm = _cellmap(c)
    n = _nrows(c)
    rows = []
    for r in range(n):
        cells, bits = [], []
        for col in cols:
            v = c["data"][col][r]
            bits.append(v is None)
            cells.append((int(v) if v is not None else 0) if col.lower() == "label" else cm[col][_key(v)])
        rows.append((cells, bits))
    # the text readers yield one empty chunk for a table without rows, the Parquet reader none
    empty_chunk = c["fmt"] != "parquet"
    rowchunk = min(c["rowchunk"], n + 1)        # C10_rc_large: every size >= n gives the same single chunk
    return "c10.read_rc %s %s %s %s %s %s %s" % (
        lib.b(empty_chunk), lib.z(rowchunk), lib.z(c["cs"]), lib.lst(cols, lib.s), " ".join(lib.opt(o, lib.s) for o in opts),
        lib.b(c["label_enc"] == "bool"), lib.lst(rows, lambda rm: lib.lst(rm[0]) + " " + lib.lst(rm[1], lib.b)))


def decode(c, t):
    if c["fn"] == "chunks":
        return ("ok", t.lst(lambda: t.lst()))
    if c.get("model") is False:
        return ("not-modelled", None)

    def body():
        d = {}
        d["features"] = t.lst(t.s)
        d["spectrum"] = t.lst(t.s)
        d["metadata"] = t.lst(t.s)
        d["levels"] = t.lst(t.s)
        for k in ("target", "peptide", "protein", "specid", "scan"):
            d[k] = t.s()
        for k in ("filename", "calcmass", "expmass", "rt", "charge"):
            d[k] = t.opt(t.s)
        d["spectra_rows"] = t.lst(lambda: t.lst())
        d["targets"] = t.lst(t.b)
        return d
    return t.result(body)


# ----------------------------------------------------------------------------- implementation side
def _frame(c):
    import pandas as pd
    cols = [x for x in c["cols"] if x != IDX_COL]
    if _nrows(c) == 0 and c.get("zero_like"):
        proto = {"s": "x", "b": True, "i": 1, "f": 1.5}
        df = pd.DataFrame({col: [proto[c["zero_like"][col]]] for col in cols}, columns=cols).iloc[:0]
        return df.reset_index(drop=True)
    return pd.DataFrame({col: c["data"][col] for col in cols}, columns=cols)


def _write(c, d):
    df = _frame(c)
    suffix = c.get("suffix") or (".parquet" if c["fmt"] == "parquet" else ".tsv")
    p = Path(d) / (c.get("fname", "table") + suffix)
    if c["fmt"] == "parquet":
        pqs = c.get("pq")
        if not pqs:                       # the plain layout of the original check
            df.to_parquet(p, index=False, row_group_size=max(1, min(c["rowchunk"], 1000)))
            return p
        import pandas as pd
        import pyarrow as pa
        import pyarrow.parquet as pq
        lab = [x for x in df.columns if x.lower() == "label"]
        if pqs.get("label_dtype") and lab and len(df):
            df[lab[0]] = df[lab[0]].astype(pqs["label_dtype"])
        if pqs.get("categorical"):
            for x in df.columns:
                if x.lower() in ("filename", "peptide") or x == (c.get("user_opts") or {}).get("filename_column"):
                    df[x] = df[x].astype("category")
        keep_index = False
        if pqs.get("index") in ("int", "str"):
            df.index = pd.Index(c["data"][IDX_COL])
            keep_index = True
        elif pqs.get("index") == "range":
            df.index = pd.RangeIndex(pqs["range_start"], pqs["range_start"] + len(df))
            keep_index = None             # pandas default: a RangeIndex is stored as metadata only
        tab = pa.Table.from_pandas(df, preserve_index=keep_index)
        if pqs.get("nan_not_null"):
            for j, name in enumerate(tab.column_names):
                if name in df.columns and str(df[name].dtype) == "float64":
                    tab = tab.set_column(j, tab.schema.field(j), pa.array(df[name].to_numpy(), from_pandas=False))
        pq.write_table(tab, p, row_group_size=max(1, pqs["row_group"]))
        return p
    st = c.get("tsv")
    if not st:                            # the plain layout of the original check
        df.to_csv(p, sep="\t", index=False, na_rep="")
        return p
    lab = [x for x in df.columns if x.lower() == "label"]
    if c["label_enc"] == "bool" and st["bool"] != "True" and lab and len(df):
        t, f = st["bool"], {"true": "false", "TRUE": "FALSE"}[st["bool"]]
        df[lab[0]] = [None if v is None else (t if v else f) for v in c["data"][lab[0]]]
    text = df.to_csv(sep="\t", index=False, na_rep=st["na_rep"], lineterminator=st["eol"])
    if not st["final_nl"] and text.endswith(st["eol"]):
        text = text[: -len(st["eol"])]
    raw = text.encode("utf-8-sig" if st["bom"] else "utf-8")
    if suffix.endswith(".gz"):
        with gzip.open(p, "wb") as fh:
            fh.write(raw)
    else:
        p.write_bytes(raw)
    return p


_SHARED_DIR = None


def _norm(v):
    try:
        import numpy as np
        if isinstance(v, np.generic):
            v = v.item()
    except Exception:
        pass
    if v is None:
        return None
    if isinstance(v, float) and v != v:
        return None
    try:
        import pandas as pd
        if v is pd.NA or v is pd.NaT:
            return None
    except Exception:
        pass
    return v


def _extract(ds, c, p):
    cm = _cellmap(c)
    sp = list(ds.spectrum_columns)
    sdf = ds.spectra_dataframe
    colvals = {col: sdf[col].tolist() for col in sp}
    rows = [[cm.get(col, {}).get(_key(_norm(colvals[col][r])), -1) for col in sp] for r in range(len(sdf))]
    tg = sdf[ds.target_column].tolist()
    return {
        "features": list(ds.feature_columns), "spectrum": sp, "metadata": list(ds.metadata_columns),
        "levels": list(ds.level_columns), "target": ds.target_column, "peptide": ds.peptide_column,
        "protein": ds.protein_column, "specid": ds.specId_column, "scan": ds.scan_column,
        "filename": ds.filename_column, "calcmass": ds.calcmass_column, "expmass": ds.expmass_column,
        "rt": ds.rt_column, "charge": ds.charge_column,
        "spectra_rows": rows, "targets": [v if type(v) is bool else "not-a-bool:%r" % (v,) for v in tg],
        "sdf_columns": list(sdf.columns), "index": [i if type(i) is int else repr(i) for i in sdf.index.tolist()],
        "columns": list(ds.columns), "file_ok": ds.filename == p, "n_types": len(ds.metadata_column_types),
    }


def _set_chunks(cs, rowchunk):
    """the chunk constants are bound at import: set them wherever the parser may look them up"""
    import mokapot.constants as K
    import mokapot.parsers.pin as pin
    old = []
    for mod in (pin, K):
        for name, val in (("CHUNK_SIZE_COLUMNS_FOR_DROP_COLUMNS", cs), ("CHUNK_SIZE_ROWS_FOR_DROP_COLUMNS", rowchunk)):
            if hasattr(mod, name):
                old.append((mod, name, getattr(mod, name)))
                setattr(mod, name, val)
    return old


def _read(c):
    import mokapot
    import mokapot.parsers.pin as pin
    if c["fn"] == "chunks":
        return [list(x) for x in pin.create_chunks_with_identifier(list(range(c["n"])), list(range(1000, 1000 + c["k"])), c["cs"])]
    # every second case is written to ONE path that all such cases of the run share (the file is replaced, as a pipeline
    # that regenerates its PIN file does): parsing must depend on what the file holds now, not on an earlier parse of that path
    shared = int(str(lib.stable_hash(c["cols"]))[:8], 16) % 2 == 0 and not c.get("siblings")
    if shared:
        global _SHARED_DIR
        if _SHARED_DIR is None or not os.path.isdir(_SHARED_DIR):
            _SHARED_DIR = tempfile.mkdtemp(prefix="c10shared_", dir=os.environ.get("VERIF_TMP", "/tmp"))
            import atexit
            atexit.register(shutil.rmtree, _SHARED_DIR, True)
        d = _SHARED_DIR
    else:
        d = tempfile.mkdtemp(prefix="c10_", dir=os.environ.get("VERIF_TMP", "/tmp"))
    old = _set_chunks(c["cs"], c["rowchunk"])
    cwd = os.getcwd()
    try:
        p = _write(c, d)
        tables = [c]
        paths = [p]
        for j, sib in enumerate(c.get("siblings") or []):
            tables.append(sib)
            paths.append(_write(sib, d))
        if c.get("siblings"):
            pos = c["pos"]
            tables.insert(pos, tables.pop(0))
            paths.insert(pos, paths.pop(0))
        if c.get("pathkind") == "rel":
            os.chdir(d)
            paths = [Path(q.name) for q in paths]
        kw = dict(c.get("user_opts", {}))
        if c.get("call") == "read_percolator":
            dss = [pin.read_percolator(paths[0], max_workers=c["workers"], **kw)]
        elif len(paths) == 1:
            dss = mokapot.read_pin(paths[0], max_workers=c["workers"], **kw)
        else:
            dss = mokapot.read_pin(list(paths) if c.get("container") == "list" else tuple(paths), max_workers=c["workers"], **kw)
        assert isinstance(dss, list) and len(dss) == len(paths), "read_pin returned %d datasets for %d files" % (len(dss), len(paths))
        main = c.get("pos", 0) if c.get("siblings") else 0
        out = _extract(dss[main], c, paths[main])
        if c.get("siblings"):
            probs = []
            for j, (t, q, ds) in enumerate(zip(tables, paths, dss)):
                if j == main:
                    continue
                msg = _table_failure(t, ("ok", _extract(ds, t, q)))
                if msg:
                    probs.append("file %d (%s): %s" % (j, q.name, msg))
            out["siblings"] = probs
        if c.get("twice"):
            again = mokapot.read_pin(paths[0], max_workers=c["workers"], **kw)
            out["second_same"] = len(again) == 1 and _extract(again[0], c, paths[0]) == {k: v for k, v in out.items() if k not in ("siblings",)}
        return out
    finally:
        os.chdir(cwd)
        for mod, name, val in reversed(old):
            setattr(mod, name, val)
        if not shared:
            shutil.rmtree(d, ignore_errors=True)


def impl(c):
    return call_impl(_read, c)


# ----------------------------------------------------------------------------- verdict
MODEL_KEYS = ("features", "spectrum", "metadata", "levels", "target", "peptide", "protein", "specid", "scan",
              "filename", "calcmass", "expmass", "rt", "charge", "spectra_rows", "targets")


def _problems(c, m, i, with_index=True):
    """every reason why the implementation result is not accepted for this case"""
    if c["fn"] == "chunks":
        out = []
        if m is not None and lib.jsonable(m) != lib.jsonable(i):
            out.append("model")
        msg = oracle(c, i)
        if msg:
            out.append("oracle: " + msg)
        return out
    out = []
    modelled = c.get("model") is not False
    if modelled and m is not None:
        if m[0] != i[0]:
            out.append("model: %s vs %s" % (m[0], i[0]))
        elif m[0] == "err":
            if m[1] != i[1]:
                out.append("model: error kind")
        else:
            a, b = m[1], i[1]
            for k in MODEL_KEYS:
                if a[k] != b[k]:
                    out.append("model: " + k)
    if i[0] == "ok":
        b = i[1]
        n = len(b["targets"])
        if with_index and b["index"] != list(range(n)):
            out.append("index")
        if b["sdf_columns"] != b["spectrum"] + [b["target"]]:
            out.append("spectra_dataframe columns")
        if b.get("columns") is not None and b["columns"] != c["cols"]:
            out.append("dataset.columns are not the columns of the file")
        if b.get("file_ok") is False:
            out.append("dataset.filename is not the parsed file")
        if b.get("n_types") is not None and b["n_types"] != len(b["metadata"]):
            out.append("metadata_column_types not aligned with metadata_columns")
        if b.get("siblings"):
            out.append("siblings")
        if b.get("second_same") is False:
            out.append("a second parse of the same file differs")
    msg = _table_failure(c, i, with_index=with_index)
    if msg:
        out.append("oracle: " + msg)
    return out


def same(c, m, i):
    return not _problems(c, m, i)


def nontrivial(c):
    if c["fn"] == "chunks":
        return c["n"] >= 1
    t = c.get("tags", [])
    return "malformed" in t or "nan=none" not in t or any(x.lower() in ("filename", "calcmass", "expmass", "ret_time", "modifiedpeptide", "precursor", "peptidegroup") for x in c["cols"]) \
        or sum(1 for x in c["cols"] if x.startswith("feat")) >= c["cs"] or bool(c.get("siblings")) or bool(c.get("user_opts"))


def _label_ok(v):
    return isinstance(v, (bool, int)) and v in (1, 0, -1, True, False)


def _must_fail(c):
    """the property demands an error: a required column is missing / not unique, or a label is outside {1,0,-1,bool}"""
    low = [x.lower() for x in c["cols"]]
    if any(low.count(r) != 1 for r in REQ_L):
        return "a required column is missing or not unique"
    lab = [x for x in c["cols"] if x.lower() == "label"][0]
    if not all(_label_ok(v) for v in c["data"][lab]):
        return "a label is not one of 1/-1/0/true/false"
    return None


def _wellformed(c):
    low = [x.lower() for x in c["cols"]]
    if any(low.count(r.lower()) != 1 for r in REQ):
        return False
    for o in ("filename", "calcmass", "expmass", "ret_time", "charge_column"):
        if low.count(o) > 1:
            return False
    if c.get("user_opts"):
        if "useropt-valid" not in c.get("tags", []) or not all(v in c["cols"] for v in c["user_opts"].values()):
            return False
    lab = [x for x in c["cols"] if x.lower() == "label"][0]
    return all(_label_ok(v) for v in c["data"][lab])


def _table_failure(c, i, with_index=True):
    """property text on the implementation output for ONE table, independent of the model"""
    why = _must_fail(c)
    if why:
        return None if i[0] == "err" else f"table accepted although {why}"
    if not _wellformed(c):
        return None
    if c.get("rowchunk") == 0:
        return None           # not a configuration the property speaks about: the model comparison decides (ValueError)
    if i[0] != "ok":
        return f"well-formed table rejected: {i!r}"
    r = i[1]
    cols = c["cols"]
    low = {}
    for x in cols:
        low.setdefault(x.lower(), x)
    uo = c.get("user_opts", {})
    for k, key in OPT_KEYS:
        if uo.get(key):
            low[k] = uo[key]          # the caller named the column that plays this role
        elif sum(1 for x in cols if x.lower() == k) != 1:
            low.pop(k, None)
    reserved = {low[k] for k in ("specid", "label", "scannr", "peptide", "proteins")}
    for k in ("filename", "calcmass", "expmass", "ret_time"):
        if k in low:
            reserved.add(low[k])
    for x in cols:
        if x.lower() in ("modifiedpeptide", "precursor", "peptidegroup"):
            reserved.add(x)
    # the charge rule of read_percolator: the charge column is no feature when there are other charge columns
    alt_charge = [x for x in cols if x.lower().startswith("charge")]
    charge = uo.get("charge_column") or ([x for x in cols if x.lower() == "charge_column"] or [None])[0]
    if charge is not None and len(alt_charge) > 1:
        reserved.add(charge)
    nan_cols = {x for x in cols if any(v is None for v in c["data"][x])}
    exp_feat = [x for x in cols if x not in reserved and x not in nan_cols]
    if r["features"] != exp_feat:
        return f"features {r['features']} != non-reserved NaN-free columns {exp_feat}"
    exp_sp = [low[k] for k in ("filename", "scannr", "ret_time", "expmass") if k in low]
    if r["spectrum"] != exp_sp:
        return f"spectrum key {r['spectrum']} != {exp_sp}"
    lab = low["label"]
    exp_t = [v is True or (v == 1 and v is not False) for v in c["data"][lab]]
    if r["targets"] != exp_t:
        return f"targets {r['targets']} != rows labelled 1/true {exp_t}"
    cm = _cellmap(c)
    exp_rows = [[cm[col][_key(c['data'][col][k])] for col in exp_sp] for k in range(len(exp_t))]
    if r["spectra_rows"] != exp_rows:
        if len(r["spectra_rows"]) != len(exp_rows):
            return f"spectra_dataframe has {len(r['spectra_rows'])} entries for {len(exp_rows)} input rows"
        return "spectra_dataframe does not hold one entry per input row in file order"
    if with_index and r.get("index") is not None and r["index"] != list(range(len(exp_t))):
        return f"entries of spectra_dataframe are not labelled with the row positions 0..n-1 of the file: {r['index'][:8]}"
    return None


def oracle(c, i):
    """the property on the implementation output, independent of the model"""
    if c["fn"] == "chunks":
        if i[0] != "ok":
            return f"create_chunks_with_identifier failed: {i!r}"
        chunks = i[1]
        ids = list(range(1000, 1000 + c["k"]))
        holders = [ch for ch in chunks if any(x in ids for x in ch)]
        if len(holders) != 1 or holders[0] is not chunks[-1] or chunks[-1][-len(ids):] != ids:
            return f"identifier columns are not kept together at the end of one chunk: {chunks}"
        flat = [x for ch in chunks for x in ch if x not in ids]
        if flat != list(range(c["n"])):
            return "not every feature column in exactly one chunk, in order"
        return None
    msg = _table_failure(c, i)
    if msg:
        return msg
    if i[0] == "ok":
        r = i[1]
        if r.get("siblings"):
            return "one call with several files: " + "; ".join(r["siblings"][:2])
        if _wellformed(c):
            if r.get("columns") is not None and r["columns"] != c["cols"]:
                return "dataset.columns are not the columns of the file"
            if r.get("file_ok") is False:
                return "dataset.filename is not the parsed file"
            if r.get("second_same") is False:
                return "a second parse of the same file differs from the first"
    return None


def finding_key(c, m, i):
    """known defects of the pinned tree (known_findings.json); the key is given only when the known defect is ALL
    that is wrong with the case"""
    if c.get("fn") != "read" or c.get("fmt") != "parquet":
        return None
    kind = (c.get("pq") or {}).get("index")
    if kind:
        if i[0] == "err":
            return K_PQ_INDEX if (kind == "str" and i[1] == "TypeError") else None
        if "index" in _problems(c, m, i) and not _problems(c, m, i, with_index=False):
            return K_PQ_INDEX
        return None
    # (the row-chunk model follows the code here: no row chunk, pd.concat([]) fails; C10_rc_no_chunk)
    if _nrows(c) == 0 and i == ("err", "ValueError") and _wellformed(c) and \
            (m is None or m[0] == "ok" or (m[0] == "err" and m[1] == "ValueError")):
        return K_PQ_EMPTY
    return None


def shrink(c):
    if c.get("fn") != "read":
        return
    cols = c["cols"]
    if c.get("siblings"):
        yield dict(c, siblings=c["siblings"][:-1], pos=min(c["pos"], len(c["siblings"]) - 1))
    nrows = len(c["data"][cols[0]]) if cols else 0
    if nrows > 1:
        yield dict(c, data={k: v[: nrows // 2] for k, v in c["data"].items()})
    for x in cols:
        if x.lower() not in [r.lower() for r in REQ] and not x.startswith("feat") and x != IDX_COL \
                and x not in (c.get("user_opts") or {}).values():
            yield dict(c, cols=[y for y in cols if y != x], data={k: v for k, v in c["data"].items() if k != x})
    feats = [x for x in cols if x.startswith("feat")]
    if len(feats) > 1:
        drop = set(feats[len(feats) // 2:])
        yield dict(c, cols=[y for y in cols if y not in drop], data={k: v for k, v in c["data"].items() if k not in drop})
