"""C04 — end-to-end FDR control.
(A) the accept set / FDP of Model/Fdr.v against the real mokapot.qvalues.tdc, exhaustively on small ranked lists, the real
    tdc being called with permuted rows and every score / label dtype and direction it accepts;
(T) the same with TIED scores (every tie-group structure): FDP from the real tdc against the FDP from the C01 model (tdc of
    Model/Tdc.v) and the sum over all labellings against alpha * 2^m (the property itself; Model/Fdr.v assumes distinct scores);
(B) the sum over all labellings against the bound of C04_fdr_control;
(C) simulated datasets with ground truth through the real read_pin + brew + assign_confidence with learners of unbounded
    capacity: training sets, routing and scores against the C02 model, no scored row is in the memory of its model, the result
    files against the C03 model and the competition / +1 oracle, re-scoring with the returned models, and a Monte-Carlo
    estimate of the FDP from the q-value columns of the result files joined with the ground truth."""
import itertools
import os
import shutil
import tempfile
from fractions import Fraction
from pathlib import Path

from .. import lib, brewlib
from ..lib import Toks, call_impl
from . import c02, c03
from .c01 import q_spec, exact_ints

PROP = "C04"
RULE = ("(A) every ranked list of n<=7 (quick) / n<=8 (thorough) positions, each a correct target, a null target or a "
        "null decoy, x alpha in {0.01,0.1,0.25,0.3,0.5,0.75}: FDP of the accept set from the model (fd_fdp, and via the "
        "C01 model) vs targets with q<=alpha from the real tdc, which is called in rotation with sorted / randomly permuted "
        "rows, float64 / float32 / int64 / shifted-negative scores, bool / 0-1 int / 0.0-1.0 float labels, desc=True / "
        "desc=False on negated scores; (T) every list of n<=5 / n<=6 positions x every grouping of adjacent positions into "
        "TIED score groups (at least one tie) x alpha in {0.1,0.3,0.5}: FDP from the real tdc vs FDP from the q-values of "
        "the C01 model; for every arrangement with ties the sum of the FDP over all labellings from the real tdc vs the "
        "model and vs alpha*2^m (property oracle: Model/Fdr.v covers distinct scores only); (B) for every arrangement of "
        "n<=7/8 positions the sum of the FDP over all labellings from the real tdc vs the model and vs alpha*2^m; (C) "
        "simulated datasets with ground truth (spectra with 1-3 candidate PSMs: at most one correct target, the others null "
        "targets / decoys from one null distribution; peptides shared between spectra; 1-3 jointly trained collections of "
        "150-900 PSMs; spectrum keys of 1-4 columns; labels -1/1, 0/1, bool; rows shuffled / targets first / decoys first / "
        "best first; 2-5 features) through the real read_pin + brew + assign_confidence; learners: row-memorising "
        "estimator with decision_function (calibrated) or predict_proba only (uncalibrated), fully grown sklearn decision "
        "tree, linear SVM; folds 2-5, 10, 12; test_fdr / train_fdr in {0.1,0.25,0.5}; max_iter 1-3; subset_max_train absent / "
        "small / large; workers 1/3/8; prediction / training-read / confidence / merge-sort chunk sizes smaller than the data; "
        "text / Parquet; result files of an earlier run present in the destination directory; worker threads with randomly "
        "perturbed task durations; rng as int, Generator or None; the legacy numpy global RNG seeded differently per case. Checked per "
        "case: C02 model (folds, training sets, routing, scores; linear SVM scores to 1e-9), leak = 0, result files = C03 model "
        "when the final scores are distinct, C03 oracle (one best PSM per spectrum / peptide, q = (D+1)/T on the retained rows) "
        "always, brew(models returned by the first run) reproduces scores and routing. Monte-Carlo: FDP among the targets "
        "with q<=alpha in targets.psms / targets.peptides joined with the ground truth; 5 / 16 large datasets (1800-2600 PSMs, "
        "rows shuffled, ties kept; brew stage checked by the C02 oracle alone, the extracted split model being too slow there) must keep the pooled FDP below alpha+0.04 (alpha=0.1) / alpha+0.05 (alpha=0.2) at PSM level, +0.06 / +0.08 at peptide level; all "
        "datasets: alarm on a gross excess only. ensemble=True cases are a known finding: the run is compared with the extracted model of the "
        "ensemble branch (Model/Brew.v bw_brew_scores_ens, R2.22: models in fold order, every model scores every row, training sets, the exact "
        "mean of the fold models' recorded decision values, result files) and counts as that finding only when the violated held-out "
        "property / the leak count are the ONLY disagreement. non-trivial = fdp: list has a null target and a null decoy, n>=3; tie lists: a tie group holds a target and a "
        "decoy; pipeline: brew returned scores and result files were written")
ASSUMPTIONS = [
    "exchangeability of null targets and decoys is the property's premise (simulated, not proved)",
    "that per-fold calibration preserves exchangeability when folds are merged is not proved (observed by the Monte-Carlo estimate)",
    "the equality 'accept set of fd_fdp = targets with tdc q <= alpha' is proved for every list (C04_accept_set_is_tdc, alpha < 1) about the C01 model; the real tdc is tied to that model by stream (A) here and by the C01 correspondence",
    "tied scores: no theorem (Model/Fdr.v assumes pairwise distinct scores); the real tdc is compared with the C01 model and the bound is evaluated exhaustively on small lists",
    "decision values of the linear SVM enter the C02 model as exact integers (common power-of-two scaling); the calibrated scores of the real code (three float roundings) are compared to 1e-9 relative",
    "PEP estimation replaced by a constant (C06)",
]
TRUSTED_EXTRA = c02.TRUSTED_EXTRA + c03.TRUSTED_EXTRA

ALPHAS = ["0.01", "0.1", "0.25", "0.3", "0.5", "0.75"]
TALPHAS = ["0.1", "0.3", "0.5"]
NVAR = 6
_MODEL = {}
_TMODEL = {}
_MC = []
_STATUS = {}
ENSEMBLE_KEY = "brew:ensemble-scores-training-rows"


def _enc_ri(kinds):
    return lib.lst(kinds, lambda k: str(k))


def _compositions(n):
    """all ways to cut n adjacent positions into groups: lists of group sizes"""
    for cuts in itertools.product((0, 1), repeat=n - 1):
        sizes, cur = [], 1
        for c in cuts:
            if c:
                sizes.append(cur)
                cur = 1
            else:
                cur += 1
        sizes.append(cur)
        yield sizes


def _group_scores(groups):
    out = []
    for g, size in enumerate(groups):
        out.extend([g] * size)
    return out


def _tkey(groups, st):
    return lib.stable_hash({"g": list(groups), "st": list(st)})


def gen(ctx):
    cases = []
    nmax = 8 if ctx.thorough else 7
    lines, keys = [], []
    idx = 0
    prng = ctx.sub("c04-tdc-call-permutations")        # row permutations of the tdc calls
    for n in range(0, nmax + 1):
        # position state worst first: 0 = correct target, 1 = null target, 2 = null decoy
        for st in itertools.product((0, 1, 2), repeat=n):
            kinds = [0 if s == 0 else 1 for s in st]
            w = [s == 1 for s in st if s != 0]
            for a in (ALPHAS if n <= 6 else ALPHAS[1::2]):
                idx += 1
                c = {"fn": "fdp", "kinds": kinds, "w": w, "alpha": a, "var": idx % NVAR, "salt": prng.randrange(2 ** 32),
                     "tags": ["fdp", f"n={n}", "tdc-call=%s" % VARNAMES[idx % NVAR]]}
                cases.append(c)
                lines.append("c04.fdp %s %s %s" % (lib.q(Fraction(a)), _enc_ri(kinds), lib.lst(w, lib.b)))
                keys.append(lib.stable_hash({"k": kinds, "w": w, "a": a}))
    for n in range(1, nmax + 1):
        for kinds in itertools.product((0, 1), repeat=n):
            if sum(kinds) > 8:
                continue
            for a in ("0.1", "0.3", "0.5"):
                idx += 1
                c = {"fn": "sum", "kinds": list(kinds), "alpha": a, "var": idx % NVAR, "salt": prng.randrange(2 ** 32),
                     "tags": ["sum", f"n={n}"]}
                cases.append(c)
                lines.append("c04.sums %s %s" % (lib.q(Fraction(a)), _enc_ri(kinds)))
                keys.append(lib.stable_hash({"k": list(kinds), "a": a, "sum": 1}))
    outs = lib.run_driver(lines)
    for k, o in zip(keys, outs):
        _MODEL[k] = o
    # (T) tied scores: the q-values of the C01 model for every (grouping, states)
    nt = 6 if ctx.thorough else 5
    tlines, tkeys = [], []
    for n in range(2, nt + 1):
        for groups in _compositions(n):
            if max(groups) < 2:
                continue
            for st in itertools.product((0, 1, 2), repeat=n):
                tlines.append(_tline(groups, st))
                tkeys.append(_tkey(groups, st))
                for a in TALPHAS:
                    idx += 1
                    cases.append({"fn": "tfdp", "groups": groups, "st": list(st), "alpha": a, "var": idx % NVAR,
                                  "salt": prng.randrange(2 ** 32), "tags": ["tied-fdp", f"n={n}", "tdc-call=%s" % VARNAMES[idx % NVAR]]})
    for k, o in zip(tkeys, lib.run_driver(tlines)):
        _TMODEL[k] = o
    for n in range(2, nt + 1):
        for groups in _compositions(n):
            if max(groups) < 2:
                continue
            for kinds in itertools.product((0, 1), repeat=n):
                if sum(kinds) == 0:
                    continue
                for a in ("0.3", "0.5"):
                    idx += 1
                    cases.append({"fn": "tsum", "groups": groups, "kinds": list(kinds), "alpha": a, "var": idx % NVAR,
                                  "salt": prng.randrange(2 ** 32), "tags": ["tied-sum", f"n={n}"]})
    cases.extend(_pipeline_cases(ctx))
    return cases


# ----------------------------------------------------------------------------- (C) simulated datasets
LEARNERS = ["memoriser", "memoriser", "memoriser-proba", "tree", "svc"]
FLOAT_LEARNERS = ("tree", "svc")
ORDERS = ["shuffled", "shuffled", "targets-first", "decoys-first", "best-first"]


def _pipeline_cases(ctx):
    rng = ctx.sub("c04-pipeline-v2")
    del _MC[:]
    _STATUS.clear()
    cases = []
    ncases = 150 if ctx.thorough else 34
    for k in range(ncases):
        nfiles = rng.choice([1, 1, 2, 3])
        folds = rng.choice([2, 3, 4, 5, 2, 3, 4, 5, 10, 12])
        # every learner and every number of collections occurs in both tiers
        learner = LEARNERS[k % len(LEARNERS)] if k < 2 * len(LEARNERS) else rng.choice(LEARNERS)
        if k < 6:
            nfiles = 1 + k % 3
        mult = rng.choice([1, 2, 3, 3])
        nkey = rng.choice([1, 2, 2, 3, 4])
        nfeat = rng.choice([2, 3, 3, 5])
        lo = 150 if folds < 10 else (360 if nfiles == 1 else 480)
        hi = (900 if ctx.thorough else 420) if folds < 10 else (900 if ctx.thorough else 560)
        files = [_simulate(rng, rng.randint(lo, hi), file_idx=j, mult=mult, nkey=nkey, nfeat=nfeat,
                           label_enc=rng.choice(["pm1", "pm1", "01", "bool"]), order=rng.choice(ORDERS))
                 for j in range(nfiles)]
        ntot = sum(len(f["targets"]) for f in files)
        nmax = max(len(f["targets"]) for f in files)
        chunks = {}
        if rng.random() < 0.4:
            chunks["predict"] = rng.choice([nmax // 9 + 1, nmax // 3 + 1, nmax // 2, nmax - 1, nmax, nmax + 1])
        if rng.random() < 0.3:
            chunks["trainread"] = rng.choice([nmax // 7 + 1, nmax // 2, nmax - 1, nmax + 1])
        if rng.random() < 0.3:
            chunks["confidence"] = rng.choice([3, 50, nmax - 1, nmax + 1])
        if rng.random() < 0.2:
            chunks["mergesort"] = rng.choice([2, 50, nmax + 1])
        fmt = rng.choice(["tsv", "tsv", "tsv", "parquet"])
        c = {"fn": "pipeline", "cid": "p%d" % k, "files": files, "folds": folds, "seed": rng.randint(0, 10 ** 6),
             "test_fdr": rng.choice(["0.25", "0.25", "0.1", "0.5"] if folds <= 3 else ["0.25", "0.25", "0.5"]), "train_fdr": rng.choice([0.25, 0.25, 0.1, 0.5]),
             "max_iter": rng.choice([1, 2, 2, 3]), "learner": learner, "workers": rng.choice([1, 1, 3, 8]),
             "subset_max_train": rng.choice([None, None, ntot // 3, ntot // 2, ntot * 2] if nfiles == 1 else [None, None, None, ntot // 2, ntot * 2]),
             "chunks": chunks, "fmt": fmt,
             "row_group": rng.choice([None, 5, 64]) if fmt == "parquet" else None,
             "est_mode": "proba" if learner in ("memoriser-proba", "tree") else "decision",
             "rng_kind": rng.choice(["int", "int", "generator", "none"]), "np_seed": rng.randint(0, 2 ** 31 - 1),
             "confidence": True, "tiebreak": rng.random() < 0.7, "c04_rescore": rng.random() < 0.3, "ensemble": False,
             "stale_results": rng.random() < 0.3}
        if c["workers"] > 1 and rng.random() < 0.5:
            c["sleep_seed"] = rng.randint(1, 10 ** 6)      # perturbed task durations: worker threads finish in another order
        c["tags"] = ["pipeline", learner, f"files={nfiles}", f"folds={folds}", f"psms-per-spectrum<={mult}", f"keycols={nkey}",
                     "cap" if c["subset_max_train"] else "nocap", fmt, "rng=" + c["rng_kind"],
                     "chunks=" + (",".join(sorted(chunks)) or "default"), "tiebreak" if c["tiebreak"] else "ties-kept",
                     "test_fdr=" + c["test_fdr"], "workers=%d" % c["workers"]] + (["rescore"] if c["c04_rescore"] else []) \
            + (["stale-result-files"] if c["stale_results"] else []) + (["thread-sleeps"] if c.get("sleep_seed") else []) \
            + sorted(set("rows=" + f["order"] for f in files)) + sorted(set("labels=" + f["label_enc"] for f in files))
        cases.append(c)
    # large datasets (per-fold calibration is stable): the Monte-Carlo estimate of the FDP is held to a tight bound
    for k in range(16 if ctx.thorough else 5):
        learner = ["memoriser", "svc", "memoriser-proba"][k % 3]
        f = _simulate(rng, rng.randint(1800, 2600), file_idx=0, mult=2, nkey=2, nfeat=3, label_enc="pm1", order="shuffled")
        cases.append({"fn": "pipeline", "cid": "L%d" % k, "files": [f], "folds": rng.choice([2, 3, 3, 5]), "seed": rng.randint(0, 10 ** 6),
                      "test_fdr": "0.25", "train_fdr": 0.25, "max_iter": 2, "learner": learner, "workers": rng.choice([1, 3]),
                      "subset_max_train": None, "chunks": {}, "fmt": "tsv", "row_group": None,
                      "est_mode": "proba" if learner == "memoriser-proba" else "decision",
                      "rng_kind": "int", "np_seed": k, "confidence": True, "tiebreak": False, "c04_rescore": False, "ensemble": False,
                      "large": True, "tags": ["pipeline", learner, "mc-large"]})
    # ensemble=True: every PSM is scored by the mean of ALL fold models (known finding, see known_findings.json)
    for k in range(4 if ctx.thorough else 2):
        f = _simulate(rng, rng.randint(200, 320), file_idx=0, mult=2, nkey=2, nfeat=3, label_enc="pm1", order="shuffled")
        cases.append({"fn": "pipeline", "cid": "e%d" % k, "files": [f], "folds": rng.choice([2, 3, 5]), "seed": rng.randint(0, 10 ** 6),
                      "test_fdr": "0.25", "train_fdr": 0.25, "max_iter": 2, "learner": "memoriser", "workers": 1,
                      "subset_max_train": None, "chunks": {}, "fmt": "tsv", "row_group": None, "est_mode": "decision",
                      "rng_kind": "int", "np_seed": k, "confidence": True, "tiebreak": True, "c04_rescore": False, "ensemble": True,
                      "tags": ["pipeline", "memoriser", "ensemble"]})
    return cases


def _simulate(rng, n, file_idx=0, mult=1, nkey=2, nfeat=3, label_enc="pm1", order="shuffled"):
    """spectra with 1..mult candidate PSMs: at most one correct target per spectrum (scores high), every other PSM is a null
    whose target / decoy label is a fair coin and whose features come from one distribution; peptides are shared between
    spectra (correct PSMs draw from the pool of present peptides, nulls from a pool whose target and decoy halves are
    exchangeable)"""
    rows = []
    spec = 0
    npool = max(3, n // 4)
    ncorrect_pool = max(2, n // 8)
    unique_scan = nkey == 1 or rng.random() < 0.5
    while len(rows) < n:
        m = rng.randint(1, mult)
        scan = spec + 1 if unique_scan else rng.randint(1, max(3, n // 3))
        key = {"ScanNr": scan, "filename": "run%d.mzML" % (spec % 2), "ret_time": (spec % 37) * 0.5, "ExpMass": 500 + spec * 0.25}
        has_correct = rng.random() < 0.45
        for p in range(m):
            if len(rows) >= n:
                break
            if p == 0 and has_correct:
                kind = "correct"
            else:
                kind = "null" if rng.random() < 0.5 else "decoy"
            if kind == "correct":
                pep = "K.PEPC%dK.A" % rng.randrange(ncorrect_pool)
            else:
                pep = "K.PEPN%d%sK.A" % (rng.randrange(npool), "T" if kind == "null" else "D")
            feats = [(rng.randint(55, 120) if (kind == "correct" and rng.random() < 0.9) else rng.randint(0, 70))
                     for _ in range(nfeat)]
            rows.append((key, kind, pep, feats, "p%d" % rng.randrange(7)))
        spec += 1
    if order == "shuffled":
        rng.shuffle(rows)
    elif order == "targets-first":
        rng.shuffle(rows)
        rows.sort(key=lambda r: r[1] == "decoy")
    elif order == "decoys-first":
        rng.shuffle(rows)
        rows.sort(key=lambda r: r[1] != "decoy")
    elif order == "best-first":
        rows.sort(key=lambda r: -r[3][0])
    kind = [r[1] for r in rows]
    tg = [k != "decoy" for k in kind]
    cols = {"SpecId": ["f%d_psm%d" % (file_idx, i) for i in range(n)]}
    if label_enc == "pm1":
        cols["Label"] = [1 if t else -1 for t in tg]
    elif label_enc == "01":
        cols["Label"] = [1 if t else 0 for t in tg]
    else:
        cols["Label"] = [bool(t) for t in tg]
    cols["ScanNr"] = [r[0]["ScanNr"] for r in rows]
    for name in brewlib.KEYSETS[nkey]:
        cols[name] = [r[0][name] for r in rows]
    cols["rid"] = [file_idx * 100000 + i for i in range(n)]
    for j in range(nfeat):
        cols["feat%d" % j] = [r[3][j] for r in rows]
    cols["Peptide"] = [r[2] for r in rows]
    cols["Proteins"] = [r[4] for r in rows]
    return {"columns": list(cols.keys()), "data": cols, "targets": tg, "kind": kind, "order": order, "label_enc": label_enc}


# ----------------------------------------------------------------------------- implementation side: tdc
VARNAMES = ["sorted-f64-bool", "perm-f64-bool", "perm-i64-bool", "perm-f32-int", "perm-asc-negated-float", "perm-shifted-f64-int"]


def _tdc_q(scores, flags, var, salt):
    """q-values of the real tdc for integer scores (higher = better) and target flags; the call is made in one of NVAR
    equivalent ways (row order, score dtype / offset, label container dtype, direction)"""
    import random
    import numpy as np
    from mokapot.qvalues import tdc
    n = len(scores)
    perm = list(range(n))
    if var:
        random.Random(salt).shuffle(perm)
    sc = [scores[p] for p in perm]
    fl = [bool(flags[p]) for p in perm]
    desc = True
    if var in (0, 1):
        s, t = np.array(sc, dtype=float), np.array(fl, dtype=bool)
    elif var == 2:
        s, t = np.array(sc, dtype=np.int64), np.array(fl, dtype=bool)
    elif var == 3:
        s, t = np.array(sc, dtype=np.float32), np.array([int(x) for x in fl], dtype=np.int64)
    elif var == 4:
        s, t = -np.array(sc, dtype=float), np.array([float(x) for x in fl], dtype=float)
        desc = False
    else:
        s, t = np.array(sc, dtype=float) * 0.5 - 1e6, np.array([int(x) for x in fl], dtype=np.int32)
    q = tdc(s, t, desc=desc)
    if len(q) != n:
        raise ValueError("tdc returned %d q-values for %d scores" % (len(q), n))
    out = [None] * n
    for j, p in enumerate(perm):
        out[p] = float(q[j])
    return out


def _fdp_from_q(q, flags, null, alpha):
    acc = [flags[i] and q[i] <= alpha for i in range(len(q))]
    r = sum(acc)
    v = sum(1 for i in range(len(q)) if acc[i] and null[i])
    return Fraction(v, r) if r else Fraction(0)


def _impl_fdp(kinds, w, alpha, var=0, scores=None, salt=0):
    flags, it = [], iter(w)
    for k in kinds:
        flags.append(True if k == 0 else bool(next(it)))
    n = len(kinds)
    if n == 0:
        return Fraction(0)
    sc = list(range(n)) if scores is None else scores
    q = _tdc_q(sc, flags, var, salt)
    return _fdp_from_q(q, flags, [k == 1 for k in kinds], float(alpha))


def _cached(cache, key, line):
    """model answer from the batch of gen(); a single driver call when the case comes from a replay file"""
    if key not in cache:
        cache[key] = lib.run_driver([line])[0]
    return cache[key]


def _tline(groups, st):
    return "c01.tdc %s %s 0 %s" % (lib.b(True), lib.lst(_group_scores(groups)), lib.lst([0 if s == 2 else 1 for s in st]))


def _model_tfdp(groups, st, alpha):
    t = Toks(_cached(_TMODEL, _tkey(groups, st), _tline(groups, st)))
    r = t.result(lambda: t.lst(t.q))
    if r[0] != "ok":
        raise lib.ModelError("c01.tdc: " + str(r[1]))
    q = r[1]
    flags = [s != 2 for s in st]
    return _fdp_from_q(q, flags, [s == 1 for s in st], Fraction(alpha))


def _states(kinds, w):
    it = iter(w)
    return [0 if k == 0 else (1 if next(it) else 2) for k in kinds]


# ----------------------------------------------------------------------------- implementation side: pipeline
def _classes():
    """learners that record what they were fitted on (mem_) and every decision value they return (seen_), keyed by the row id
    in feature column 0"""
    if getattr(_classes, "done", None):
        return _classes.done
    import numpy as np
    from sklearn.base import BaseEstimator, ClassifierMixin
    from sklearn.tree import DecisionTreeClassifier
    from sklearn.svm import LinearSVC
    from sklearn.preprocessing import StandardScaler
    from sklearn.pipeline import make_pipeline

    class _Rec(BaseEstimator, ClassifierMixin):
        def _start(self, X, y):
            self.mem_ = {int(i): int(l) for i, l in zip(X[:, 0], y)}
            self.classes_ = np.array([0, 1])
            if not hasattr(self, "seen_"):
                self.seen_ = {}

        def _record(self, X, out):
            for i, v in zip(X[:, 0], out):
                self.seen_[int(i)] = float(v)

    class MemoProba(_Rec):
        """the memorising learner with predict_proba only: mokapot does not calibrate its scores between folds"""

        def __init__(self, col=1):
            self.col = col

        def fit(self, X, y):
            self._start(X, y)
            return self

        def predict_proba(self, X):
            s = np.array([(1000.0 if self.mem_[int(r[0])] == 1 else -1000.0) if int(r[0]) in self.mem_ else float(r[self.col])
                          for r in X]).reshape(-1)
            self._record(X, s)
            return np.vstack([-s, s]).T

    class RecTree(_Rec):
        """fully grown decision tree (unbounded capacity), predict_proba only; the row id column is not shown to it (with
        rows listed targets first the row id would encode the label)"""

        def fit(self, X, y):
            self._start(X, y)
            self.base_ = DecisionTreeClassifier(random_state=0).fit(X[:, 1:], np.asarray(y).astype(int))
            return self

        def predict_proba(self, X):
            p = self.base_.predict_proba(X[:, 1:]) if X.shape[0] else np.zeros((0, 2))
            self._record(X, p[:, 1])
            return p

    class RecSVC(_Rec):
        """linear SVM on the standardised features (the row id column is not shown to it)"""

        def fit(self, X, y):
            self._start(X, y)
            self.base_ = make_pipeline(StandardScaler(), LinearSVC(dual=False)).fit(X[:, 1:], np.asarray(y).astype(int))
            return self

        def decision_function(self, X):
            s = self.base_.decision_function(X[:, 1:]) if X.shape[0] else np.zeros(0)
            self._record(X, s)
            return s

    _classes.done = {"memoriser-proba": MemoProba, "tree": RecTree, "svc": RecSVC}
    return _classes.done


def _make_model(case):
    from mokapot.model import Model
    RecScaler, _ = brewlib.make_classes()
    if case["learner"] == "memoriser":
        est = brewlib.make_classes.Memoriser()
    else:
        est = _classes()[case["learner"]]()
    return Model(est, scaler=RecScaler(), train_fdr=case.get("train_fdr", 0.25), max_iter=case.get("max_iter", 2),
                 override=True, rng=case["seed"])


def _rng_of(case):
    import numpy as np
    kind = case.get("rng_kind", "int")
    if kind == "generator":
        return np.random.default_rng(case["seed"])
    return None if kind == "none" else case["seed"]


def _scored_by_token(entries):
    tr = {}
    for tok, ids in entries:
        tr.setdefault(tok, []).extend(ids)
    return tr


def run_pipeline(case):
    """read_pin + brew + assign_confidence (+ brew again with the returned models) on the case; observation dict in the format
    of brewlib.run_brew plus the parsed result files"""
    import numpy as np
    import mokapot
    import mokapot.confidence as conf
    LOG = brewlib.LOG
    d = tempfile.mkdtemp(prefix="c04_", dir=os.environ.get("VERIF_TMP", "/tmp"))
    try:
        paths = [brewlib.write_file(f, d, "file%d" % i, case.get("fmt", "tsv"), case.get("row_group"))
                 for i, f in enumerate(case["files"])]
        np.random.seed(case.get("np_seed", 0))        # the legacy global generator must not matter
        with brewlib.Chunking(**case.get("chunks", {})), brewlib.Sleeps(case.get("sleep_seed")):
            dss = mokapot.read_pin(paths, max_workers=1)
            keys = [brewlib.spectrum_keys(ds) for ds in dss]
            brewlib.reset_log()
            model = _make_model(case)
            kw = {"ensemble": True} if case.get("ensemble") else {}
            try:
                _, models, scores, descs = mokapot.brew(
                    dss, model, test_fdr=float(case["test_fdr"]), folds=case["folds"], max_workers=case.get("workers", 1),
                    rng=_rng_of(case), subset_max_train=case.get("subset_max_train"), **kw)
            except BaseException as e:   # noqa
                if isinstance(e, (KeyboardInterrupt, SystemExit, MemoryError)):
                    raise
                return {"keys": keys, "error": lib.err_kind(e), "message": str(e)[:200], "est_fits": []}
            fit_by_token = dict(LOG["fit"])
            tr = _scored_by_token(LOG["transform"])
            n_tr = len(LOG["transform"])
            finite = all(np.all(np.isfinite(np.asarray(sc, dtype=float))) for sc in scores)
            # ---- confidence
            out = Path(d) / "out"
            out.mkdir(exist_ok=True)
            oldp = conf.peps_from_scores
            conf.peps_from_scores = brewlib._const_peps
            conf_scores = [np.asarray(sc, dtype=float).ravel() for sc in scores]
            if case.get("tiebreak"):
                conf_scores = [sc + np.arange(len(sc)) * 2.0 ** -20 for sc in conf_scores]
            conf_err = None
            if case.get("stale_results"):
                # result files of an earlier run in the destination directory: must be replaced, not extended
                pre = "coll0." if len(paths) > 1 else ""
                for kind in ("targets", "decoys"):
                    for level in ("psms", "peptides"):
                        (out / f"{pre}{kind}.{level}").write_text(
                            "PSMId\tpeptide\tscore\tq-value\tposterior_error_prob\tproteinIds\n"
                            "f0_psm0\tK.STALEK.A\t99999.0\t0.0\t0.0\tp0\n")
            try:
                if not finite:
                    # a fold whose calibration threshold equals its median decoy score: division by zero (C02 predicts it)
                    raise ArithmeticError("brew returned non-finite scores: confidence stage not run")
                prefixes = ["coll%d" % i for i in range(len(paths))] if len(paths) > 1 else [None]
                mokapot.assign_confidence(dss, max_workers=case.get("workers", 1), scores=conf_scores, descs=list(descs),
                                          eval_fdr=0.5, dest_dir=out, prefixes=prefixes, decoys=True)
            except BaseException as e:   # noqa
                if isinstance(e, (KeyboardInterrupt, SystemExit, MemoryError)):
                    raise
                conf_err = lib.err_kind(e) + ": " + str(e)[:150]
            finally:
                conf.peps_from_scores = oldp
            conf_rows, leftovers = {}, []
            for fn in sorted(os.listdir(out)):
                parts = fn.split(".")
                if "targets" in parts or "decoys" in parts:
                    conf_rows[fn] = brewlib.parse_result_file(out / fn)
                else:
                    leftovers.append(fn)
            # ---- brew again with the fitted models on freshly read datasets
            rescore = None
            if case.get("c04_rescore"):
                dss2 = mokapot.read_pin(paths, max_workers=1)
                try:
                    _, models2, scores2, _ = mokapot.brew(dss2, list(models), test_fdr=float(case["test_fdr"]),
                                                          folds=case["folds"], max_workers=case.get("workers", 1),
                                                          rng=_rng_of(case))
                    tr2 = _scored_by_token(LOG["transform"][n_tr:])
                    rescore = {"scores_equal": len(scores2) == len(scores) and all(
                                   np.array_equal(np.asarray(a).ravel(), np.asarray(b).ravel()) for a, b in zip(scores, scores2)),
                               "scored": [sorted(tr2.get(getattr(m.scaler, "token_", None), [])) for m in models2],
                               "folds": [m.fold for m in models2]}
                except BaseException as e:   # noqa
                    if isinstance(e, (KeyboardInterrupt, SystemExit, MemoryError)):
                        raise
                    rescore = {"error": lib.err_kind(e) + ": " + str(e)[:150]}
        return {
            "keys": keys, "error": None,
            "model_folds": [m.fold for m in models],
            "trained": [bool(m.is_trained) for m in models],
            "cols": [getattr(m.estimator, "col_", None) for m in models],
            "train_ids": [sorted(fit_by_token.get(getattr(m.scaler, "token_", None), [])) for m in models],
            "scored_ids": [sorted(tr.get(getattr(m.scaler, "token_", None), [])) for m in models],
            "scores": [[Fraction(float(v)) if np.isfinite(v) else None for v in np.asarray(s).ravel()] for s in scores],
            "descs": [bool(x) for x in descs],
            "memory": [sorted(getattr(m.estimator, "mem_", {}).keys()) for m in models],
            "seen": [dict(getattr(m.estimator, "seen_", {})) for m in models],
            "conf_rows": conf_rows, "leftovers": leftovers, "conf_error": conf_err,
            "conf_scores": [[Fraction(float(v)) for v in sc] for sc in conf_scores] if finite else None,
            "finite": finite,
            "c04_rescore": rescore,
        }
    finally:
        shutil.rmtree(d, ignore_errors=True)


def _close(a, b):
    if a is None or b is None or isinstance(a, str) or isinstance(b, str):
        return a == b
    return abs(a - b) <= Fraction(1, 10 ** 9) * max(1, abs(a), abs(b))


def _conf_case(c, obs):
    return {"fn": "conf", "files": c["files"], "scores": obs["conf_scores"], "dedup": True, "rollup": True, "decoys": True,
            "prefixes": len(c["files"]) > 1, "chunks": {k: v for k, v in c.get("chunks", {}).items() if k == "confidence"},
            "levels": [], "descs": True, "ties": False}


def _mc_collect(c, obs):
    """false discovery proportion among the accepted targets, from the q-value column of the result files"""
    for fn, rows in obs["conf_rows"].items():
        parts = fn.split(".")
        if "targets" not in parts:
            continue
        j = int(parts[0][4:]) if parts[0].startswith("coll") else 0
        if c.get("tiebreak") and c["files"][j]["order"] in ("targets-first", "decoys-first"):
            continue        # the harness's own tie-break by row position favours the class listed last
        level = parts[-1]
        for a in ("0.05", "0.1", "0.2"):
            acc = [r for r in rows if r["q"] <= Fraction(a)]
            v = 0
            for r in acc:
                j, ri = c03._locate(r["id"])
                v += c["files"][j]["kind"][ri] == "null"
            _MC.append((level, a, v, len(acc), c["learner"], bool(c.get("large"))))


def _compare_without_model(c, got):
    """large datasets (the extracted fold-split model needs ~40 s for 2500 rows): the brew stage is checked by the property
    oracle alone: one model per fold, every row scored by exactly one model, spectra not split between models (c02.oracle),
    the training rows of a model = all rows it does not score (no training cap in these cases), no leak"""
    if got[0] == "err":
        return ("unknown", "read_pin failed"), ("err", got[1])
    obs = got[1]
    if obs.get("error"):
        return ("err", obs["error"]), ("err", obs["error"])
    k = c["folds"]
    allrows = sorted(c02._gid(j, r) for j, f in enumerate(c["files"]) for r in range(len(f["targets"])))
    train = []
    for f in range(k):
        comp = sorted(set(allrows) - set(obs["scored_ids"][f]))
        train.append("ok" if obs["train_ids"][f] == comp else "mismatch")
    impl = {"model_folds": obs["model_folds"], "scored": obs["scored_ids"], "trained": obs["trained"], "train": train,
            "scores": "not compared (large dataset)"}
    impl["brew_oracle"] = c02.oracle(c, ("ok", impl))
    impl["property"] = impl["brew_oracle"]
    model = {"model_folds": list(range(1, k + 1)), "scored": obs["scored_ids"], "trained": [True] * k, "train": ["ok"] * k,
             "scores": "not compared (large dataset)", "brew_oracle": None, "property": None}
    return ("ok", model), ("ok", impl)


def _run_pipeline_case(c):
    got = call_impl(run_pipeline, c)
    obs = got[1] if got[0] == "ok" else None
    got_m = got
    den = 1
    if obs and not obs.get("error") and c["learner"] in FLOAT_LEARNERS:
        # float decision values -> exact integers by a common power-of-two factor (the calibration (s-t)/(t-d) is invariant
        # under it; uncalibrated scores are divided by it again below)
        flat = [(m, k, Fraction(v)) for m, seen in enumerate(obs["seen"]) for k, v in sorted(seen.items())]
        for _, _, v in flat:
            den = max(den, v.denominator)
        scaled = [dict() for _ in obs["seen"]]
        for m, k, v in flat:
            scaled[m][k] = int(v * den)
        got_m = ("ok", dict(obs, seen=scaled))
    m, i = _compare_without_model(c, got_m) if c.get("large") else c02.compare(c, got_m)
    if not (obs and not obs.get("error") and i[0] == "ok" and m[0] == "ok") or not obs.get("finite"):
        _STATUS[c["cid"]] = "no-scores"
        return m, i
    if c["learner"] in FLOAT_LEARNERS and isinstance(m[1].get("scores"), list) and isinstance(i[1].get("scores"), list):
        if c["est_mode"] != "decision":
            m[1]["scores"] = [[x / den for x in s] for s in m[1]["scores"]]
        if [len(x) for x in m[1]["scores"]] == [len(x) for x in i[1]["scores"]] \
                and all(_close(a, b) for x, y in zip(m[1]["scores"], i[1]["scores"]) for a, b in zip(x, y)):
            i[1]["scores"] = m[1]["scores"]           # equal to 1e-9
    # ---- no scored row is in the memory of the estimator that scored it
    leaked = 0
    for f, rows in enumerate(obs["scored_ids"]):
        mem = set(obs["memory"][f])
        leaked += sum(1 for g in rows if g in mem)
    i[1]["leaked"] = leaked
    m[1]["leaked"] = 0
    # ---- result files: C03 model (distinct final scores) and the competition / +1 oracle (always)
    c3 = _conf_case(c, obs)
    m[1]["conf_error"] = None
    i[1]["conf_error"] = obs["conf_error"]
    if obs["conf_error"] is None:
        # the score column of the result files went through text intermediates: a value within 1e-9 (relative) of the score
        # given to assign_confidence for that PSM is that score (same tolerance as C05)
        for rows in obs["conf_rows"].values():
            for r in rows:
                try:
                    j, ri = c03._locate(r["id"])
                    want = obs["conf_scores"][j][ri]
                except Exception:
                    continue
                if _close(Fraction(r["score"]), want):
                    r["score"] = float(want)
        raw = {"files": obs["conf_rows"], "leftovers": obs["leftovers"]}
        m[1]["conf_oracle"] = None
        i[1]["conf_oracle"] = c03.oracle(c3, ("ok", {"raw": raw}))
        if not any(len(set(s)) < len(s) for s in obs["conf_scores"]):
            mf = c03._model(c3)
            m[1]["conf"] = {k: [(a, b) for a, b in v] for k, v in mf.items()}
            i[1]["conf"] = {k: [(r["id"], r["q"]) for r in v] for k, v in obs["conf_rows"].items()}
        else:
            m[1]["conf"] = i[1]["conf"] = "tied final scores: C03 oracle only"
        if not c.get("ensemble"):
            _mc_collect(c, obs)
        _STATUS[c["cid"]] = "scored"
    # ---- brew(models of the first run) on the same data: same routing, same scores, no leak
    if c.get("c04_rescore"):
        m[1]["c04_rescore"] = {"scores_equal": True, "scored": obs["scored_ids"], "folds": obs["model_folds"]}
        i[1]["c04_rescore"] = obs["c04_rescore"]
    return m, i


def run_case(c):
    if c["fn"] == "fdp":
        t = Toks(_cached(_MODEL, lib.stable_hash({"k": c["kinds"], "w": c["w"], "a": c["alpha"]}),
                         "c04.fdp %s %s %s" % (lib.q(Fraction(c["alpha"])), _enc_ri(c["kinds"]), lib.lst(c["w"], lib.b))))
        m = {"fdp": t.q(), "via_tdc": t.q()}
        i = call_impl(_impl_fdp, c["kinds"], c["w"], c["alpha"], c.get("var", 0), None, c.get("salt", 0))
        if i[0] == "ok":
            i = ("ok", {"fdp": i[1], "via_tdc": i[1]})
        return ("ok", m), i
    if c["fn"] == "sum":
        t = Toks(_cached(_MODEL, lib.stable_hash({"k": c["kinds"], "a": c["alpha"], "sum": 1}),
                         "c04.sums %s %s" % (lib.q(Fraction(c["alpha"])), _enc_ri(c["kinds"]))))
        m = {"sum_fdp": t.q()}
        mnull = sum(c["kinds"])

        def tot():
            return sum((_impl_fdp(c["kinds"], list(w), c["alpha"], c.get("var", 0), None, c.get("salt", 0) + j)
                        for j, w in enumerate(itertools.product((True, False), repeat=mnull))), Fraction(0))
        i = call_impl(tot)
        if i[0] == "ok":
            i = ("ok", {"sum_fdp": i[1]})
        return ("ok", m), i
    if c["fn"] == "tfdp":
        kinds = [0 if s == 0 else 1 for s in c["st"]]
        w = [s == 1 for s in c["st"] if s != 0]
        m = {"fdp": _model_tfdp(c["groups"], c["st"], c["alpha"])}
        i = call_impl(_impl_fdp, kinds, w, c["alpha"], c.get("var", 0), _group_scores(c["groups"]), c.get("salt", 0))
        if i[0] == "ok":
            i = ("ok", {"fdp": i[1]})
        return ("ok", m), i
    if c["fn"] == "tsum":
        mnull = sum(c["kinds"])
        sc = _group_scores(c["groups"])
        labs = list(itertools.product((True, False), repeat=mnull))
        m = {"sum_fdp": sum((_model_tfdp(c["groups"], _states(c["kinds"], w), c["alpha"]) for w in labs), Fraction(0))}

        def tot():
            return sum((_impl_fdp(c["kinds"], list(w), c["alpha"], c.get("var", 0), sc, c.get("salt", 0) + j)
                        for j, w in enumerate(labs)), Fraction(0))
        i = call_impl(tot)
        if i[0] == "ok":
            i = ("ok", {"sum_fdp": i[1]})
        return ("ok", m), i
    return _run_pipeline_case(c)


PIPE_KEYS = ("leaked", "conf_error", "conf_oracle", "conf", "c04_rescore", "brew_oracle")


def same(c, m, i):
    if c["fn"] != "pipeline":
        return m[0] == i[0] == "ok" and lib.jsonable(m[1]) == lib.jsonable(i[1])
    if c.get("large"):
        # brew stage checked without the extracted model (_compare_without_model): every field it produced must agree
        if m[0] != i[0] or (m[0] != "ok" and m[1] != i[1]):
            return False
        if m[0] == "ok" and not all(k in i[1] and lib.jsonable(m[1][k]) == lib.jsonable(i[1][k]) for k in m[1]):
            return False
    elif not c02.same(c, m, i):
        return False
    if i[0] != "ok":
        return True
    return all(lib.jsonable(m[1].get(k)) == lib.jsonable(i[1].get(k)) for k in PIPE_KEYS)


def nontrivial(c):
    if c["fn"] == "pipeline":
        return _STATUS.get(c.get("cid")) == "scored"
    if c["fn"] == "sum":
        return sum(c["kinds"]) >= 2
    if c["fn"] == "tsum":
        return sum(c["kinds"]) >= 2
    if c["fn"] == "tfdp":
        pos = 0
        for size in c["groups"]:
            g = c["st"][pos:pos + size]
            pos += size
            if 2 in g and (0 in g or 1 in g):
                return True
        return False
    kinds, w = c["kinds"], c["w"]
    return len(kinds) >= 3 and any(w) and not all(w)


def oracle(c, i):
    if i[0] != "ok":
        if c["fn"] == "pipeline" and "; " in str(i[1]):
            return str(i[1]).split("; ", 1)[1]          # brew raised and c02.compare found a recorded training set wrong
        if c["fn"] == "pipeline" and str(i[1]).startswith("RuntimeError"):
            return None          # no target below test_fdr in some fold: the explicit error of the calibration (C11)
        if c["fn"] == "pipeline" and i[1] == "ValueError" and c.get("subset_max_train") and len(c["files"]) > 1:
            # rng.choice(..., replace=False) of more rows than the smaller collection has: brew stops before anything is
            # scored (predicted by the C02 model; reported in reviews/C04.md); no q-value is produced, so C04 is not concerned
            return None
        return f"failed: {i[1]}"
    if c["fn"] in ("sum", "tsum"):
        m = sum(c["kinds"])
        if i[1]["sum_fdp"] > Fraction(c["alpha"]) * 2 ** m:
            return (f"expected FDP {float(i[1]['sum_fdp'] / 2 ** m)} over the {2 ** m} equally likely labellings exceeds "
                    f"alpha = {c['alpha']}" + (" (tied scores %s)" % _group_scores(c["groups"]) if c["fn"] == "tsum" else ""))
        return None
    if c["fn"] == "tfdp":
        st = c["st"]
        sc = _group_scores(c["groups"])
        spec = q_spec(sc, [s != 2 for s in st], True)
        want = _fdp_from_q(spec, [s != 2 for s in st], [s == 1 for s in st], Fraction(c["alpha"]))
        if want != i[1]["fdp"]:
            return (f"targets accepted at q <= {c['alpha']} by the real tdc have FDP {i[1]['fdp']}, the (D+1)/T formula evaluated "
                    f"at the end of every tie group gives {want} (scores {sc}, worst first)")
        return None
    if c["fn"] == "pipeline":
        o = i[1]
        if o.get("leaked"):
            return f"{o['leaked']} PSMs were scored by a model that had been fitted on them" + \
                (" (ensemble=True: every PSM is scored by the mean of all fold models)" if c.get("ensemble") else "")
        msg = c02.oracle(c, i)
        if msg:
            return msg
        if o.get("conf_error"):
            return "assign_confidence failed on the scores returned by brew: " + o["conf_error"]
        if o.get("conf_oracle"):
            return "result files after brew: " + o["conf_oracle"]
        r = o.get("c04_rescore")
        if c.get("c04_rescore") and r is not None:
            if r.get("error"):
                return "brew with the models returned by the first run failed: " + r["error"]
            if r["scored"] != o["scored"]:
                return "brew with the models returned by the first run routes PSMs to other models than the first run (a PSM is scored by a model that was trained on it)"
            if not r["scores_equal"]:
                return "brew with the models returned by the first run does not reproduce the scores"
        return None
    return None


def extra_checks(ctx):
    info = {}
    fails = []
    by = {}
    big = {}
    for level, a, v, r, learner, large in _MC:
        by.setdefault((level, a), []).append((v, r))
        if large:
            t = big.setdefault((level, a), [0, 0, 0])
            t[0] += v
            t[1] += r
            t[2] += 1
    # large datasets (1800-2600 PSMs, 2-5 folds, rows shuffled, ties kept): the pooled FDP must stay within alpha + 0.04 / 0.05
    # at PSM level and alpha + 0.06 / 0.08 at peptide level (fewer acceptances); observed on the unchanged code over five run
    # seeds and both tiers: at most alpha + 0.011 / 0.02 (PSMs) and alpha + 0.002 / 0.029 (peptides)
    LIMIT = {("psms", "0.1"): 0.14, ("psms", "0.2"): 0.25, ("peptides", "0.1"): 0.16, ("peptides", "0.2"): 0.28}
    info["monte_carlo_fdp_large_datasets"] = {}
    for (level, a), (v, r, nfile) in sorted(big.items()):
        info["monte_carlo_fdp_large_datasets"].setdefault(level, {})[a] = {"result_files": nfile, "accepted": r, "false": v,
                                                                           "pooled_fdp": v / max(1, r)}
        if (level, a) in LIMIT and r >= 300 and v / r > LIMIT[(level, a)]:
            fails.append({"what": f"pooled FDP {v / r:.3f} among {r} targets accepted at q<={a} ({level}) over {nfile} large simulated "
                                  f"datasets exceeds {LIMIT[(level, a)]}",
                          "failing_input": {"alpha": a, "level": level, "pooled_fdp": v / r, "accepted": r}})
    mc = {}
    for (level, a), vr in sorted(by.items()):
        fd = [v / r for v, r in vr if r]
        pooled = sum(v for v, r in vr) / max(1, sum(r for v, r in vr))
        mc.setdefault(level, {})[a] = {"result_files": len(vr), "with_acceptances": len(fd),
                                       "mean_fdp": (sum(fd) / len(fd)) if fd else None, "pooled_fdp": pooled}
        # gross excess only: the premise is simulated, small folds make the per-fold calibration noisy
        if len(fd) >= 8 and (sum(fd) / len(fd)) > 3 * float(a) + 0.15:
            fails.append({"what": f"mean FDP {sum(fd) / len(fd):.3f} over {len(fd)} simulated result files ({level}) at alpha={a}",
                          "failing_input": {"alpha": a, "level": level, "mean_fdp": sum(fd) / len(fd)}})
    info["monte_carlo_fdp"] = mc
    st = list(_STATUS.values())
    info["pipeline_runs"] = {"scored": st.count("scored"), "no-scores (brew raised or returned non-finite scores; outcome compared with the C02 model)": st.count("no-scores")}
    # competition between a target and the decoy of the same spectrum that TIE in score: the winner must not be decided by
    # the position of the rows in the file (a file that lists its targets first would then lose its decoys selectively and
    # (D+1)/T would underestimate the FDR).  Probe: 400 spectra, one target and one decoy each with the same score (12 score
    # levels), once with all targets listed first and once with all decoys first; target-won fractions f1, f2.
    try:
        probe = _tie_probe(ctx)
        info["tie_competition_probe"] = probe
        f1, f2 = probe["target_won_targets_first"], probe["target_won_decoys_first"]
        if (f1 >= 0.9 and f2 <= 0.1) or (f1 <= 0.1 and f2 >= 0.9):
            fails.append({"what": ("target/decoy competition among tied scores is decided by row position: targets win "
                                   f"{f1:.2f} of the spectra when listed first and {f2:.2f} when listed last"),
                          "failing_input": probe})
        elif f1 >= 0.9 and f2 >= 0.9:
            # wherever the rows are, the target wins: the decoys of tied pairs vanish and (D+1)/T underestimates the FDR
            # (a learner with few distinct outputs, e.g. a fully grown tree, ties most target/decoy pairs)
            fails.append({"what": ("target/decoy competition among tied scores is decided by the label: targets win "
                                   f"{f1:.2f} / {f2:.2f} of the tied spectra (listed first / last)"),
                          "failing_input": probe})
    except Exception as e:       # the probe must not decide anything by crashing
        info["tie_competition_probe"] = {"crashed": f"{type(e).__name__}: {e}"[:200]}
    return fails, info


def _tie_probe(ctx):
    import numpy as np
    import pandas as pd
    import mokapot
    import mokapot.confidence as conf
    rng = ctx.sub("tie-probe")
    k = 400
    level = [float(rng.randrange(12)) for _ in range(k)]
    out = {}
    old = conf.peps_from_scores
    conf.peps_from_scores = lambda s, t, *a, **kw: np.zeros(len(s))
    d = tempfile.mkdtemp(prefix="c04tie_", dir=os.environ.get("VERIF_TMP", "/tmp"))
    try:
        for name, first in (("target_won_targets_first", 1), ("target_won_decoys_first", -1)):
            rows = [(j, lab) for lab in (first, -first) for j in range(k)]
            df = pd.DataFrame({"SpecId": ["s%d_%s" % (j, "t" if lab == 1 else "d") for j, lab in rows],
                               "Label": [lab for _, lab in rows], "ScanNr": [j + 1 for j, _ in rows],
                               "ExpMass": [500.0 + j for j, _ in rows], "feat0": [level[j] for j, _ in rows],
                               "Peptide": ["K.PEP%d%sK.A" % (j, "T" if lab == 1 else "D") for j, lab in rows],
                               "Proteins": ["p"] * len(rows)})
            pin = Path(d) / (name + ".pin")
            df.to_csv(pin, sep="\t", index=False)
            dest = Path(d) / name
            dest.mkdir()
            ds = mokapot.read_pin([pin], max_workers=1)
            mokapot.assign_confidence(ds, max_workers=1, scores=[df["feat0"].values.astype(float)], eval_fdr=0.5, dest_dir=dest,
                                      prefixes=[None], decoys=True)
            t = pd.read_csv(dest / "targets.psms", sep="\t")
            out[name] = len(t) / k
    finally:
        conf.peps_from_scores = old
        shutil.rmtree(d, ignore_errors=True)
    out["spectra"] = k
    return out


def finding_key(c, m, i):
    """ensemble=True scores every PSM with the mean of ALL fold models, k-1 of which were trained on it"""
    if c.get("fn") == "pipeline" and c.get("ensemble"):
        if i is not None and i[0] == "ok" and i[1].get("leaked", 0) > 0:
            # R2.22: the ensemble branch is in the extracted model (Model/Brew.v bw_brew_scores_ens): the run must agree with it
            # on everything the model predicts — fold numbers of the returned models, every model scores every row, training
            # sets, the exact averaged scores, result files — and may differ in the violated held-out property (and the leak
            # count) only.  Any other disagreement is NOT this finding.
            if m is None or m[0] != "ok":
                return ENSEMBLE_KEY if m is None else None
            if c02.same_ens(c, m, i) and all(lib.jsonable(m[1].get(k)) == lib.jsonable(i[1].get(k)) for k in PIPE_KEYS if k != "leaked"):
                return ENSEMBLE_KEY
    return None
