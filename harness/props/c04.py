"""C04 — end-to-end FDR control.  (A) the accept set / FDP of Model/Fdr.v against the real
mokapot.qvalues.tdc, exhaustively on small ranked lists; (B) the sum over all labellings against the
bound of C04_fdr_control; (C) the real brew with a memorising learner (unbounded capacity): training
sets, routing and scores against the C02 model, no scored row is in the memory of its model, and a
Monte-Carlo estimate of the FDP (reported; an alarm only for a gross excess)."""
import itertools
from fractions import Fraction

from .. import lib, brewlib
from ..lib import Toks, call_impl
from . import c02

PROP = "C04"
RULE = ("(A) every ranked list of n<=7 (quick) / n<=8 (thorough) positions, each a correct target, a null target or a "
        "null decoy, x alpha in {0.01,0.1,0.25,0.3,0.5,0.75}: FDP of the accept set from the model (fd_fdp, and via the "
        "C01 model) vs targets with q<=alpha from the real tdc; (B) for every arrangement of n<=7/8 positions the sum of "
        "the FDP over all labellings from the real tdc vs the model and vs alpha*2^m; (C) simulated datasets with ground "
        "truth (correct targets, null targets and decoys from the same null) through the real read_pin + brew with a "
        "memorising learner, folds 2-5, 10, 12. non-trivial = list has a null target above a correct target or a decoy in the top half; "
        "all pipeline cases")
ASSUMPTIONS = [
    "exchangeability of null targets and decoys is the property's premise (simulated, not proved)",
    "that per-fold calibration preserves exchangeability when folds are merged is not proved (observed by the Monte-Carlo estimate)",
    "the equality 'accept set of fd_fdp = targets with tdc q <= alpha' is proved for every list (C04_accept_set_is_tdc, alpha < 1) about the C01 model; the real tdc is tied to that model by stream (A) here and by the C01 correspondence",
]
TRUSTED_EXTRA = c02.TRUSTED_EXTRA

ALPHAS = ["0.01", "0.1", "0.25", "0.3", "0.5", "0.75"]
_MODEL = {}
_MC = []


def _enc_ri(kinds):
    return lib.lst(kinds, lambda k: str(k))


def gen(ctx):
    cases = []
    nmax = 8 if ctx.thorough else 7
    lines, keys = [], []
    for n in range(0, nmax + 1):
        # position state worst first: 0 = correct target, 1 = null target, 2 = null decoy
        for st in itertools.product((0, 1, 2), repeat=n):
            kinds = [0 if s == 0 else 1 for s in st]
            w = [s == 1 for s in st if s != 0]
            for a in (ALPHAS if n <= 6 else ALPHAS[1::2]):
                c = {"fn": "fdp", "kinds": kinds, "w": w, "alpha": a, "tags": ["fdp", f"n={n}"]}
                cases.append(c)
                lines.append("c04.fdp %s %s %s" % (lib.q(Fraction(a)), _enc_ri(kinds), lib.lst(w, lib.b)))
                keys.append(lib.stable_hash({"k": kinds, "w": w, "a": a}))
    for n in range(1, nmax + 1):
        for kinds in itertools.product((0, 1), repeat=n):
            if sum(kinds) > 8:
                continue
            for a in ("0.1", "0.3", "0.5"):
                c = {"fn": "sum", "kinds": list(kinds), "alpha": a, "tags": ["sum", f"n={n}"]}
                cases.append(c)
                lines.append("c04.sums %s %s" % (lib.q(Fraction(a)), _enc_ri(kinds)))
                keys.append(lib.stable_hash({"k": list(kinds), "a": a, "sum": 1}))
    outs = lib.run_driver(lines)
    for k, o in zip(keys, outs):
        _MODEL[k] = o
    # (C) pipeline with a memorising learner
    rng = ctx.sub("c04-pipeline")
    del _MC[:]
    for k in range(40 if ctx.thorough else 10):
        n = rng.randint(150, 400 if ctx.thorough else 260)
        f = _simulate(rng, n)
        cases.append({"fn": "pipeline", "files": [f], "folds": rng.choice([2, 3, 4, 5, 10, 12]), "seed": rng.randint(0, 10 ** 6),
                      "test_fdr": "0.25", "train_fdr": 0.25, "learner": "memoriser", "workers": rng.choice([1, 3]),
                      "subset_max_train": rng.choice([None, n // 3, n // 2]), "chunks": {}, "fmt": "tsv", "row_group": None,
                      "est_mode": "decision", "tags": ["pipeline", "memoriser"]})
    return cases


def _simulate(rng, n):
    """one PSM per spectrum; correct targets score high, null targets and decoys share one distribution"""
    kind = []
    for i in range(n):
        r = rng.random()
        kind.append("correct" if r < 0.3 else ("null" if r < 0.65 else "decoy"))
    cols = {"SpecId": ["f0_psm%d" % i for i in range(n)], "Label": [1 if k != "decoy" else -1 for k in kind],
            "ScanNr": list(range(1, n + 1)), "ExpMass": [500 + (i % 40) * 0.25 for i in range(n)],
            "rid": list(range(n))}
    for j in range(3):
        vals = []
        for k in kind:
            vals.append(rng.randint(55, 120) if (k == "correct" and rng.random() < 0.9) else rng.randint(0, 70))
        cols["feat%d" % j] = vals
    cols["Peptide"] = ["K.PEP%dK.A" % i for i in range(n)]
    cols["Proteins"] = ["p%d" % (i % 7) for i in range(n)]
    return {"columns": list(cols.keys()), "data": cols, "targets": [k != "decoy" for k in kind], "kind": kind}


# ----------------------------------------------------------------------------- implementation side
def _impl_fdp(kinds, w, alpha):
    import numpy as np
    from mokapot.qvalues import tdc
    flags, it = [], iter(w)
    for k in kinds:
        flags.append(True if k == 0 else bool(next(it)))
    n = len(kinds)
    if n == 0:
        return Fraction(0)
    q = tdc(np.arange(n, dtype=float), np.array(flags, dtype=bool), desc=True)
    acc = [flags[i] and float(q[i]) <= float(alpha) for i in range(n)]
    r = sum(acc)
    v = sum(1 for i in range(n) if acc[i] and kinds[i] == 1)
    return Fraction(v, r) if r else Fraction(0)


def run_case(c):
    if c["fn"] == "fdp":
        t = Toks(_MODEL[lib.stable_hash({"k": c["kinds"], "w": c["w"], "a": c["alpha"]})])
        m = {"fdp": t.q(), "via_tdc": t.q()}
        i = call_impl(_impl_fdp, c["kinds"], c["w"], c["alpha"])
        if i[0] == "ok":
            i = ("ok", {"fdp": i[1], "via_tdc": i[1]})
        return ("ok", m), i
    if c["fn"] == "sum":
        t = Toks(_MODEL[lib.stable_hash({"k": c["kinds"], "a": c["alpha"], "sum": 1})])
        m = {"sum_fdp": t.q()}
        mnull = sum(c["kinds"])

        def tot():
            return sum((_impl_fdp(c["kinds"], list(w), c["alpha"]) for w in itertools.product((True, False), repeat=mnull)), Fraction(0))
        i = call_impl(tot)
        if i[0] == "ok":
            i = ("ok", {"sum_fdp": i[1]})
        return ("ok", m), i
    # pipeline
    got = call_impl(brewlib.run_brew, c)
    m, i = c02.compare(c, got)
    if got[0] == "ok" and not got[1].get("error") and i[0] == "ok":
        obs = got[1]
        leaked = 0
        for f, rows in enumerate(obs["scored_ids"]):
            mem = set(obs["memory"][f])
            leaked += sum(1 for g in rows if g in mem)
        i[1]["leaked"] = leaked
        m[1]["leaked"] = 0
        # Monte-Carlo FDP at PSM level from the returned scores
        f0 = c["files"][0]
        from .c01 import q_spec, exact_ints
        sc = obs["scores"][0]
        if all(v is not None for v in sc):
            qs = q_spec(exact_ints(sc), f0["targets"], True)
            for a in ("0.05", "0.1", "0.2"):
                acc = [j for j in range(len(sc)) if f0["targets"][j] and qs[j] <= Fraction(a)]
                if acc:
                    _MC.append((a, sum(1 for j in acc if f0["kind"][j] == "null") / len(acc), len(acc)))
                else:
                    _MC.append((a, 0.0, 0))
    return m, i


def same(c, m, i):
    if c["fn"] in ("fdp", "sum"):
        return m[0] == i[0] == "ok" and lib.jsonable(m[1]) == lib.jsonable(i[1])
    return c02.same(c, m, i) and (i[0] != "ok" or i[1].get("leaked", 0) == 0)


def nontrivial(c):
    if c["fn"] == "pipeline":
        return True
    if c["fn"] == "sum":
        return sum(c["kinds"]) >= 2
    kinds, w = c["kinds"], c["w"]
    return len(kinds) >= 3 and any(w) and not all(w)


def oracle(c, i):
    if i[0] != "ok":
        return None if c["fn"] == "pipeline" and str(i[1]).startswith("RuntimeError") else f"failed: {i[1]}"
    if c["fn"] == "sum":
        m = sum(c["kinds"])
        if i[1]["sum_fdp"] > Fraction(c["alpha"]) * 2 ** m:
            return (f"expected FDP {float(i[1]['sum_fdp'] / 2 ** m)} over the {2 ** m} equally likely labellings exceeds "
                    f"alpha = {c['alpha']}")
        return None
    if c["fn"] == "pipeline":
        if i[1].get("leaked"):
            return f"{i[1]['leaked']} PSMs were scored by a model that had been fitted on them (memorised label returned)"
        return c02.oracle(c, i)
    return None


def extra_checks(ctx):
    info = {}
    fails = []
    by = {}
    for a, fdp, nacc in _MC:
        by.setdefault(a, []).append(fdp)
    info["monte_carlo_fdp"] = {a: {"datasets": len(v), "mean_fdp": sum(v) / len(v)} for a, v in by.items()}
    for a, v in by.items():
        mean = sum(v) / len(v)
        if len(v) >= 8 and mean > 3 * float(a) + 0.15:
            fails.append({"what": f"mean FDP {mean:.3f} over {len(v)} simulated datasets at alpha={a} with a memorising learner",
                          "failing_input": {"alpha": a, "mean_fdp": mean}})
    # competition between a target and the decoy of the same spectrum that TIE in score: the winner must not be decided by
    # the position of the rows in the file (a file that lists its targets first would then lose its decoys selectively and
    # (D+1)/T would underestimate the FDR).  Probe: 400 spectra, one target and one decoy each with the same score (12 score
    # levels), once with all targets listed first and once with all decoys first; target-won fractions f1, f2.
    try:
        probe = _tie_probe(ctx)
        info["tie_competition_probe"] = probe
        f1, f2 = probe["target_won_targets_first"], probe["target_won_decoys_first"]
        if (f1 >= 0.9 and f2 <= 0.1) or (f1 <= 0.1 and f2 >= 0.9):
            fails.append({"what": ("target/decoy competition among tied scores is decided by row position: targets win "
                                   f"{f1:.2f} of the spectra when listed first and {f2:.2f} when listed last"),
                          "failing_input": probe})
    except Exception as e:       # the probe must not decide anything by crashing
        info["tie_competition_probe"] = {"crashed": f"{type(e).__name__}: {e}"[:200]}
    return fails, info


def _tie_probe(ctx):
    import os
    import shutil
    import tempfile
    from pathlib import Path
    import numpy as np
    import pandas as pd
    import mokapot
    import mokapot.confidence as conf
    rng = ctx.sub("tie-probe")
    k = 400
    level = [float(rng.randrange(12)) for _ in range(k)]
    out = {}
    old = conf.peps_from_scores
    conf.peps_from_scores = lambda s, t, *a, **kw: np.zeros(len(s))
    d = tempfile.mkdtemp(prefix="c04tie_", dir=os.environ.get("VERIF_TMP", "/tmp"))
    try:
        for name, first in (("target_won_targets_first", 1), ("target_won_decoys_first", -1)):
            rows = [(j, lab) for lab in (first, -first) for j in range(k)]
            df = pd.DataFrame({"SpecId": ["s%d_%s" % (j, "t" if lab == 1 else "d") for j, lab in rows],
                               "Label": [lab for _, lab in rows], "ScanNr": [j + 1 for j, _ in rows],
                               "ExpMass": [500.0 + j for j, _ in rows], "feat0": [level[j] for j, _ in rows],
                               "Peptide": ["K.PEP%d%sK.A" % (j, "T" if lab == 1 else "D") for j, lab in rows],
                               "Proteins": ["p"] * len(rows)})
            pin = Path(d) / (name + ".pin")
            df.to_csv(pin, sep="\t", index=False)
            dest = Path(d) / name
            dest.mkdir()
            ds = mokapot.read_pin([pin], max_workers=1)
            mokapot.assign_confidence(ds, max_workers=1, scores=[df["feat0"].values.astype(float)], eval_fdr=0.5, dest_dir=dest,
                                      prefixes=[None], decoys=True)
            t = pd.read_csv(dest / "targets.psms", sep="\t")
            out[name] = len(t) / k
    finally:
        conf.peps_from_scores = old
        shutil.rmtree(d, ignore_errors=True)
    out["spectra"] = k
    return out


def finding_key(c, m, i):
    return None
