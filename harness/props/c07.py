"""C07 — best-feature safety net: real mokapot.brew against Model/BrewDecision.v (+ Model/Brew.v for the
model scores); the direction clause (assign_confidence(descs=[False])) is exercised by the C03 runner."""
from fractions import Fraction

from .. import lib, brewlib
from ..lib import Toks, call_impl
from . import c02, c03
from .c01 import exact_ints

PROP = "C07"
RULE = ("real read_pin + brew on generated tables (1-2 files, label encodings 1/-1, 1/0, bool; text/Parquet) with "
        "estimators that learn (a feature column), cannot learn (constant decision function) or learn badly (negated "
        "feature), override on/off, higher-is-better and lower-is-better best features, train/test FDR 0.1-0.5; "
        "compared: per fold model (best_feat, feat_pass, desc), the fall-back decision, the returned scores and descs. "
        "Plus assign_confidence with descs=[False] on generated tables (result files vs the model on negated scores). "
        "non-trivial = the fall-back is taken, or a model is untrained, or the best feature is lower-is-better")
ASSUMPTIONS = [
    "whether Model.fit succeeds for a fold (is_trained) is taken from the run (C12's domain); everything else is predicted",
    "model scores are the C02 model's calibrated rationals scaled to integers (order and ties exact)",
]
TRUSTED_EXTRA = c02.TRUSTED_EXTRA


def gen(ctx):
    cases = []
    rng = ctx.sub("c07")
    for k in range(160 if ctx.thorough else 40):
        nfiles = rng.choice([1, 1, 2])
        low = rng.random() < 0.35
        files = []
        for j in range(nfiles):
            n = rng.randint(40, 200 if ctx.thorough else 120)
            f = brewlib.gen_file(rng, n, 2, file_idx=j, mult=(1, 3), label_enc=rng.choice(["pm1", "pm1", "01", "bool"]),
                                 quality=rng.choice([0.3, 0.7, 0.9]))
            if low:
                f["data"]["feat0"] = [100 - v for v in f["data"]["feat0"]]
            files.append(f)
        fdr = rng.choice(["0.1", "0.25", "0.5"])
        train_fdr = rng.choice([fdr, fdr, "0.1", "0.25", "0.5"])
        kind = rng.choice(["col", "col", "const", "neg"])
        cases.append({"fn": "brew", "files": files, "folds": rng.randint(2, 3), "seed": rng.randint(0, 10 ** 6),
                      "test_fdr": fdr, "train_fdr": float(train_fdr), "workers": 1, "subset_max_train": None, "chunks": {},
                      "fmt": rng.choice(["tsv", "parquet"]), "row_group": None, "est_mode": "decision",
                      "est_kind": kind, "learn": False, "override": rng.random() < 0.3, "max_iter": rng.choice([1, 2]),
                      "tags": ["brew", "kind=" + kind, "low" if low else "high", f"files={nfiles}", "fdr=" + fdr, "train_fdr=" + train_fdr]})
    # training FDR and evaluation FDR differ: the comparison must be made at the evaluation FDR
    for (tr, te) in (("0.5", "0.1"), ("0.5", "0.25"), ("0.25", "0.1"), ("0.1", "0.5")):
        for rep in range(3 if ctx.thorough else 2):
            n = rng.randint(80, 160)
            f = brewlib.gen_file(rng, n, 2, file_idx=0, mult=(1, 2), label_enc="pm1", quality=rng.choice([0.5, 0.7]))
            for other in ("feat1", "feat2"):      # feat0 is the best feature in every fold, so training succeeds
                f["data"][other] = [rng.randint(0, 60) for _ in range(n)]
            cases.append({"fn": "brew", "files": [f], "folds": 3, "seed": rng.randint(0, 10 ** 6),
                          "test_fdr": te, "train_fdr": float(tr), "workers": 1, "subset_max_train": None, "chunks": {},
                          "fmt": "tsv", "row_group": None, "est_mode": "decision", "est_kind": "col", "learn": False,
                          "override": False, "max_iter": 1,
                          "tags": ["brew", "kind=col", "high", "files=1", "fdr=" + te, "train_fdr=" + tr, "fdr-mismatch"]})
    # direction clause through assign_confidence
    for c in c03.gen(ctx)[: (60 if ctx.thorough else 16)]:
        if c["ties"]:
            continue
        c = dict(c, fn="conf", descs=False)
        c["tags"] = ["conf-desc-false"] + c["tags"][1:]
        cases.append(c)
    return cases


FEATS = ["rid", "feat0", "feat1", "feat2"]


def run_case(c):
    if c["fn"] == "conf":
        return c03.run_case(c)
    got = call_impl(brewlib.run_brew, c)
    if got[0] == "err":
        return ("unknown", ""), got
    obs = got[1]
    k = c["folds"]
    ms = c02._model_side(c, obs)
    if ms[0] == "err":
        return ms, (("err", obs["error"]) if obs.get("error") else ("ok", {}))
    m = ms[1]
    thr_train = Fraction(str(c["train_fdr"]))
    # (1) per fold model: best feature on the training rows (all files jointly)
    lines = []
    for f in range(k):
        feats, tg = [[] for _ in FEATS], []
        for j, fl in enumerate(c["files"]):
            for r in m["complements_per_file"][f][j]:
                for a, name in enumerate(FEATS):
                    feats[a].append(int(fl["data"][name][r]))
                tg.append(fl["targets"][r])
        lines.append("c07.best_feature %s %s %s" % (lib.q(thr_train), lib.lst(feats, lambda x: lib.lst(x)), lib.lst(tg, lib.b)))
    bests = []
    for line in lib.run_driver(lines):
        t = Toks(line)
        bests.append(t.opt(lambda: (t.nat(), t.nat(), t.b())))
    if any(b is None for b in bests):
        # no feature accepts a PSM on some training set: Model.fit raises RuntimeError, brew re-raises
        return ("err", "RuntimeError"), (("err", obs["error"]) if obs.get("error") else ("ok", {"note": "no error"}))
    if obs.get("error"):
        if obs["error"] == "RuntimeError" and "calibrate" in obs.get("message", ""):
            # a fold accepted no target at test_fdr (C11's explicit error); brew returned no models, so the
            # estimator columns (oracle) are unknown and the model cannot evaluate this run
            return ("err", "RuntimeError"), ("err", "RuntimeError")
        return ("ok", {"note": "model predicts no error here"}), ("err", obs["error"] + ": " + obs.get("message", ""))
    model = {}
    model["best"] = [None if b is None else [FEATS[b[0]], b[1], b[2]] for b in bests]
    impl = {"best": [[bf, fp, d] if fp is not None else None for bf, fp, d in zip(obs["best_feat"], obs["feat_pass"], obs["model_desc"])]}
    trained = obs["trained"]            # oracle
    # (2) model scores
    if all(trained):
        sm = c02._scores_model(dict(c), obs)
        if any(s[0] == "err" for s in sm):
            kind = [s[1] for s in sm if s[0] == "err"][0]
            if kind == "TypeError":
                # the calibration of some fold is not finite in the model (no decoy in the fold, or lowest accepted target =
                # decoy median): the code then carries nan / inf scores into the comparison with the best feature — outside
                # the model (and outside C11's quantifier); such runs are not compared
                return ("err", "NonFiniteCalibration"), ("err", "NonFiniteCalibration")
            return ("err", kind), ("ok", impl)
        mscores = [s[1] for s in sm]
    else:
        mscores = [[Fraction(0)] * len(fl["targets"]) for fl in c["files"]]
    # (3) the decision
    thr = Fraction(c["test_fdr"])
    files_tok = []
    for j, fl in enumerate(c["files"]):
        files_tok.append(lib.lst(exact_ints(mscores[j])) + " " + lib.lst(fl["targets"], lib.b))
    models_tok = ["%s %s" % (lib.z(b[1] if b else 0), lib.b(c["override"])) for b in bests]
    line = "c07.decide %s %d %s %d %s" % (lib.q(thr), len(models_tok), " ".join(models_tok), len(files_tok), " ".join(files_tok))
    t = Toks(lib.run_driver([line])[0])
    dec = t.result(lambda: (t.nat(), t.opt()))
    if dec[0] == "err":
        return dec, ("ok", impl)
    pred_total, choice = dec[1]
    model["pred_total"] = pred_total
    if choice is None:
        model["scores"] = [[Fraction(float(v)) for v in s] for s in mscores]
        model["descs"] = [True] * len(c["files"])
    else:
        name, _, d = model["best"][choice]
        model["scores"] = [[Fraction(fl["data"][name][r]) for r in range(len(fl["targets"]))] for fl in c["files"]]
        model["descs"] = [d] * len(c["files"])
    model["fallback"] = choice is not None
    impl["scores"] = obs["scores"]
    impl["descs"] = obs["descs"]
    impl["_trained"] = trained
    return ("ok", model), ("ok", impl)


def same(c, m, i):
    if c["fn"] == "conf":
        return c03.same(c, m, i)
    if m[0] != i[0]:
        return False
    if m[0] == "err":
        return m[1] == i[1]
    if m[0] != "ok" or "best" not in m[1] or "best" not in i[1]:
        return False
    return all(m[1][k] == i[1][k] for k in ("best", "scores", "descs"))


def nontrivial(c):
    return c["fn"] == "conf" or c["est_kind"] != "col" or "low" in c["tags"]


def _accepted(scores, targets, thr, desc=True):
    from .c01 import q_spec
    qs = q_spec(exact_ints(scores), targets, desc)
    return sum(1 for q, t in zip(qs, targets) if t and q <= thr)


def oracle(c, i):
    if c["fn"] == "conf":
        return c03.oracle(c, i)
    if i[0] != "ok":
        if str(i[1]).startswith("RuntimeError"):
            return None       # explicit error: no feature / no target accepted at the FDR
        return f"brew failed: {i[1]}"
    o = i[1]
    if "scores" not in o or any(v is None for s in o["scores"] for v in s):
        return None
    if c["override"]:
        return None
    thr = Fraction(c["test_fdr"])
    best = [b for b in o["best"] if b is not None]
    if not best:
        return None
    max_pass = max(b[1] for b in best)
    # accepted genuine targets under the returned scores / direction
    acc = sum(_accepted(o["scores"][j], fl["targets"], thr, o["descs"][j]) for j, fl in enumerate(c["files"]))
    is_feature = any(all(o["scores"][j] == [Fraction(fl["data"][b[0]][r]) for r in range(len(fl["targets"]))]
                         for j, fl in enumerate(c["files"])) and o["descs"] == [b[2]] * len(c["files"]) for b in best)
    if acc < max_pass and not is_feature:
        return (f"returned scores accept {acc} genuine targets at {c['test_fdr']}, the best feature accepted {max_pass} "
                f"during training, and the scores are not that feature with its direction")
    return None


def finding_key(c, m, i):
    return None
