"""C07 — best-feature safety net: real mokapot.brew against Model/BrewDecision.v (+ Model/Brew.v for the
model scores), and the direction clause through the real assign_confidence (Model/Confidence.v on the
direction-adjusted scores): given score vectors with per-collection directions, the scores and directions
handed back by brew (end to end), and assign_confidence's own best-feature choice (scores=None)."""
import os
import shutil
import tempfile
from fractions import Fraction
from pathlib import Path

from .. import lib, brewlib
from ..lib import Toks, call_impl
from . import c02, c03
from .c01 import exact_ints

PROP = "C07"
RULE = ("real read_pin + brew on generated tables (1-3 files, 2-5 folds, label encodings 1/-1, 1/0, bool mixed between "
        "files; text/Parquet; spectrum keys of 1-4 columns; feature columns renamed / re-ordered / duplicated; feature "
        "values with many ties or pairwise distinct, shifted below zero, quarter-valued floats; any subset of the features "
        "lower-is-better; target-rich / target-poor tables; 25-600 rows) with estimators that learn (a feature column, fixed "
        "or depending on the fitted rows), cannot learn (constant decision function) or learn badly (negated feature), with "
        "decision_function or predict_proba only, override on/off, shuffle on/off, max_iter 1-3, Model(direction=...) "
        "absent / given, train/test FDR 0.05-0.5, max_workers 1-4, subset_max_train absent / binding, ensemble on/off (ensemble: "
        "averaged scores, fall-back decision, returned scores / descs / fold order of the returned models by Model/Brew.v bw_brew_ens; "
        "the second call gets the fold models in REVERSED order), "
        "prediction / training-read chunk sizes, psms as list or single data set, rng as int or Generator. "
        "compared with the extracted model: per fold model (best_feat, feat_pass, desc), is_trained (predicted for the "
        "row-independent estimators), the fall-back decision, the returned scores and descs; then (a) brew is called AGAIN "
        "on the re-read files with the list of the fold models it returned (override flags kept, all set, or mixed) and "
        "must make the decision the model makes for those flags; (b) the returned (psms, scores, descs) go unchanged into "
        "the real assign_confidence and the result files are compared with Model/Confidence.v on the direction-adjusted "
        "scores (when those are pairwise distinct). "
        "Plus assign_confidence on generated tables with given score vectors: descs all False or MIXED per collection, "
        "scores as float / int / unsigned int / float32 array or (n,1) array (a plain list is rejected by a type check), with and without tied scores; and assign_confidence with "
        "scores=None (its own best feature per collection, expected to be ranked in that feature's direction). "
        "non-trivial (from the OUTCOME of the run, see tags out:*) = the fall-back is taken, or a model is untrained, or a "
        "returned direction is lower-is-better; for assign_confidence cases: a lower-is-better collection in a table where "
        "some spectrum has >= 2 PSMs and some peptide >= 2 spectra. "
        "Checked with the property oracle only (the Coq model predicts the per-fold best features but not the learned scores): "
        "brew with a real learner, mokapot.PercolatorModel (tags brew-svm): the answer accepts at least as many genuine targets "
        "at test_fdr as the best feature did in training, or it is the best feature of the first fold with the largest count "
        "with its direction.  Not generated: a single PRE-TRAINED Model that brew re-trains (feat_pass is then the count of "
        "that model, not of a feature)")
ASSUMPTIONS = [
    "whether Model.fit succeeds for a fold (is_trained) is predicted for estimators whose column does not depend on the "
    "fitted rows (count of the estimator's scores on the observed training rows at train_fdr against feat_pass); for the "
    "row-dependent estimator it is taken from the run (C12's domain)",
    "model scores are the C02 model's calibrated rationals scaled to integers (order and ties exact); ensemble scores are the "
    "exact mean of the fold models' integer-valued raw scores, computed by the extracted model (Model/Brew.v bw_brew_scores_ens / "
    "bw_brew_ens, R2.22; float64 sums of such values are exact, np.mean is one rounded division) and cross-checked with the "
    "mean recomputed in Python",
    "with subset_max_train the training rows of a fold are the rows the recording scaler saw (checked to be a sub-sample of "
    "the fold's complement of the planned size; the draw itself is C02's RNG oracle)",
    "feature names that collide with brew's internal 'fold' column and files whose feature columns are ordered differently "
    "are rejected by brew / assign_confidence with an explicit error (KeyError / AssertionError) and are not generated",
]
TRUSTED_EXTRA = c02.TRUSTED_EXTRA

NAME_POOLS = [["feat0", "feat1", "feat2"], ["feat0", "feat1", "feat2"], ["score", "lnExpect", "absdM"], ["B", "a", "C"]]


# ----------------------------------------------------------------------------- generation
def _take_rows(f, keep, file_idx):
    data = {k: [v[i] for i in keep] for k, v in f["data"].items()}
    n = len(keep)
    data["SpecId"] = ["f%d_psm%d" % (file_idx, i) for i in range(n)]
    data["rid"] = [file_idx * 100000 + i for i in range(n)]
    return {"columns": list(f["columns"]), "data": data, "targets": [f["targets"][i] for i in keep]}


def _mk_files(rng, nfiles, nrange, opt):
    """opt: nkey, mult, distinct, tfrac, flips (set of 0..2), dup, shift, names (3 names), order (perm of 0..2)"""
    files = []
    for j in range(nfiles):
        n = rng.randint(*nrange)
        f = brewlib.gen_file(rng, n, opt["nkey"], file_idx=j, mult=opt["mult"], label_enc=rng.choice(["pm1", "pm1", "01", "bool"]),
                             quality=rng.choice(opt.get("quality", [0.3, 0.6, 0.8, 0.9, 0.9, 0.9])), distinct=opt["distinct"])
        if opt["tfrac"] != "mid":
            drop = (lambda t: not t) if opt["tfrac"] == "rich" else (lambda t: t)
            keep = [i for i in range(n) if not (drop(f["targets"][i]) and rng.random() < 0.6)]
            f = _take_rows(f, keep, j)
            n = len(keep)
        for a in opt["flips"]:
            col = f["data"]["feat%d" % a]
            top = max(col) + min(col)
            f["data"]["feat%d" % a] = [top - v for v in col]
        for a in opt.get("weaken", []):
            col = f["data"]["feat%d" % a]
            pool = sorted(col)
            f["data"]["feat%d" % a] = [v if rng.random() < 0.45 else pool[rng.randrange(len(pool))] for v in col]
            if opt["distinct"]:     # keep the values pairwise distinct: re-rank
                order = sorted(range(len(col)), key=lambda i: (f["data"]["feat%d" % a][i], rng.random()))
                for rank, i in enumerate(order):
                    f["data"]["feat%d" % a][i] = pool[rank]
        if opt["dup"]:
            f["data"]["feat2"] = list(f["data"]["feat0"])
        if opt["shift"]:
            for a in range(3):
                f["data"]["feat%d" % a] = [v - opt["shift"] for v in f["data"]["feat%d" % a]]
        # rename and re-order the feature columns (rid stays the first feature: the recording scaler reads the row id there)
        ren = {"feat%d" % a: opt["names"][a] for a in range(3)}
        data, cols = {}, []
        for cname in f["columns"]:
            if cname in ren:
                continue
            data[cname] = f["data"][cname]
            cols.append(cname)
            if cname == "rid":
                for a in opt["order"]:
                    data[opt["names"][a]] = f["data"]["feat%d" % a]
                    cols.append(opt["names"][a])
        files.append({"columns": cols, "data": data, "targets": f["targets"]})
    return files


def _mixed_flags(rng, k):
    flags = [rng.random() < 0.5 for _ in range(k)]
    i = rng.randrange(k)
    flags[i] = True
    flags[(i + 1 + rng.randrange(k - 1)) % k] = False
    return flags


def _brew_case(rng, thorough, **force):
    nfiles = force.get("nfiles", rng.choice([1, 1, 2, 2, 3]))
    distinct = force.get("distinct", rng.random() < 0.4)
    names = rng.choice(NAME_POOLS)
    order = rng.choice([[0, 1, 2], [0, 1, 2], [2, 0, 1], [1, 2, 0], [2, 1, 0]])
    flips = force.get("flips", rng.choice([[], [], [], [0], [0], [1], [0, 2], [0, 1, 2], [order[0]]]))
    opt = {"nkey": rng.choice([1, 2, 2, 2, 4]), "mult": (1, rng.choice([1, 2, 3])), "distinct": distinct,
           "tfrac": force.get("tfrac", rng.choice(["mid", "mid", "mid", "rich", "poor"])), "flips": sorted(set(flips)),
           "dup": rng.random() < 0.12, "shift": rng.choice([0, 0, 0, 50, 1000]), "names": names, "order": order}
    wk = force.get("weaken", rng.random() < 0.6)
    if wk == "first":
        opt["weaken"] = [order[0]]                                  # the estimator's column (learn=False) is the weakest feature
    elif wk:
        opt["weaken"] = [a for a in range(3) if a != order[0]]      # the estimator's column (learn=False) is the strongest feature
    if "quality" in force:
        opt["quality"] = force["quality"]
    size = rng.random()
    folds = force.get("folds", rng.choice([2, 3, 3, 3, 4, 5]))
    if "nrange" in force:
        nrange = force["nrange"]
    elif size < 0.07:
        nrange = (25, 45)
    elif size < 0.9 or not thorough:
        nrange = (max(60, 35 * folds), max(220 if thorough else 150, 55 * folds))     # a fold should accept some target
    else:
        nrange = (300, 600)
    files = _mk_files(rng, nfiles, nrange, opt)
    feats = ["rid"] + [names[a] for a in order]
    fdr = force.get("test_fdr", rng.choice(["0.1", "0.25", "0.5", "0.25", "0.5", "0.25", "0.5", "0.25", "0.5", "0.05"]))
    train_fdr = force.get("train_fdr", rng.choice([fdr if fdr in ("0.25", "0.5") else "0.5", "0.25", "0.25", "0.5", "0.5", "0.5", "0.1"]))
    # the estimator ranks by +column ("col") or -column ("neg"): a good learner follows the direction of its column
    learner = force.get("learner", rng.choice(["good", "good", "good", "good", "good", "const", "bad"]))
    first_low = order[0] in opt["flips"]
    kind = force.get("est_kind", "const" if learner == "const" else ("neg" if (learner == "good") == first_low else "col"))
    learn = force.get("learn", rng.random() < 0.25)
    ntot = sum(len(f["targets"]) for f in files)
    nmax = max(len(f["targets"]) for f in files)
    nmin = min(len(f["targets"]) for f in files)
    cap = rng.choice([None, None, None, 0.4, 0.7])      # binding for every file, and never more than a file's complement holds
    if "cap" in force:
        cap = force["cap"]
    if cap:
        cap = max(6 * nfiles, int(nfiles * nmin * (folds - 1) / folds * cap))
    chunks = {}
    if rng.random() < 0.25:
        chunks["predict"] = max(1, rng.choice([3, 7, nmax // 2, nmax - 1, nmax + 1]))
    if rng.random() < 0.15:
        chunks["trainread"] = max(1, rng.choice([5, nmax - 1, nmax + 1]))
    fmt = rng.choice(["tsv", "parquet"])
    override = force.get("override", rng.random() < 0.3)
    direction = force.get("direction", feats[rng.randint(1, 3)] if rng.random() < 0.12 else None)
    rerun = force.get("rerun", rng.choice(["keep", "mixed", "mixed", "all", "none", None]))
    c = {"fn": "brew", "files": files, "feats": feats, "fscale": rng.choice([1, 1, 1, 2, 4]), "folds": folds,
         "seed": rng.randint(0, 10 ** 6), "test_fdr": fdr, "train_fdr": float(train_fdr), "workers": rng.choice([1, 1, 2, 4]),
         "subset_max_train": cap, "chunks": chunks, "fmt": fmt, "row_group": rng.choice([None, 7, 64]) if fmt == "parquet" else None,
         "est_mode": rng.choice(["decision", "decision", "decision", "proba"]), "est_kind": kind, "learn": learn,
         "override": override, "max_iter": rng.choice([1, 1, 2, 3]), "shuffle": rng.random() < 0.8, "direction": direction,
         "ensemble": force.get("ensemble", rng.random() < 0.2), "single_arg": nfiles == 1 and rng.random() < 0.3,
         "rng_kind": rng.choice(["int", "int", "gen"]), "rerun": rerun,
         "rerun_override": _mixed_flags(rng, folds) if rerun == "mixed" else None,
         "confidence": {"dedup": rng.random() < 0.7, "rollup": rng.random() < 0.7, "prefixes": rng.random() < 0.5,
                        "chunk": rng.choice([None, None, 7, nmax - 1, nmax + 1]), "workers": rng.choice([1, 1, 3])},
         "tags": ["brew", "kind=" + kind + ("-rows" if learn and kind != "const" else ""), "learner=" + learner, "low=" + "".join(map(str, opt["flips"])) if opt["flips"] else "high",
                  f"files={nfiles}", f"folds={folds}", "fdr=" + fdr, "train_fdr=" + train_fdr,
                  "vals=" + ("distinct" if distinct else "ties") + ("-neg" if opt["shift"] else ""),
                  "tfrac=" + opt["tfrac"], "names=" + names[0], "order=" + "".join(map(str, order)), "keycols=%d" % opt["nkey"]]}
    for flag, tag in ((opt["dup"], "dup-feature"), (cap, "cap"), (c["ensemble"], "ensemble"), (override, "override"),
                      (direction, "direction"), (c["single_arg"], "single-arg"), (c["fscale"] != 1, "float-features"),
                      (c["workers"] > 1, "workers>1"), (chunks, "chunks"), (c["est_mode"] == "proba", "proba"),
                      (not c["shuffle"], "noshuffle"), (opt.get("weaken") and wk != "first", "first-feature-strongest"), (wk == "first", "first-feature-weakest"), (rerun, "rerun=%s" % rerun), (c["rng_kind"] == "gen", "rng=generator")):
        if flag:
            c["tags"].append(tag)
    return c


def gen(ctx):
    cases = []
    rng = ctx.sub("c07")
    for k in range(620 if ctx.thorough else 130):
        cases.append(_brew_case(rng, ctx.thorough))
    # training FDR and evaluation FDR differ: the comparison must be made at the evaluation FDR
    rng = ctx.sub("c07-fdr-mismatch")
    for (tr, te) in (("0.5", "0.1"), ("0.5", "0.25"), ("0.25", "0.1"), ("0.1", "0.5")):
        for rep in range(6 if ctx.thorough else 3):
            strict = te == "0.1"      # every fold has to accept some target at the evaluation FDR, or brew stops (C11)
            c = _brew_case(rng, False, nfiles=1, flips=[], tfrac="mid", nrange=(300, 450) if strict else (150, 260),
                           quality=[0.8, 0.9] if strict else [0.6, 0.8], folds=rng.choice([2, 3]),
                           test_fdr=te, train_fdr=tr, learner="good", learn=False, override=False, direction=None, ensemble=False,
                           weaken=False, cap=None, rerun=["keep", "mixed", "mixed"][rep % 3])
            f = c["files"][0]
            n = len(f["targets"])
            for other in c["feats"][2:]:      # the estimator's feature is the best feature in every fold, so training succeeds
                f["data"][other] = [min(f["data"][c["feats"][1]]) + rng.randint(0, 60) // 3 for _ in range(n)]
            c["tags"].append("fdr-mismatch")
            cases.append(c)
    # a trained model that is worse at the evaluation FDR, on lower-is-better features, all encodings: the fall-back with
    # trained models and direction False
    rng = ctx.sub("c07-low-fallback")
    for rep in range(30 if ctx.thorough else 10):
        if rep % 5 < 2:
            c = _brew_case(rng, False, flips=[0, 1, 2], learner=rng.choice(["const", "bad"]), override=False, direction=None,
                           distinct=rep % 2 == 0)
        else:       # trains (lenient training FDR), is worse at the strict evaluation FDR
            c = _brew_case(rng, False, flips=[0, 1, 2], learner="good", learn=False, weaken=True, override=False, direction=None,
                           distinct=rep % 2 == 0, train_fdr="0.5", test_fdr=["0.25", "0.1", "0.25"][rep % 3], tfrac="mid",
                           nrange=[(150, 260), (300, 450), (150, 260)][rep % 3], quality=[[0.6, 0.8], [0.8, 0.9], [0.6, 0.8]][rep % 3],
                           folds=rng.choice([2, 3]), cap=None, rerun=["keep", "mixed", "mixed", "all"][rep % 4], ensemble=False)
        c["tags"].append("low-fallback")
        cases.append(c)
    # a weak learner the user forces (override=True): brew keeps its scores; the SAME fold models handed to brew as a list of
    # trained models with the flag cleared on all / some of them must bring the fall-back back
    rng = ctx.sub("c07-forced-then-not")
    for rep in range(36 if ctx.thorough else 12):
        c = _brew_case(rng, False, learner="good", learn=False, weaken="first", override=True, direction=None, tfrac="mid",
                       nrange=(120, 240), quality=[0.8, 0.9], folds=rng.choice([2, 3, 3, 4]), cap=None,
                       train_fdr="0.5", test_fdr=rng.choice(["0.5", "0.25"]), rerun=["none", "mixed", "mixed"][rep % 3],
                       ensemble=rep % 4 == 1)
        c["tags"].append("forced-then-not")
        cases.append(c)
    # a real learner (mokapot.PercolatorModel: linear SVM with grid search): its scores are not predicted, the per-fold best
    # features are; the answer of brew is judged by the property oracle alone
    rng = ctx.sub("c07-svm")
    for rep in range(40 if ctx.thorough else 10):
        c = _brew_case(rng, False, learner="good", learn=False, override=False, direction=None, ensemble=rep % 4 == 3, cap=None,
                       nfiles=rng.choice([1, 1, 2]), nrange=(250, 500), tfrac=rng.choice(["mid", "mid", "rich"]), rerun=None,
                       quality=rng.choice([[0.5], [0.7], [0.9]]), train_fdr=rng.choice(["0.25", "0.5"]),
                       test_fdr=rng.choice(["0.1", "0.25", "0.5", "0.5"]), folds=rng.choice([2, 3, 3, 4]))
        c["fn"] = "brew_svm"
        c["tags"] = ["brew-svm"] + [t for t in c["tags"][1:] if not t.startswith(("kind=", "learner=", "rerun", "proba", "noshuffle"))]
        cases.append(c)
    # direction clause through assign_confidence with given scores
    crng = ctx.sub("c07-conf")
    conf = [c for c in c03.gen(ctx) if c["fn"] == "conf"]
    multi = [c for c in conf if len(c["files"]) > 1]
    single = [c for c in conf if len(c["files"]) == 1]
    pick = single[: (50 if ctx.thorough else 10)] + multi[: (90 if ctx.thorough else 22)]
    for c in pick:
        ncoll = len(c["files"])
        if ncoll == 1 or crng.random() < 0.3:
            descs = [False] * ncoll
        else:
            descs = [crng.random() < 0.5 for _ in range(ncoll)]
            descs[crng.randrange(ncoll)] = False
            if all(not d for d in descs):
                descs[crng.randrange(ncoll)] = True
        c = dict(c, fn="conf", descs=descs, container=crng.choice(["f64", "f64", "i64", "f32", "col", "u16", "u16"]))
        if c["container"] == "u16":
            # unsigned scores (a uint8 / uint16 feature of a Parquet file handed on as the score): negating them for a
            # lower-is-better collection must not wrap around (repaired in /repo, f049513)
            if all(float(v).is_integer() and abs(v) < 30000 for sc in c["scores"] for v in sc):
                lo = min([0] + [int(v) for sc in c["scores"] for v in sc])
                c["scores"] = [[int(v) - lo for v in sc] for sc in c["scores"]]
            else:
                c["container"] = "f64"
        c["tags"] = ["conf-given-scores", "descs=" + ("all-false" if not any(descs) else "mixed"), "scores-as=" + c["container"]] + c["tags"][1:]
        cases.append(c)
    # assign_confidence chooses the best feature itself (scores=None)
    arng = ctx.sub("c07-auto")
    for k in range(60 if ctx.thorough else 14):
        ncoll = arng.choice([1, 1, 2, 3])
        flipsets = [arng.choice([[], [], [0, 1, 2], [0], [0, 1, 2]]) for _ in range(ncoll)]
        nkey = arng.choice([2, 2, 4])
        files = []
        for j in range(ncoll):
            opt = {"nkey": nkey, "mult": (1, arng.choice([1, 3])), "distinct": True, "tfrac": "mid",
                   "flips": flipsets[j], "dup": False, "shift": arng.choice([0, 0, 700]), "names": NAME_POOLS[0], "order": [0, 1, 2]}
            f = _mk_files(arng, 1, (30, 150 if ctx.thorough else 90), opt)[0]
            f = _take_rows(f, list(range(len(f["targets"]))), j)
            files.append(f)
        cases.append({"fn": "conf_auto", "files": files, "feats": ["rid", "feat0", "feat1", "feat2"], "dedup": arng.random() < 0.6,
                      "rollup": arng.random() < 0.7, "decoys": True, "prefixes": arng.random() < 0.5, "chunks": {},
                      "fmt": arng.choice(["tsv", "parquet"]), "workers": 1, "levels": [], "ties": False,
                      "eval_fdr": arng.choice(["0.25", "0.5"]),
                      "tags": ["conf-scores-none", f"coll={ncoll}"]})
    return cases


# ----------------------------------------------------------------------------- the real code
def _write(f, d, name, c):
    fs = c.get("fscale", 1)
    if fs != 1:
        data = dict(f["data"])
        for nm in c["feats"][1:]:
            data[nm] = [v / fs for v in data[nm]]
        f = dict(f, data=data)
    return brewlib.write_file(f, d, name, c.get("fmt", "tsv"), c.get("row_group"))


def _fr(arr):
    import numpy as np
    return [Fraction(float(v)) if np.isfinite(v) else None for v in np.asarray(arr, dtype=float).ravel()]


def _conf_files(out):
    files, leftovers = {}, []
    for fn in sorted(os.listdir(out)):
        parts = fn.split(".")
        if "targets" in parts or "decoys" in parts:
            files[fn] = c03._parse(Path(out) / fn, {"levels": []})
        else:
            leftovers.append(fn)
    return {"files": files, "leftovers": leftovers}


def _run_brew(c):
    """read_pin + brew (+ brew again with the returned models, + assign_confidence on what brew returned)"""
    import numpy as np
    import mokapot
    import mokapot.confidence as conf
    from mokapot.model import Model
    RecScaler, Transparent = brewlib.make_classes()
    d = tempfile.mkdtemp(prefix="c07_", dir=os.environ.get("VERIF_TMP", "/tmp"))
    try:
        paths = [_write(f, d, "file%d" % i, c) for i, f in enumerate(c["files"])]
        with brewlib.Chunking(**c.get("chunks", {})):
            dss = mokapot.read_pin(paths, max_workers=1)
            keys = [brewlib.spectrum_keys(ds) for ds in dss]
            features = [list(ds.feature_columns) for ds in dss]
            brewlib.reset_log()
            est = Transparent(mode=c.get("est_mode", "decision"), learn=c.get("learn", False), kind=c.get("est_kind", "col"))
            model = Model(est, scaler=RecScaler(), train_fdr=c["train_fdr"], max_iter=c.get("max_iter", 1),
                          direction=c.get("direction"), override=c.get("override", False), shuffle=c.get("shuffle", True),
                          rng=c["seed"])

            def call(psms, mdl):
                rng = np.random.default_rng(c["seed"]) if c.get("rng_kind") == "gen" else c["seed"]
                return mokapot.brew(psms, mdl, test_fdr=float(c["test_fdr"]), folds=c["folds"], max_workers=c.get("workers", 1),
                                    rng=rng, subset_max_train=c.get("subset_max_train"), ensemble=bool(c.get("ensemble")))
            try:
                psms_out, models, scores, descs = call(dss[0] if c.get("single_arg") else dss, model)
            except BaseException as e:   # noqa
                if isinstance(e, (KeyboardInterrupt, SystemExit, MemoryError)):
                    raise
                return {"keys": keys, "features": features, "error": lib.err_kind(e), "message": str(e)[:200],
                        "est_fits": [(sorted(x[0]), x[2]) for x in brewlib.LOG["est_fit"] if len(x) > 2]}
            fit_by_token = dict(brewlib.LOG["fit"])
            obs = {
                "keys": keys, "features": features, "error": None,
                "model_folds": [m.fold for m in models],
                "trained": [bool(m.is_trained) for m in models],
                "cols": [getattr(m.estimator, "col_", None) for m in models],
                "train_ids": [sorted(fit_by_token.get(getattr(m.scaler, "token_", None), [])) for m in models],
                "scores": [_fr(s) for s in scores],
                "shapes": [list(np.asarray(s).shape) for s in scores],
                "descs": [bool(x) for x in descs],
                "descs_types": sorted(set(type(x).__name__ for x in descs)),
                "n_returned": [len(psms_out), len(scores), len(descs)],
                "feat_pass": [int(m.feat_pass) if m.feat_pass is not None else None for m in models],
                "best_feat": [m.best_feat if isinstance(m.best_feat, str) else (None if m.best_feat is None else "<%s>" % type(m.best_feat).__name__)
                              for m in models],
                "model_desc": [None if m.desc is None else bool(m.desc) for m in models],
                "override": [bool(m.override) for m in models],
                "seen": None, "rerun": None, "conf": None,
            }
            # (b) what brew returned goes unchanged into assign_confidence
            cf = c.get("confidence")
            if cf and all(np.all(np.isfinite(np.asarray(s, dtype=float))) for s in scores):
                out = Path(d) / "out"
                out.mkdir()
                oldp = conf.peps_from_scores
                conf.peps_from_scores = c03._const_peps
                try:
                    prefixes = ["coll%d" % i for i in range(len(paths))] if cf["prefixes"] else [None] * len(paths)
                    with brewlib.Chunking(confidence=cf.get("chunk")):
                        mokapot.assign_confidence(psms_out, max_workers=cf.get("workers", 1), scores=scores, descs=descs,
                                                  eval_fdr=0.5, dest_dir=out, prefixes=prefixes, decoys=True,
                                                  deduplication=cf["dedup"], do_rollup=cf["rollup"])
                    obs["conf"] = _conf_files(out)
                except BaseException as e:   # noqa
                    if isinstance(e, (KeyboardInterrupt, SystemExit, MemoryError)):
                        raise
                    obs["conf"] = {"error": lib.err_kind(e) + ": " + str(e)[:200]}
                finally:
                    conf.peps_from_scores = oldp
            # (a) brew again, on the re-read files, with the fold models as a list of trained models
            if c.get("rerun") and all(obs["trained"]):
                dss2 = mokapot.read_pin(paths, max_workers=1)
                ms2 = list(models)
                flags = _rerun_flags(c, obs["override"])
                for m, o in zip(ms2, flags):
                    m.override = o
                if c.get("ensemble"):
                    # R2.22: the fold models go back in ANOTHER order (the flags stay with their folds): brew sorts them by
                    # fold before it averages and before it looks for the first model with the largest feat_pass
                    ms2 = ms2[::-1]
                try:
                    _, models2, scores2, descs2 = call(dss2, ms2)
                    obs["rerun"] = {"scores": [_fr(s) for s in scores2], "descs": [bool(x) for x in descs2],
                                    "n_models": len(models2)}
                    if c.get("ensemble"):
                        obs["rerun"]["model_folds"] = [m.fold for m in models2]
                except BaseException as e:   # noqa
                    if isinstance(e, (KeyboardInterrupt, SystemExit, MemoryError)):
                        raise
                    obs["rerun"] = {"error": lib.err_kind(e) + ": " + str(e)[:200]}
        return obs
    finally:
        shutil.rmtree(d, ignore_errors=True)


def _run_svm(c):
    import numpy as np
    import mokapot
    d = tempfile.mkdtemp(prefix="c07s_", dir=os.environ.get("VERIF_TMP", "/tmp"))
    try:
        paths = [_write(f, d, "file%d" % i, c) for i, f in enumerate(c["files"])]
        with brewlib.Chunking(**c.get("chunks", {})):
            dss = mokapot.read_pin(paths, max_workers=1)
            keys = [brewlib.spectrum_keys(ds) for ds in dss]
            model = mokapot.PercolatorModel(train_fdr=c["train_fdr"], max_iter=3, override=False, rng=c["seed"])
            try:
                _, models, scores, descs = mokapot.brew(dss[0] if c.get("single_arg") else dss, model, test_fdr=float(c["test_fdr"]),
                                                        folds=c["folds"], max_workers=c.get("workers", 1), rng=c["seed"],
                                                        ensemble=bool(c.get("ensemble")))
            except BaseException as e:   # noqa
                if isinstance(e, (KeyboardInterrupt, SystemExit, MemoryError)):
                    raise
                return {"keys": keys, "error": lib.err_kind(e), "message": str(e)[:200]}
        return {"keys": keys, "error": None, "trained": [bool(m.is_trained) for m in models],
                "scores": [_fr(s) for s in scores], "descs": [bool(x) for x in descs],
                "best": [[m.best_feat if isinstance(m.best_feat, str) else "<%s>" % type(m.best_feat).__name__,
                          int(m.feat_pass), bool(m.desc)] for m in models]}
    finally:
        shutil.rmtree(d, ignore_errors=True)


def _svm_case(c):
    got = call_impl(_run_svm, c)
    if got[0] == "err":
        return ("unknown", ""), got
    obs = got[1]
    ms = c02._model_side(dict(c, subset_max_train=None), obs)
    if ms[0] == "err":
        return ms, (("err", obs["error"]) if obs.get("error") else ("ok", {}))
    m = ms[1]
    if obs.get("error") and any(len(fold) == 0 for per_file in m["folds"] for fold in per_file):
        return ("err", "EmptyFold"), ("err", "EmptyFold")
    rows_per_fold = [[(j, r) for j in range(len(c["files"])) for r in m["complements_per_file"][f][j]] for f in range(c["folds"])]
    bests, _ = _best_features(c, rows_per_fold)
    expected = []
    for rows, b in zip(rows_per_fold, bests):
        tg = [c["files"][j]["targets"][r] for j, r in rows]
        if not any(tg) or all(tg):
            expected.append("ValueError:one-class")
        elif b is None:
            expected.append("RuntimeError:no-feature-accepts")
    if obs.get("error"):
        _tag(c, "out:error")
        kind = _err_class(obs)
        if kind in expected or (not expected and kind == "RuntimeError:calibration"):
            return ("err", kind), ("err", kind)      # the learned scores are unknown: a calibration error cannot be predicted
        return (("err", expected[0]) if expected else ("ok", {"note": "no error expected"})), ("err", kind)
    if expected:
        return ("err", expected[0]), ("ok", {"note": "no error"})
    model = {"best": [[b[0], b[1], b[2]] for b in bests], "net": None}
    impl = {"best": obs["best"], "scores": obs["scores"], "descs": obs["descs"], "_trained": obs["trained"]}
    impl["net"] = _svm_net(c, impl, bests)
    fell = not all(obs["descs"]) or any(obs["scores"][j] == _vals(c, fl, b[0]) for b in bests for j, fl in enumerate(c["files"]))
    _tag(c, "out:fallback" if fell else ("out:kept-model" if all(obs["trained"]) else "out:kept-zero-scores"))
    if not all(obs["trained"]):
        _tag(c, "out:untrained")
    if not all(obs["descs"]):
        _tag(c, "out:desc-false")
    return ("ok", model), ("ok", impl)


def _svm_net(c, o, bests):
    """the property on the answer of brew with a learner whose scores the model does not predict"""
    if any(v is None for s in o["scores"] for v in s):
        return None
    msg = _net(c, o["scores"], o["descs"], bests, "brew")
    if msg:
        return msg
    # when the answer is a feature, it is the best feature of the first fold with the largest count, with its direction
    n = len(c["files"])
    top = max(b[1] for b in bests)
    first = [b for b in bests if b[1] == top][0]
    as_feat = [b for b in bests if all(o["scores"][j] == _vals(c, fl, b[0]) for j, fl in enumerate(c["files"]))
               and list(o["descs"]) == [b[2]] * n]
    if as_feat and not any((b[0], b[2]) == (first[0], first[2]) for b in as_feat):
        return f"brew answered with feature {as_feat[0][0]}, not with the best feature {first[0]} (higher is better: {first[2]})"
    if not all(o["descs"]) and not as_feat:
        return "brew answered with a lower-is-better direction but the scores are not the best feature's values"
    return None


def _rerun_flags(c, first):
    if c.get("rerun") == "all":
        return [True] * len(first)
    if c.get("rerun") == "none":
        return [False] * len(first)
    if c.get("rerun") == "mixed":
        return list(c["rerun_override"])
    return list(first)


def _conf_container(s, kind):
    import numpy as np
    if kind == "i64":
        return np.array([int(v) for v in s], dtype=np.int64)
    if kind == "f32":
        return np.array(s, dtype=np.float32)
    if kind == "u16":
        return np.array([int(v) for v in s], dtype=np.uint16)
    if kind == "col":
        return np.array(s, dtype=float).reshape(-1, 1)
    return np.array(s, dtype=float)


def _run_conf(c):
    """assign_confidence with given scores (per-collection directions) or with scores=None"""
    import mokapot
    import mokapot.confidence as conf
    d = tempfile.mkdtemp(prefix="c07c_", dir=os.environ.get("VERIF_TMP", "/tmp"))
    old = conf.peps_from_scores
    conf.peps_from_scores = c03._const_peps
    try:
        paths = [_write(f, d, "coll%d" % i, c) for i, f in enumerate(c["files"])]
        out = Path(d) / "out"
        out.mkdir()
        with brewlib.Chunking(**c.get("chunks", {})):
            dss = mokapot.read_pin(paths, max_workers=1)
            prefixes = ["coll%d" % i for i in range(len(paths))] if c["prefixes"] else [None] * len(paths)
            if c["fn"] == "conf_auto":
                mokapot.assign_confidence(dss, max_workers=c.get("workers", 1), eval_fdr=float(c["eval_fdr"]), dest_dir=out,
                                          prefixes=prefixes, decoys=c["decoys"], deduplication=c["dedup"], do_rollup=c["rollup"])
            else:
                mokapot.assign_confidence(dss, max_workers=c.get("workers", 1),
                                          scores=[_conf_container(s, c.get("container", "f64")) for s in c["scores"]],
                                          descs=[bool(x) for x in c["descs"]], eval_fdr=0.5, dest_dir=out, prefixes=prefixes,
                                          decoys=c["decoys"], deduplication=c["dedup"], do_rollup=c["rollup"])
        res = {"files": {}, "leftovers": []}
        for fn in sorted(os.listdir(out)):
            parts = fn.split(".")
            if "targets" in parts or "decoys" in parts:
                res["files"][fn] = c03._parse(out / fn, c)
            else:
                res["leftovers"].append(fn)
        return res
    finally:
        conf.peps_from_scores = old
        shutil.rmtree(d, ignore_errors=True)


# ----------------------------------------------------------------------------- model side
def _err_class(obs):
    msg = obs.get("message", "") or ""
    if obs.get("error") == "RuntimeError":
        if "No PSMs found below" in msg or "No PSMs accepted" in msg:
            return "RuntimeError:no-feature-accepts"
        if "calibrate" in msg:
            return "RuntimeError:calibration"
    if obs.get("error") == "ValueError" and ("No decoy PSMs were detected" in msg or "No target PSMs were detected" in msg):
        return "ValueError:one-class"
    return str(obs.get("error")) + ": " + msg[:120]


def _tag(c, t):
    if t not in c["tags"]:
        c["tags"].append(t)


def _eff_case(c, scores, descs):
    """the c03 case whose (higher-is-better) scores are the direction-adjusted ones"""
    eff = [[v if d else -v for v in s] for s, d in zip(scores, descs)]
    return dict(c, scores=eff, descs=True)


def _conf_compare(ce, got):
    """c03's comparison of result files with Model/Confidence.v, on the direction-adjusted case ce"""
    model = ("ok", {k: [(i, q) for i, q in v] for k, v in c03._model(ce).items()})
    if got[0] == "err":
        return model, got
    impl_files = got[1]["files"]
    if ce["ties"]:
        def merge(dd, ent, sc):
            out = {}
            for k, v in dd.items():
                lvl = k.replace("targets.", "").replace("decoys.", "")
                out.setdefault(lvl, []).extend((ent(k, x), sc(x)) for x in v)
            return {k: (sorted(v) if (ce["decoys"] and k.endswith("psms")) else True) for k, v in out.items()}
        canon_i = merge(impl_files, lambda k, r: c03._entity(ce, k, r["id"]), lambda r: r["score"])
        canon_m = merge(model[1], lambda k, x: c03._entity(ce, k, x[0]), lambda x: c03._score(ce, x[0]))
        return ("ok", {"tie-canonical": canon_m}), ("ok", {"tie-canonical": canon_i, "raw": got[1]})
    canon = {k: [(r["id"], r["q"]) for r in v] for k, v in impl_files.items()}
    return model, ("ok", {"files": canon, "raw": got[1]})


def _view(c):
    """the files with the feature columns under the positional names c02's score model expects"""
    files = []
    for f in c["files"]:
        data = {"rid": f["data"]["rid"]}
        for a, name in enumerate(c["feats"][1:]):
            data["feat%d" % a] = f["data"][name]
        files.append({"data": data, "targets": f["targets"]})
    return dict(c, files=files)


def _c02_scores(c, obs):
    """C02's score model (split, routing, calibration) on the positional view of the case: the column a fold model learned is
    addressed by its POSITION among the features (obs["cols"]), whatever the columns are called in this case"""
    o = dict(obs, features=None)
    o.setdefault("ref_keys", obs["keys"])
    return c02._scores_model(_view(c), o)


def _best_features(c, rows_per_fold):
    """per fold: (index into the candidate list, count, desc) or None, by Model/BrewDecision.v"""
    thr_train = Fraction(str(c["train_fdr"]))
    cand = [c["direction"]] if c.get("direction") else c["feats"]
    lines, per_fold = [], []
    for rows in rows_per_fold:
        feats, tg = [[] for _ in c["feats"]], []
        for j, r in rows:
            fl = c["files"][j]
            for a, name in enumerate(c["feats"]):
                feats[a].append(int(fl["data"][name][r]))
            tg.append(fl["targets"][r])
        per_fold.append((feats, tg))
        use = [feats[c["feats"].index(nm)] for nm in cand]
        lines.append("c07.best_feature %s %s %s" % (lib.q(thr_train), lib.lst(use, lambda x: lib.lst(x)), lib.lst(tg, lib.b)))
    bests = []
    for line in lib.run_driver(lines):
        t = Toks(line)
        b = t.opt(lambda: (t.nat(), t.nat(), t.b()))
        bests.append(None if b is None else (cand[b[0]], b[1], b[2]))
    return bests, per_fold


def _count_true(scores, targets, thr):
    """accepted targets under higher-is-better scores, by bd_pred_total"""
    line = "c07.decide %s 0 1 %s %s" % (lib.q(thr), lib.lst(exact_ints(scores)), lib.lst(targets, lib.b))
    t = Toks(lib.run_driver([line])[0])
    r = t.result(lambda: (t.nat(), t.opt()))
    return r[1][0] if r[0] == "ok" else None


def _decide(c, mscores, feat_pass, flags):
    thr = Fraction(c["test_fdr"])
    files_tok = [lib.lst(exact_ints(mscores[j])) + " " + lib.lst(fl["targets"], lib.b) for j, fl in enumerate(c["files"])]
    models_tok = ["%s %s" % (lib.z(fp), lib.b(o)) for fp, o in zip(feat_pass, flags)]
    line = "c07.decide %s %d %s %d %s" % (lib.q(thr), len(models_tok), " ".join(models_tok), len(files_tok), " ".join(files_tok))
    t = Toks(lib.run_driver([line])[0])
    return t.result(lambda: (t.nat(), t.opt()))


def _vals(c, fl, name):
    """the values of feature column `name` as written to the file (the row id column is never scaled)"""
    fs = 1 if name == "rid" else c.get("fscale", 1)
    return [Fraction(v, fs) for v in fl["data"][name]]


def _returned(c, mscores, bests, choice):
    if choice is None:
        return [[Fraction(float(v)) for v in s] for s in mscores], [True] * len(c["files"])
    name, _, d = bests[choice]
    return [_vals(c, fl, name) for fl in c["files"]], [d] * len(c["files"])


def _ensemble_scores(c, obs):
    k = c["folds"]
    kind = c.get("est_kind", "col")
    out = []
    for fl in c["files"]:
        n = len(fl["targets"])
        tot = [Fraction(0)] * n
        for m in range(k):
            name = c["feats"][obs["cols"][m]]
            if kind == "const":
                continue
            sgn = -1 if kind == "neg" else 1
            tot = [t + sgn * v for t, v in zip(tot, _vals(c, fl, name))]
        out.append([Fraction(float(t / k)) for t in tot])
    return out


def _ens_raw(c, obs, fl_view):
    """decision values of every fold model on one file of the positional view, as integers in units of 1 / fscale"""
    kind = c.get("est_kind", "col")
    out = []
    for m in range(c["folds"]):
        col = obs["cols"][m]
        vals = fl_view["data"]["rid" if col == 0 else "feat%d" % (col - 1)]
        out.append([0 for _ in vals] if kind == "const" else [(-int(v) if kind == "neg" else int(v)) for v in vals])
    return out


def _ensemble_scores_model(c, obs):
    """R2.22: the averaged scores by the extracted model (Model/Brew.v bw_brew_scores_ens through c02's driver entry), on the
    positional view of the case (integers in units of 1 / fscale); must equal the Python mean of _ensemble_scores"""
    o = dict(obs, features=None)
    o.setdefault("ref_keys", obs["keys"])
    fs = c.get("fscale", 1)
    sm = c02._scores_model_ens(_view(c), o)
    if any(s_[0] == "err" for s_ in sm):
        return sm, None
    ms = [[Fraction(float(q / fs)) for q in s_[1]] for s_ in sm]
    if lib.jsonable(ms) != lib.jsonable(_ensemble_scores(c, obs)):
        raise lib.ModelError("c07: the extracted ensemble model and the Python mean of the fold models' columns disagree")
    return sm, ms


def _brew_ens_model(c, obs, bests, trained, flags):
    """R2.22: brew(ensemble=True) as a whole by the extracted model (Model/Brew.v bw_brew_ens, driver entry c07.brew_ens): the
    fitted fold models (delivered in reversed order), the collections with their feature columns -> fold numbers of the
    returned models, scores, descs.  All feature values in units of 1 / fscale (the row-id column is multiplied by fscale)."""
    k = c["folds"]
    fs = c.get("fscale", 1)
    v = _view(c)
    keys = obs.get("ref_keys") or obs["keys"]
    fitted = []
    for m in range(k):
        b = bests[m]
        raws = [_ens_raw(c, obs, fl)[m] for fl in v["files"]]
        fitted.append("%s %s %s %s %s %s %s" % (lib.z(m + 1), lib.b(trained[m]), lib.z(b[1]), lib.b(flags[m]),
                                                  lib.z(c["feats"].index(b[0])), lib.b(b[2]), lib.lst(raws, lambda r: lib.lst(r))))
    fitted = fitted[::-1]
    files = []
    for j, fl in enumerate(c["files"]):
        feats = [[int(x) * (fs if name == "rid" else 1) for x in fl["data"][name]] for name in c["feats"]]
        files.append("%s %s %s" % (lib.lst(keys[j]), lib.lst(fl["targets"], lib.b), lib.lst(feats, lambda r: lib.lst(r))))
    line = "c07.brew_ens %s %s %s %d %s %d %s" % (lib.z(c.get("chunks", {}).get("predict", 700000)), lib.z(k), lib.q(Fraction(c["test_fdr"])),
                                                  len(fitted), " ".join(fitted), len(files), " ".join(files))
    t = Toks(lib.run_driver([line])[0])
    r = t.result(lambda: (t.lst(), t.lst(lambda: t.lst(t.q)), t.lst(t.b)))
    if r[0] == "err":
        return {"error": r[1]}
    folds, scores, descs = r[1]
    return {"folds": folds, "scores": [[Fraction(float(q / fs)) for q in s_] for s_ in scores], "descs": descs}


def run_case(c):
    if c["fn"] == "conf":
        ce = _eff_case(c, c["scores"], c["descs"])
        return _conf_compare(ce, call_impl(_run_conf, c))
    if c["fn"] == "conf_auto":
        return _run_auto(c)
    if c["fn"] == "brew_svm":
        return _svm_case(c)
    got = call_impl(_run_brew, c)
    if got[0] == "err":
        _tag(c, "out:read-error")
        return ("unknown", ""), got
    obs = got[1]
    k = c["folds"]
    ms = c02._model_side(c, obs)
    if ms[0] == "err":
        _tag(c, "out:error")
        return ms, (("err", obs["error"]) if obs.get("error") else ("ok", {}))
    m = ms[1]
    impl_err = ("err", obs["error"] + ": " + obs.get("message", "")) if obs.get("error") else None
    if impl_err and any(len(fold) == 0 for per_file in m["folds"] for fold in per_file):
        _tag(c, "out:empty-fold")     # a file with no PSM in some fold: brew stops with an error (C02's degenerate input)
        return ("err", "EmptyFold"), ("err", "EmptyFold")
    # (0) the training rows of each fold
    rows_per_fold, capped = [], False
    for f in range(k):
        plan = m["plans"][f]
        if plan[0] == "err":
            _tag(c, "out:error")
            return ("err", plan[1]), (("err", obs["error"]) if obs.get("error") else ("ok", {"note": "brew succeeded"}))
        comp = [(j, r) for j in range(len(c["files"])) for r in m["complements_per_file"][f][j]]
        if any(pl is not None for pl in plan[1]):
            capped = True
            if obs.get("error"):
                rows_per_fold.append(None)
                continue
            ids = obs["train_ids"][f]
            mine = [(g // 100000, g % 100000) for g in ids]
            ok = len(set(ids)) == len(ids) and set(mine) <= set(comp)
            for j, pl in enumerate(plan[1]):
                nj = sum(1 for jj, _ in mine if jj == j)
                ok = ok and (nj == pl if pl is not None else nj == len(m["complements_per_file"][f][j]))
            if not ok:
                return ("ok", {"train": "a sub-sample of the fold's complement of the planned size"}), ("ok", {"train": "mismatch in fold %d" % f})
            rows_per_fold.append(mine)
        else:
            rows_per_fold.append(comp)
    if capped:
        _tag(c, "out:subsampled")
    if any(r is None for r in rows_per_fold):
        # brew raised on a sub-sampled run: the drawn rows were never observed; only explicit errors are acceptable
        _tag(c, "out:error")
        kind = _err_class(obs)
        if kind in ("RuntimeError:no-feature-accepts", "RuntimeError:calibration", "ValueError:one-class"):
            return ("err", kind), ("err", kind)
        return ("ok", {"note": "no error expected"}), impl_err
    # (1) per fold model: best feature on the training rows (all files jointly)
    bests, per_fold = _best_features(c, rows_per_fold)
    # explicit errors of the training stage, fold by fold: a one-class training set is refused by LinearPsmDataset (ValueError);
    # no feature accepts a PSM at train_fdr: Model.fit raises RuntimeError and brew re-raises.  With several workers any of the
    # failing folds may be the one whose error surfaces
    expected = []
    for rows, b in zip(rows_per_fold, bests):
        tg = [c["files"][j]["targets"][r] for j, r in rows]
        if not any(tg) or all(tg):
            expected.append("ValueError:one-class")
        elif b is None:
            expected.append("RuntimeError:no-feature-accepts")
    if expected:
        _tag(c, "out:error")
        got_kind = _err_class(obs) if obs.get("error") else None
        if got_kind in expected and (got_kind == expected[0] or c.get("workers", 1) > 1):
            return ("err", got_kind), ("err", got_kind)
        return ("err", expected[0]), (("err", got_kind) if got_kind else ("ok", {"note": "no error"}))
    model = {"best": [[b[0], b[1], b[2]] for b in bests]}
    # is_trained, for the estimators whose column does not depend on the fitted rows
    pred_trained = None
    if not c.get("learn") or c["est_kind"] == "const":
        pred_trained = []
        thr_train = Fraction(str(c["train_fdr"]))
        for (feats, tg), b in zip(per_fold, bests):
            col = feats[1]
            sc = [0] * len(col) if c["est_kind"] == "const" else ([-v for v in col] if c["est_kind"] == "neg" else col)
            npass = _count_true(sc, tg, thr_train)
            pred_trained.append(bool(npass and npass > 0 and (c["override"] or npass >= b[1])))
    if obs.get("error"):
        _tag(c, "out:error")
        if _err_class(obs) == "RuntimeError:calibration":
            # a fold accepted no target at test_fdr (C11's explicit error); brew returned no models.  When the estimator's column
            # does not depend on the fitted rows the model says whether some fold really accepts no target; otherwise the columns
            # (oracle) are unknown and the model cannot evaluate this run
            if pred_trained is not None:
                if not all(pred_trained) or c.get("ensemble"):
                    return ("ok", {"note": "no calibration happens here: model predicts no error"}), impl_err
                sm = _c02_scores(c, dict(obs, cols=[1] * k, seen=None))
                if not any(s_[0] == "err" and s_[1] == "RuntimeError" for s_ in sm):
                    return ("ok", {"note": "every fold accepts a target at test_fdr: brew should have returned scores"}), impl_err
            return ("err", "RuntimeError:calibration"), ("err", "RuntimeError:calibration")
        elif pred_trained is None:
            return ("ok", {"note": "model predicts no error here"}), impl_err
        # an error the model does not predict.  The estimator's column does not depend on the fitted rows, so the model can say
        # what brew should have returned although brew handed back no models (this is how the defect F26 showed: the fall-back
        # of a Model(direction=...) raised instead of returning that feature)
        trained = pred_trained
        obs = dict(obs, cols=[1] * k)
    else:
        trained = obs["trained"]            # oracle unless predicted
        if pred_trained is not None:
            model["trained"] = pred_trained
    impl = {"best": [[bf, fp, d] if fp is not None else None for bf, fp, d in zip(obs.get("best_feat", []), obs.get("feat_pass", []), obs.get("model_desc", []))]}
    if pred_trained is not None and not obs.get("error"):
        impl["trained"] = obs["trained"]
    # (2) model scores
    if all(trained):
        if c.get("ensemble"):
            sm, mscores = _ensemble_scores_model(c, obs)
            if mscores is None:
                return ("err", [s_[1] for s_ in sm if s_[0] == "err"][0]), ("ok", impl)
        else:
            sm = _c02_scores(c, obs)
            if any(s[0] == "err" for s in sm):
                kind = [s[1] for s in sm if s[0] == "err"][0]
                if kind == "TypeError":
                    # the calibration of some fold is not finite in the model (no decoy in the fold, or lowest accepted target =
                    # decoy median): the code then carries nan / inf scores into the comparison with the best feature — outside
                    # the model (and outside C11's quantifier); such runs are not compared
                    _tag(c, "out:nonfinite-calibration")
                    return ("err", "NonFiniteCalibration"), ("err", "NonFiniteCalibration")
                return ("err", kind), ("ok", impl)
            mscores = [s[1] for s in sm]
            if c.get("est_mode") == "proba" and c.get("fscale", 1) != 1:
                mscores = [[v / c["fscale"] for v in s] for s in mscores]       # raw (uncalibrated) scores: the unit matters
    else:
        mscores = [[Fraction(0)] * len(fl["targets"]) for fl in c["files"]]
    # (3) the decision
    dec = _decide(c, mscores, [b[1] for b in bests], [c["override"]] * k)
    if dec[0] == "err":
        return dec, ("ok", impl)
    pred_total, choice = dec[1]
    model["pred_total"] = pred_total
    model["scores"], model["descs"] = _returned(c, mscores, bests, choice)
    model["fallback"] = choice is not None
    if obs.get("error"):
        model["note"] = "brew should fall back to the best feature" if choice is not None else "brew should keep the model scores"
        return ("ok", model), impl_err
    impl["scores"] = obs["scores"]
    impl["descs"] = obs["descs"]
    impl["_trained"] = trained
    impl["_shapes"] = obs["shapes"]
    model["n_returned"] = [len(c["files"])] * 3
    impl["n_returned"] = obs["n_returned"]
    if c.get("ensemble"):
        # the same answer once more, from the model of the whole ensemble branch (sort by fold, sums, pred_total, bd_decide,
        # fall-back columns): fold numbers of the returned models, scores, descs
        model["brew_ens"] = _brew_ens_model(c, obs, bests, trained, [c["override"]] * k)
        impl["brew_ens"] = {"folds": obs["model_folds"], "scores": obs["scores"], "descs": obs["descs"]}
        if lib.jsonable(model["brew_ens"].get("scores")) != lib.jsonable(model["scores"]) or model["brew_ens"].get("descs") != model["descs"]:
            raise lib.ModelError("c07: bw_brew_ens and bd_decide on the ensemble scores disagree")
    _tag(c, "out:fallback" if choice is not None else ("out:kept-zero-scores" if not all(trained) else "out:kept-model"))
    if not all(trained):
        _tag(c, "out:untrained")
    if not all(model["descs"]):
        _tag(c, "out:desc-false")
    # (a) brew again with the list of trained models
    if c.get("rerun") and all(trained):
        flags = _rerun_flags(c, [c["override"]] * k)
        dec2 = _decide(c, mscores, [b[1] for b in bests], flags)
        if dec2[0] == "ok":
            s2, d2 = _returned(c, mscores, bests, dec2[1][1])
            model["rerun"] = {"scores": s2, "descs": d2, "n_models": k}
            if c.get("ensemble"):
                model["rerun"]["model_folds"] = list(range(1, k + 1))     # fed back in reversed order, returned in fold order
            model["_rerun_fallback"] = dec2[1][1] is not None
            _tag(c, "out:rerun-" + ("fallback" if dec2[1][1] is not None else "kept") + ("-mixed-flags" if len(set(flags)) > 1 else ""))
        else:
            model["rerun"] = {"error": dec2[1]}
        impl["rerun"] = obs["rerun"]
    # (b) end to end: assign_confidence on what brew returned
    if c.get("confidence"):
        finite = all(v is not None for s in obs["scores"] for v in s)
        distinct = all(len(set(s)) == len(s) for s in model["scores"])
        if finite and distinct:
            cf = c["confidence"]
            ce = _eff_case({"files": c["files"], "dedup": cf["dedup"], "rollup": cf["rollup"], "decoys": True, "prefixes": cf["prefixes"],
                            "chunks": {"confidence": cf["chunk"]} if cf.get("chunk") else {}, "levels": [], "ties": False},
                           [[float(v) for v in s] for s in model["scores"]], model["descs"])
            if "error" in (obs["conf"] or {}):
                model["conf"], impl["conf"] = "result files", obs["conf"]["error"]
            else:
                mm, ii = _conf_compare(ce, ("ok", obs["conf"]))
                model["conf"] = lib.jsonable({kk: [(x, y) for x, y in v] for kk, v in mm[1].items()})
                impl["conf"] = lib.jsonable({kk: [(x, y) for x, y in v] for kk, v in ii[1]["files"].items()})
                if obs["conf"]["leftovers"]:
                    impl["conf"]["leftovers"] = obs["conf"]["leftovers"]
                impl["_conf_raw"] = obs["conf"]
            _tag(c, "out:conf-e2e" + ("-desc-false" if not all(model["descs"]) else ""))
    return ("ok", model), ("ok", impl)


def _run_auto(c):
    """assign_confidence(scores=None): per collection the best feature (BrewDecision.v) ranked in its direction"""
    thr = Fraction(c["eval_fdr"])
    lines = []
    for fl in c["files"]:
        feats = [[int(v) for v in fl["data"][name]] for name in c["feats"]]
        lines.append("c07.best_feature %s %s %s" % (lib.q(thr), lib.lst(feats, lambda x: lib.lst(x)), lib.lst(fl["targets"], lib.b)))
    bests = []
    for line in lib.run_driver(lines):
        t = Toks(line)
        bests.append(t.opt(lambda: (t.nat(), t.nat(), t.b())))
    got = call_impl(_run_conf, c)
    if any(b is None for b in bests):
        return ("err", "RuntimeError"), got if got[0] == "err" else ("ok", {"note": "no error"})
    c["_auto"] = [[c["feats"][b[0]], b[2]] for b in bests]
    _tag(c, "auto-low" if not all(b[2] for b in bests) else "auto-high")
    scores = [[float(v) for v in fl["data"][c["feats"][b[0]]]] for fl, b in zip(c["files"], bests)]
    ce = _eff_case(c, scores, [b[2] for b in bests])
    return _conf_compare(ce, got)


def _ceff(c):
    if c["fn"] == "conf":
        return _eff_case(c, c["scores"], c["descs"])
    auto = c.get("_auto")
    if not auto:
        return None
    return _eff_case(c, [[float(v) for v in fl["data"][a[0]]] for fl, a in zip(c["files"], auto)], [a[1] for a in auto])


BREW_KEYS = ("best", "trained", "scores", "descs", "n_returned", "rerun", "conf", "brew_ens")


def same(c, m, i):
    if c["fn"] in ("conf", "conf_auto"):
        if m[0] == "err" or i[0] == "err":
            return m[0] == i[0] and m[1] == i[1]
        return c03.same(_ceff(c) or c, m, i)
    if m[0] != i[0]:
        return False
    if m[0] == "err":
        return m[1] == i[1]
    if m[0] != "ok" or "best" not in m[1] or "best" not in i[1]:
        return False
    if c["fn"] == "brew_svm":
        return m[1]["best"] == i[1]["best"] and i[1].get("net") is None
    return all(lib.jsonable(m[1].get(k)) == lib.jsonable(i[1].get(k)) for k in BREW_KEYS)


def nontrivial(c):
    tags = c.get("tags", [])
    if c["fn"] == "conf":
        return not all(c["descs"]) and c03.nontrivial(c)
    if c["fn"] == "conf_auto":
        return "auto-low" in tags and c03.nontrivial(c)
    return any(t in tags for t in ("out:fallback", "out:untrained", "out:desc-false", "out:rerun-fallback", "out:rerun-fallback-mixed-flags"))


# ----------------------------------------------------------------------------- the property itself
def _accepted(scores, targets, thr, desc=True):
    from .c01 import q_spec
    qs = q_spec(exact_ints(scores), targets, desc)
    return sum(1 for q, t in zip(qs, targets) if t and q <= thr)


def _net(c, scores, descs, best, what):
    """first sentence of the property on one (scores, descs) answer of brew"""
    thr = Fraction(c["test_fdr"])
    max_pass = max(b[1] for b in best)
    if len(scores) != len(c["files"]) or len(descs) != len(c["files"]):
        return f"{what}: {len(scores)} score vectors / {len(descs)} directions for {len(c['files'])} collections"
    acc = sum(_accepted(scores[j], fl["targets"], thr, descs[j]) for j, fl in enumerate(c["files"]))
    is_feature = any(isinstance(b[0], str) and b[0] in c["files"][0]["data"]
                     and all(scores[j] == _vals(c, fl, b[0]) for j, fl in enumerate(c["files"])) and list(descs) == [b[2]] * len(c["files"]) for b in best)
    if acc < max_pass and not is_feature:
        return (f"{what}: returned scores accept {acc} genuine targets at {c['test_fdr']}, the best feature accepted {max_pass} "
                f"during training, and the scores are not that feature with its direction")
    return None


def oracle(c, i):
    if c["fn"] in ("conf", "conf_auto"):
        ce = _ceff(c)
        if ce is None:
            return None
        if c["fn"] == "conf_auto" and i[0] == "ok":
            # the ranking clause, stated directly: the PSM files list the chosen feature best first, in ITS direction
            for fn, rows in i[1]["raw"]["files"].items():
                if not fn.endswith("targets.psms"):
                    continue
                for j, (name, d) in enumerate(c["_auto"]):
                    vals = [c["files"][j]["data"][name][c03._locate(r["id"])[1]] for r in rows if c03._locate(r["id"])[0] == j]
                    if any((a < b) if d else (a > b) for a, b in zip(vals, vals[1:])):
                        return (f"assign_confidence(scores=None): the best feature of collection {j} is {name}, "
                                f"{'higher' if d else 'lower'} is better (it accepts the most targets at {c['eval_fdr']} that way), "
                                f"but {fn} does not list {'high' if d else 'low'} values first")
        return c03.oracle(ce, i)
    if i[0] != "ok":
        if str(i[1]).startswith("RuntimeError") or i[1] in ("EmptyFold", "NonFiniteCalibration") or str(i[1]).startswith("ValueError"):
            return None       # explicit error: no feature / no target accepted at the FDR, one-class training set
        return f"brew failed instead of handing back the model scores or the best feature: {i[1]}"
    o = i[1]
    if c["fn"] == "brew_svm":
        return o.get("net")
    if "scores" not in o or any(v is None for s in o["scores"] for v in s):
        return None
    best = [b for b in o["best"] if b is not None]
    if not best:
        return None
    if not c["override"]:
        msg = _net(c, o["scores"], o["descs"], best, "brew")
        if msg:
            return msg
    r = o.get("rerun")
    if r and not all(_rerun_flags(c, [c["override"]] * c["folds"])):
        if "error" in r:
            return f"brew with the list of trained fold models failed: {r['error']}"
        if not any(v is None for s in r["scores"] for v in s):
            msg = _net(c, r["scores"], r["descs"], best, "brew with the list of trained fold models")
            if msg:
                return msg
    if isinstance(o.get("conf"), str):
        return f"assign_confidence failed on what brew returned: {o['conf']}"
    if o.get("_conf_raw") and c.get("confidence"):
        cf = c["confidence"]
        ce = _eff_case({"files": c["files"], "dedup": cf["dedup"], "rollup": cf["rollup"], "decoys": True, "prefixes": cf["prefixes"],
                        "chunks": {}, "levels": [], "ties": False, "fn": "conf"},
                       [[float(v) for v in s] for s in o["scores"]], o["descs"])
        msg = c03.oracle(ce, ("ok", {"raw": o["_conf_raw"]}))
        if msg:
            return "assign_confidence on what brew returned: " + msg
    return None


def finding_key(c, m, i):
    return None       # no open finding: F25 (scores=None drops the direction) and F26 (direction= breaks the fall-back) are repaired
