"""C09 — a run's results depend only on its inputs, not on leftovers; no intermediates remain.

Real mokapot.assign_confidence (and the CLI's PIN verify step) are run in directories that earlier runs —
completed, failed at an injected I/O error, or killed between two file operations — have left dirty; the
directory found before the observed run is parsed and handed to the extracted model (Model/Fs.v), whose
prediction of the result files and of the final listing is compared with what the real run produced.
Separately the model's operation list itself is validated: against the sequence of mutating file
operations of the real run, and, for every kill point k, against the directory a killed run leaves.
Runs outside the model (results to SQLite, collections of different formats, two protein collections, the whole
command line with --save_models, the stand-alone rollup tool) are checked with the property alone: the same run in a
clean directory gives the same result files, nothing else appears, nothing else changes (see RULE, reviews/C09.md)."""
import builtins
import itertools
import os
import shutil
import subprocess
import sys
import tempfile
import threading
from fractions import Fraction
from pathlib import Path

from .. import lib, brewlib
from ..lib import Toks, call_impl

PROP = "C09"
RULE = ("case kinds: dirty = 0-4 earlier runs (other tables, chunk sizes, prefixes, formats; or the observed run's own specification "
        "repeated with the same / another chunk size / other options; each completed, failed at an injected I/O error at operation k, "
        "or killed before operation k, with 1 or 3 workers) + synthetic leftovers (stale chunk / level / result files under the run's "
        "own names and at the index just past its last chunk, garbage, empty files, near misses of every name pattern "
        "(.bak / ~ / .tmp / leading zero / other case / no suffix / extra leading character), the same names under another file_root "
        "or another suffix, protein-level names, a sub-directory of such files) followed by the observed assign_confidence run, compared "
        "with the model's prediction from the parsed dirty directory (result rows with q-values, final listing, operation trace) and "
        "with the same run in a clean directory (result files byte for byte; no new file but result files; none of the run's "
        "chunk / level names left; every other file below dest_dir and the input files byte-identical). The observed and the earlier "
        "runs vary file_root ('' / 'r.' / 'exp.1.' / 'coll0.'), the input suffix (.pin / .tab / .csv / .parquet: it names chunk and "
        "level files), prefixes (collN and dotted / level-like ones), descs, append_to_output_file (see below), "
        "dest_dir absolute / relative to the working directory / '.', input files inside dest_dir, 1 or 3 workers; a sweep over every "
        "layout of 2 (all 9) and 3 (sample) collection prefixes, half of it under a file_root / other suffix / append. Protein level: "
        "one collection with decoys is modelled (also with prefix, file_root, .tab, relative dest_dir); two collections or "
        "decoys=False, results to SQLite (sqlite_path; database compared between dirty and clean run, no result file may stay), and "
        "collections of different formats in one call are checked with the property alone (model result 'not-modelled'). "
        "cli = mokapot.mokapot.main end to end (verify step, read_pin, brew, assign_confidence, --save_models; 1-3 PIN files some "
        "ragged with a leftover <pin>.tsv, --file_root, --aggregate, --keep_decoys, --skip_rollup, --max_workers, --dest_dir absolute / "
        "relative / default '.', PINs inside dest_dir or given relative) in a directory left by 0-2 earlier command lines (other or the "
        "same PIN names and options; completed / failed / killed) + leftovers under the names of its result files, model pickles, "
        "chunk and level files: property alone (result files and saved models as in a clean directory, models compared without "
        "scikit-learn's wall-clock timings; PINs as in the clean run; nothing else new, nothing else changed). "
        "rollup = mokapot.brew_rollup.main on the result files of a real run, destination (= or != source) holding temp.<level>s / "
        "result files of earlier rollups (completed / failed / killed), garbage and near misses: property alone (its temp files "
        "must be gone after a successful run: repaired in /repo, 2c987dd). "
        "append_to_output_file=True (guard run_oka of Proofs/FsAppendP.v; 12 % of the option-varied dirty cases, a quarter of the "
        "layout sweep, and the stream append-modes, which takes the hypotheses of the append-mode theorems one by one — with 1-3 "
        "collections, every prefix layout incl. one prefix used twice, every third group with a protein level — next to stale chunk / "
        "level files and result files of foreign names): rows = every own result file present with header and 0..n rows, empty = all "
        "present, header only, earlier-run = the result files are what a completed earlier run of the same tables with another chunk "
        "size / the other de-duplication setting left (these three: results_present, covered by C09_append_refines_effect(_proteins), "
        "C09_append_prefix, C09_append_from_empty_result_files), missing = one own result file absent (the run must succeed and create "
        "it without header: C09_run_refines_effect_any_directory, C09_append_succeeds_from_any_directory, C09_append_files). Model side: "
        "fs_run with fg_append = true on the parsed directory, as for every dirty case (the theorems say that this is run_effect_a / "
        "run_effect_p and file_after old own_rows). Property side: result file = bytes before the run + bytes the same call writes in an "
        "empty directory, and, when no prefix is used twice (pfx_distinct; C09_append_duplicate_prefix shows why), = bytes before the "
        "run + the rows (header line apart) the call WITHOUT appending writes in an empty directory; chunk / level files gone, every "
        "other file byte-identical (C09_append_no_intermediates, C09_append_untouched, C09_append_touches_own_result_files_only; "
        "C09_append_depends_only_on_result_files: the stale files around never matter). "
        "crash = one run killed before operation k for every k, directory compared with the model's exec_crash k; verify = the CLI's "
        "PIN verify step with / without a pre-existing <pin>.tsv (PINs of 1-6 PSMs, PINs without PSMs, and 2-3 PINs in one call with "
        "leftovers next to some, names with dots / blanks, paths relative to the working directory; streams verify-longer(-multi): the "
        "leftover is LONGER than the conversion of the present PIN — the conversion of a larger earlier export of the same PIN, "
        "of which the present one keeps the first n rows (tail at a line boundary) or a subset (tail anywhere), with / without final "
        "newline, the earlier export unconverted, the right conversion + rows / one byte / blank lines, garbage with and without "
        "line breaks, newlines only, > 70 kB, the conversion of a wider table — and its neighbours: as long as the conversion, the "
        "conversion itself, one byte shorter; PINs whose conversion exceeds 8 KiB; run-time tags leftover>conv / =conv / <conv, "
        "tail-line-aligned / tail-mid-line); cli-longer = the whole command line next to such a leftover, written directly or "
        "left by an earlier command line on the larger export (PINs in dest_dir) killed before the move; strace = system-call trace of a "
        "real subprocess run against the Python-level tap, hard kill with os._exit. "
        "distinct = distinct case; non-trivial (decided when the case is run, tags overlap / no-overlap) = the directory found by the "
        "observed run holds a file under one of the names the run writes, removes or could glob (verify: a leftover <pin>.tsv)")
ASSUMPTIONS = [
    "file operations are atomic at the granularity of one create / append / unlink / rename call (torn appends are covered by the theorem's quantification over all directories, not by the correspondence runs; a Parquet level file whose writer was open at a hard kill is compared by existence only)",
    "the tap sees every mutating file operation of mokapot (cross-checked against strace on real subprocess runs when ptrace is permitted)",
    "PEP estimation is replaced by a constant during these runs (oracle of C06)",
    "the input files live outside the destination directory or have names that are none of the run's own (in<k><suffix>, <stem>.pin with a stem that is not a level name): an input called psms.pin inside dest_dir is overwritten by the level file of that name — not a matter of leftovers, see reviews/C09.md",
    "leftovers are regular files (no directories, symbolic links or unwritable files under the run's own names); the checks run as root, so permissions are not exercised",
    "append_to_output_file=True: the result files the caller prepared are inputs of the run, not leftovers (theorems C09_append_*: the results depend on the directory through them only); a prepared result file carries the header of the observed run's own option set (a header of other columns would make the appended rows unreadable as a table — for the harness' parser, not for mokapot)",
]
TRUSTED_EXTRA = ["POSIX semantics of open(O_TRUNC) / open(O_APPEND) / unlink / rename (oracle)",
                 "pandas / pyarrow readers and writers of intermediate and result files (oracle)"]

LEVEL_COLS = ["ModifiedPeptide", "Precursor", "PeptideGroup"]
SPEC_COLS = ("filename", "ScanNr", "ret_time", "ExpMass")
TEXT_EXTS = (".pin", ".tab", ".csv")          # suffixes mokapot reads and writes as tab-separated text
ROOTS = ["", "", "", "r.", "exp.1.", "coll0."]  # file_root values (the CLI passes "<--file_root>.")
EXTRA_PFX = ["a.b", "b", "psms", "X.targets", "run-1", "a", "sample.1", "run_2"]   # prefixes other than collN (the CLI uses file stems)


# ============================================================================ tap on mutating I/O
class KillSim(BaseException):
    """the process is 'killed': raised at the kill point; afterwards every mutating call is a no-op"""


class Injected(RuntimeError):
    """an ordinary I/O failure: the code's own error handling runs with working I/O"""


class IoTap:
    _tl = threading.local()

    def __init__(self, root, kill_at=None, fail_at=None, exit_at=None):
        self.root = os.path.realpath(str(root))
        self.kill_at, self.fail_at, self.exit_at = kill_at, fail_at, exit_at
        self.killed = False
        self.count = 0
        self.trace = []
        self.lock = threading.Lock()
        self.saved = []

    # -- helpers
    def _rel(self, p):
        try:
            p = os.fspath(p)
        except TypeError:
            return None
        if isinstance(p, bytes):
            p = p.decode()
        rp = os.path.realpath(p)
        if rp.startswith(self.root + os.sep):
            return rp[len(self.root) + 1:]
        return None

    def _nested(self):
        return getattr(self._tl, "depth", 0) > 0

    def _gate(self, kind, rel, rel2=None):
        """called before a mutating operation on a file under root; returns False if the
        operation must be skipped (process already 'dead')"""
        with self.lock:
            if self.killed:
                return False
            if self.kill_at is not None and self.count == self.kill_at:
                self.killed = True
                raise KillSim()
            if self.exit_at is not None and self.count == self.exit_at:
                os._exit(137)
            if self.fail_at is not None and self.count == self.fail_at:
                self.fail_at = None
                self.count += 1          # the failing call counts as an operation that did nothing
                self.trace.append(("fail", rel))
                raise Injected("injected I/O failure")
            self.count += 1
            self.trace.append((kind, rel) if rel2 is None else (kind, rel, rel2))
            return True

    def _wrap(self, owner, name, make):
        orig = getattr(owner, name)
        self.saved.append((owner, name, orig))
        setattr(owner, name, make(orig))

    def _call(self, orig, *a, **k):
        self._tl.depth = getattr(self._tl, "depth", 0) + 1
        try:
            return orig(*a, **k)
        finally:
            self._tl.depth -= 1

    def __enter__(self):
        import pandas as pd
        import pyarrow.parquet as pq
        import pathlib
        tap = self

        def mk_to_csv(orig):
            def to_csv(df, path_or_buf=None, *a, **k):
                rel = None if tap._nested() else tap._rel(path_or_buf) if path_or_buf is not None else None
                if rel is None:
                    return tap._call(orig, df, path_or_buf, *a, **k)
                kind = "append" if "a" in k.get("mode", "w") else "write"
                if not tap._gate(kind, rel):
                    return None
                return tap._call(orig, df, path_or_buf, *a, **k)
            return to_csv

        def mk_to_parquet(orig):
            def to_parquet(df, path=None, *a, **k):
                rel = None if tap._nested() else tap._rel(path) if path is not None else None
                if rel is None:
                    return tap._call(orig, df, path, *a, **k)
                if not tap._gate("write", rel):
                    return None
                return tap._call(orig, df, path, *a, **k)
            return to_parquet

        def mk_pw_init(orig):
            def __init__(w, where, *a, **k):
                rel = None if tap._nested() else tap._rel(where)
                w._c09_rel = rel
                w._c09_dead = False
                if rel is None:
                    return tap._call(orig, w, where, *a, **k)
                if not tap._gate("write", rel):
                    w._c09_dead = True
                    return None
                return tap._call(orig, w, where, *a, **k)
            return __init__

        def mk_pw_write(orig):
            def write_table(w, *a, **k):
                rel = getattr(w, "_c09_rel", None)
                if rel is None or tap._nested():
                    return tap._call(orig, w, *a, **k)
                if getattr(w, "_c09_dead", False) or not tap._gate("append", rel):
                    return None
                return tap._call(orig, w, *a, **k)
            return write_table

        def mk_pw_close(orig):
            def close(w, *a, **k):
                if getattr(w, "_c09_rel", None) is not None and (tap.killed or getattr(w, "_c09_dead", False)):
                    return None
                return tap._call(orig, w, *a, **k)
            return close

        def mk_unlink1(orig):          # os.unlink / os.remove / Path.unlink
            def unlink(p, *a, **k):
                rel = None if tap._nested() else tap._rel(p)
                if rel is None:
                    return tap._call(orig, p, *a, **k)
                if not tap._gate("unlink", rel):
                    return None
                return tap._call(orig, p, *a, **k)
            return unlink

        def mk_move(orig):
            def move(src, dst, *a, **k):
                r1 = None if tap._nested() else tap._rel(src)
                r2 = None if tap._nested() else tap._rel(dst)
                if r1 is None and r2 is None:
                    return tap._call(orig, src, dst, *a, **k)
                if not tap._gate("move", r1, r2):
                    return None
                return tap._call(orig, src, dst, *a, **k)
            return move

        def mk_open(orig):
            def open_(file, mode="r", *a, **k):
                if tap._nested() or not isinstance(mode, str) or not any(c in mode for c in "wax+"):
                    return orig(file, mode, *a, **k)
                rel = tap._rel(file) if not isinstance(file, int) else None
                if rel is None:
                    return orig(file, mode, *a, **k)
                kind = "append" if "a" in mode else "write"
                if not tap._gate(kind, rel):
                    return orig(os.devnull, mode, *a, **k)
                return orig(file, mode, *a, **k)
            return open_

        self._wrap(pd.DataFrame, "to_csv", mk_to_csv)
        self._wrap(pd.DataFrame, "to_parquet", mk_to_parquet)
        self._wrap(pq.ParquetWriter, "__init__", mk_pw_init)
        self._wrap(pq.ParquetWriter, "write_table", mk_pw_write)
        self._wrap(pq.ParquetWriter, "close", mk_pw_close)
        self._wrap(os, "unlink", mk_unlink1)
        self._wrap(os, "remove", mk_unlink1)
        self._wrap(pathlib.Path, "unlink", mk_unlink1)
        self._wrap(shutil, "move", mk_move)
        self._wrap(os, "rename", mk_move)
        self._wrap(os, "replace", mk_move)
        self._wrap(builtins, "open", mk_open)
        return self

    def __exit__(self, *a):
        for owner, name, orig in reversed(self.saved):
            setattr(owner, name, orig)
        self.saved = []
        return False


class _Tapped:
    """the tap around a run; when the run is left by an exception (kill point, injected failure) while worker threads of
    the run are still busy, the tap — and the working directory — stay as they are until those threads are gone: a killed
    process has no thread that goes on writing"""

    def __init__(self, tap):
        self.tap = tap

    def __enter__(self):
        self.n0 = threading.active_count()
        self.tap.__enter__()
        return self.tap

    def __exit__(self, *a):
        import time
        t_end = time.time() + 10
        while threading.active_count() > self.n0 and time.time() < t_end:
            time.sleep(0.005)
        return self.tap.__exit__(*a)


# ============================================================================ generation
def _gen_run(rng, run_idx, thorough, observed=False, vary=True):
    ncoll = rng.choice([1, 1, 2, 3]) if observed else rng.choice([1, 1, 2])
    nkey = rng.choice([1, 2, 4])
    levels = [l for l in LEVEL_COLS if rng.random() < 0.25]
    files, scores = [], []
    for j in range(ncoll):
        n = rng.randint(4, 40 if thorough else 24)
        f = brewlib.gen_file(rng, n, nkey, file_idx=run_idx * 10 + j, mult=(1, rng.choice([1, 3])), levels=levels,
                             npep=rng.choice([2, max(2, n // 3), n]), label_enc=rng.choice(["pm1", "01"]))
        files.append(f)
        scores.append([float(v) for v in rng.sample(range(-n, 3 * n), n)])
    nmax = max(len(f["targets"]) for f in files)
    layout = rng.choice(["none", "none", "all", "mixed", "dup"]) if ncoll > 1 else rng.choice(["none", "none", "all"])
    if layout == "none":
        prefixes = [None] * ncoll
    elif layout == "all":
        prefixes = ["coll%d" % j for j in range(ncoll)]
    elif layout == "dup":
        prefixes = ["coll0"] * ncoll
    else:
        prefixes = [None if (j % 2 == 0) else "coll%d" % j for j in range(ncoll)]
        if rng.random() < 0.5:
            prefixes = prefixes[::-1]
    spec = {"files": files, "scores": scores, "levels": levels, "nkey": nkey,
            "chunk": max(1, rng.choice([1, 2, 3, 5, nmax - 1, nmax, nmax + 1, 1000] + [d for d in range(2, nmax + 1) if nmax % d == 0])),
            "dedup": rng.random() < 0.6, "rollup": rng.random() < 0.7, "decoys": rng.random() < 0.6,
            "prefixes": prefixes, "fmt": rng.choice(["tsv", "tsv", "tsv", "parquet"]), "workers": 1,
            "end": "complete"}
    if vary:
        _vary_options(rng, spec)
    return spec


def _vary_options(rng, spec, append_ok=True):
    """the options and call circumstances a user can vary and that file NAMES or file handling depend on: file_root, the
    suffix of the input files (it becomes the suffix of the chunk and level files), prefixes that are not of the form
    collN (dotted, equal to a level name, ...), append_to_output_file, descs, the working directory relative to which
    dest_dir is given, input files that live in dest_dir.  A separate PRNG stream so that the tables stay what they were"""
    r = rng
    spec["root"] = r.choice(ROOTS)
    spec["ext"] = ".parquet" if spec["fmt"] == "parquet" else r.choice([".pin", ".pin", ".tab", ".csv"])
    if r.random() < 0.5:
        pool = r.sample(EXTRA_PFX[:5], 3)
        spec["prefixes"] = [None if p is None else pool[_pfx_code(p) % 3] for p in spec["prefixes"]]
    spec["append"] = append_ok and r.random() < 0.12
    spec["descs"] = [r.random() < 0.8 for _ in spec["files"]]
    spec["cwd"] = r.choice(["abs", "abs", "rel", "dot"])
    spec["in_dest"] = r.random() < 0.15
    return spec


def _plain(spec):
    """the circumstances of the crash / strace sweeps: absolute dest_dir, no appending to old result files"""
    spec["append"] = False
    spec["cwd"] = "abs"
    spec["in_dest"] = False
    return spec


def _gen_prot_run(rng, run_idx, vary=False):
    """one collection whose peptides come from a generated FASTA (protein level on)"""
    from . import c15
    fasta, tp, dp = c15.gen_fasta(rng, "mirror", wide=True)
    P = c15._proteins({"fasta": fasta, "fasta_args": dict(c15.FASTA_ARGS)})
    allp = list(P.peptide_map.items()) + list(P.shared_peptides.items())
    tpeps = sorted(p for p, g in allp if not g.startswith("decoy_"))
    dpeps = sorted(p for p, g in allp if g.startswith("decoy_"))
    n = rng.randint(12, 40)
    f = brewlib.gen_file(rng, n, 2, file_idx=run_idx * 10, mult=(1, 2))
    f["data"]["Peptide"] = ["K." + rng.choice(tpeps if t else dpeps) + ".A" for t in f["targets"]]
    spec = {"files": [f], "scores": [[float(v) for v in rng.sample(range(-n, 3 * n), n)]], "levels": [], "nkey": 2,
            "chunk": max(1, rng.choice([1, 2, 3, 5, n - 1, n, n + 1, 1000])), "dedup": rng.random() < 0.6, "rollup": True,
            "decoys": True, "prefixes": [None], "fmt": "tsv", "workers": 1, "end": "complete", "fasta": fasta}
    if vary:
        spec["root"] = rng.choice(ROOTS)
        spec["ext"] = rng.choice([".pin", ".tab"])
        spec["prefixes"] = [rng.choice([None, "coll0", "a.b"])]
        spec["cwd"] = rng.choice(["abs", "rel", "dot"])
        kind = rng.choice(["one", "one", "two", "nodecoys"])
        if kind == "nodecoys":
            spec["decoys"] = False          # no decoys.proteins: the oracle of the protein rows is incomplete -> property only
        elif kind == "two":
            # a second collection over the same FASTA (own PSM ids, own prefix or shared un-prefixed files): property only
            n2 = rng.randint(8, 24)
            f2 = brewlib.gen_file(rng, n2, 2, file_idx=run_idx * 10 + 1, mult=(1, 2))
            f2["data"]["Peptide"] = ["K." + rng.choice(tpeps if t else dpeps) + ".A" for t in f2["targets"]]
            spec["files"].append(f2)
            spec["scores"].append([float(v) for v in rng.sample(range(-n2, 3 * n2), n2)])
            spec["prefixes"].append(rng.choice([None, "coll1", spec["prefixes"][0]]))
    return spec


JUNK_KINDS_NEW = ["near-chunk", "near-level", "near-result", "other-root", "other-ext", "empty-own", "garbage-result", "subdir",
                  "prot-names"]


def _more_junk(rng, obs, k):
    """leftovers next to the names of the run: near misses of every name pattern, the same names under another file_root or
    suffix, empty / garbage files under the run's own names, a sub-directory holding chunk- and result-like files"""
    out = []
    for _ in range(k):
        j = rng.randrange(len(obs["files"]))
        out.append({"kind": rng.choice(JUNK_KINDS_NEW), "index": rng.choice([0, 0, 1, 2, 7]), "pfx": rng.choice([None, obs["prefixes"][j]]),
                    "seed": rng.randint(0, 10 ** 6), "variant": rng.randint(0, 50)})
    return out


def _rerun(rng, obs):
    """an earlier run with the observed run's own specification (the user repeats a run that was interrupted / that
    completed), possibly with another chunk size or option set"""
    import copy
    r = copy.deepcopy(obs)
    r["workers"] = rng.choice([1, 1, 3])
    mode = rng.choice(["kill", "kill", "fail", "complete"])
    r["end"] = mode if mode == "complete" else [mode, rng.randint(0, 60)]
    what = rng.choice(["same", "same", "chunk", "options"])
    if what == "chunk":
        r["chunk"] = max(1, rng.choice([1, 2, 3, obs["chunk"] + 1, obs["chunk"] - 1]))
    elif what == "options":
        r["decoys"] = True
        r["rollup"] = True
        r["dedup"] = not obs["dedup"]
    r["append"] = False
    return r


def _earlier_complete(rng, obs):
    """a completed earlier run of the observed run's own tables and names WITHOUT appending, with another chunk size and the
    other de-duplication setting (decoys on: its result files are a superset of the observed run's): what it leaves is what
    an append-mode run then appends to"""
    import copy
    r = copy.deepcopy(obs)
    r["append"] = False
    r["workers"] = rng.choice([1, 1, 3])
    r["end"] = "complete"
    r["chunk"] = max(1, rng.choice([1, 2, 3, obs["chunk"] + 1, obs["chunk"] - 1]))
    if not obs.get("fasta"):
        r["dedup"] = not obs["dedup"]
    r["decoys"] = True
    return r


def gen(ctx):
    cases = []
    # ---- protein level on: the picked-protein step reads the peptide-level file and writes a protein-level file
    rng = ctx.sub("proteins")
    for k in range(30 if ctx.thorough else 8):
        obs = _gen_prot_run(rng, 8)
        runs = []
        if k % 2:
            r = _gen_prot_run(rng, 1)
            r["end"] = [rng.choice(["kill", "fail"]), rng.randint(5, 60)]
            runs.append(r)
        junk = [{"kind": rng.choice(["level", "own-result", "chunk"]), "index": rng.randint(0, 50), "pfx": None, "seed": rng.randint(0, 10 ** 6)}
                for _ in range(rng.choice([1, 2, 3]))]
        cases.append({"fn": "dirty", "runs": runs, "observed": obs, "junk": junk,
                      "tags": ["dirty", "proteins", "earlier=%d" % len(runs), "junk=%d" % len(junk)]})
    # ---- protein level with a prefix / file_root / other suffix / relative dest_dir; two collections or decoys=False are
    #      checked with the property alone (dirty vs clean, nothing left)
    rng = ctx.sub("proteins2")
    for k in range(45 if ctx.thorough else 9):
        obs = _gen_prot_run(rng, 8, vary=True)
        runs = []
        if k % 3 == 1:
            r = _gen_prot_run(rng, 1, vary=True)
            r["root"], r["ext"] = obs["root"], obs["ext"]
            r["end"] = [rng.choice(["kill", "fail"]), rng.randint(5, 60)]
            runs.append(r)
        elif k % 3 == 2:
            runs.append(_rerun(rng, obs))
        junk = [{"kind": rng.choice(["level", "own-result", "chunk", "prot-names", "empty-own"]), "index": rng.randint(0, 50),
                 "pfx": rng.choice([None, obs["prefixes"][0]]), "seed": rng.randint(0, 10 ** 6), "variant": rng.randint(0, 50)}
                for _ in range(rng.choice([1, 2, 3]))]
        junk.append({"kind": "own-result", "index": rng.randint(0, 50), "pfx": None, "seed": rng.randint(0, 10 ** 6)})
        cases.append({"fn": "dirty", "runs": runs, "observed": obs, "junk": junk,
                      "tags": ["dirty", "proteins", "proteins-varied", "earlier=%d" % len(runs), "junk=%d" % len(junk),
                               "root=" + (obs["root"] or "-"), "ext=" + obs["ext"], "ncoll=%d" % len(obs["files"]),
                               "decoys=%s" % obs["decoys"], "cwd=" + obs["cwd"]]})
    rng = ctx.sub("dirty")
    rng2 = ctx.sub("dirty-options")
    n_dirty = 220 if ctx.thorough else 40
    for k in range(n_dirty):
        n_earlier = rng.choice([0, 1, 1, 2, 3]) if k % 7 else 0
        runs = []
        for r in range(n_earlier):
            spec = _gen_run(rng, r, ctx.thorough, vary=False)
            mode = rng.choice(["kill", "kill", "fail", "fail", "complete"])
            spec["end"] = mode if mode == "complete" else [mode, rng.randint(0, 60)]
            runs.append(spec)
        obs = _gen_run(rng, 8, ctx.thorough, observed=True, vary=False)
        obs["workers"] = rng.choice([1, 1, 3])
        if runs and rng.random() < 0.7:
            # leftovers are most dangerous when the earlier run used the same naming
            obs["fmt"] = runs[-1]["fmt"]
        # every second case keeps the plain circumstances (file_root "", .pin / .parquet, collN prefixes, absolute dest_dir);
        # the others vary them, the earlier runs mostly sharing file_root and suffix with the observed run
        if k % 2:
            _vary_options(rng2, obs)
            for r in runs:
                _vary_options(rng2, r, append_ok=False)
                r["workers"] = rng2.choice([1, 1, 3])
                if rng2.random() < 0.7:
                    r["root"] = obs["root"]
                    if r["fmt"] == obs["fmt"]:
                        r["ext"] = obs["ext"]
            if rng2.random() < 0.4:
                runs.append(_rerun(rng2, obs))
        junk = []
        for _ in range(rng.choice([0, 1, 2, 3])):
            junk.append({"kind": rng.choice(["chunk", "chunk", "level", "result", "garbage-chunk", "other"]),
                         "index": rng.choice([0, 1, 2, 5, 17]), "pfx": rng.choice([None, None, "coll0", "coll1"]),
                         "seed": rng.randint(0, 10 ** 6)})
        if rng.random() < 0.6:
            # a stale chunk file whose index is just past (or at) the last chunk the observed run writes
            j = rng.randrange(len(obs["files"]))
            nrows = len(obs["files"][j]["targets"])
            junk.append({"kind": rng.choice(["chunk", "chunk", "garbage-chunk"]), "index": max(0, -(-nrows // obs["chunk"]) + rng.choice([0, 0, -1, 1])),
                         "pfx": obs["prefixes"][j], "seed": rng.randint(0, 10 ** 6)})
        if rng.random() < 0.6:
            # an old result file under exactly a name the observed run will write
            junk.append({"kind": "own-result", "index": rng.randint(0, 50), "pfx": None, "seed": rng.randint(0, 10 ** 6)})
        junk += _more_junk(rng2, obs, rng2.choice([0, 1, 2, 3]))
        if obs.get("append"):
            junk.append({"kind": "append-base", "index": 0, "pfx": None, "seed": rng2.randint(0, 10 ** 6)})
        cases.append({"fn": "dirty", "runs": runs, "observed": obs, "junk": junk,
                      "tags": ["dirty", "earlier=%d" % len(runs), "junk=%d" % len(junk), "fmt=" + obs["fmt"],
                               "prefix-layout=" + ("none" if not any(obs["prefixes"]) else "all" if all(obs["prefixes"]) else "mixed")]
                              + ["end=" + (r["end"] if isinstance(r["end"], str) else r["end"][0]) for r in runs]
                              + _option_tags(obs) + sorted(set("junk:" + j["kind"] for j in junk))})
    # ---- every layout of collection prefixes (2 collections: all 9; 3 collections: a sample), small tables, with an old
    #      result file under a name the run writes
    rng = ctx.sub("layouts")
    rng2 = ctx.sub("layouts-options")
    lay2 = list(itertools.product([None, "coll0", "coll1"], repeat=2))
    lay3 = list(itertools.product([None, "coll0", "coll1"], repeat=3))
    rng.shuffle(lay3)
    for li, layout in enumerate(lay2 + lay3[: (27 if ctx.thorough else 7)]):
        obs = _gen_run(rng, 8, False, observed=True, vary=False)
        while len(obs["files"]) < len(layout):
            extra = _gen_run(rng, 8, False, observed=True, vary=False)
            j = len(obs["files"])
            f = brewlib.gen_file(rng, rng.randint(3, 10), obs["nkey"], file_idx=80 + j, levels=obs["levels"])
            obs["files"].append(f)
            obs["scores"].append([float(v) for v in rng.sample(range(-20, 60), len(f["targets"]))])
        obs["files"] = obs["files"][: len(layout)]
        obs["scores"] = obs["scores"][: len(layout)]
        for j, f in enumerate(obs["files"]):
            # distinct PSM ids per collection
            f["data"]["SpecId"] = ["f%d_psm%d" % (80 + j, i) for i in range(len(f["targets"]))]
            f["data"]["rid"] = [(80 + j) * 100000 + i for i in range(len(f["targets"]))]
        obs["prefixes"] = list(layout)
        obs["fmt"] = "tsv"
        junk = [{"kind": "own-result", "index": rng.randint(0, 50), "pfx": None, "seed": rng.randint(0, 10 ** 6)} for _ in range(2)]
        if li % 2:
            # the same sweep under a file_root / another suffix / append_to_output_file
            obs["root"] = rng2.choice(ROOTS[3:])
            obs["ext"] = rng2.choice([".pin", ".tab", ".csv"])
            obs["descs"] = [rng2.random() < 0.7 for _ in obs["files"]]
            if li % 4 == 3:
                obs["append"] = True
                junk.append({"kind": "append-base", "index": 0, "pfx": None, "seed": rng2.randint(0, 10 ** 6)})
                junk.insert(0, {"kind": "level", "index": 0, "pfx": None, "seed": rng2.randint(0, 10 ** 6)})
        cases.append({"fn": "dirty", "runs": [], "observed": obs, "junk": junk,
                      "tags": ["dirty", "layout-sweep", "layout=" + "/".join(str(x) for x in layout)] + _option_tags(obs)})
    # ---- results go to an SQLite database (sqlite_path): result files are removed again, nothing else may remain
    rng = ctx.sub("sqlite")
    for k in range(30 if ctx.thorough else 6):
        obs = _gen_run(rng, 8, False, observed=True)
        obs["append"] = False
        obs["sqlite"] = True
        obs["levels"] = [l for l in obs["levels"]]
        runs = []
        if k % 2:
            r = _gen_run(rng, 1, False)
            r["root"], r["append"] = obs["root"], False
            mode = rng.choice(["kill", "fail", "complete"])
            r["end"] = mode if mode == "complete" else [mode, rng.randint(0, 40)]
            runs.append(r)
        junk = [{"kind": rng.choice(["chunk", "level", "own-result", "near-level", "empty-own"]), "index": rng.choice([0, 1, 2, 5]),
                 "pfx": rng.choice([None, obs["prefixes"][0]]), "seed": rng.randint(0, 10 ** 6), "variant": rng.randint(0, 50)}
                for _ in range(rng.choice([1, 2, 3]))]
        cases.append({"fn": "dirty", "runs": runs, "observed": obs, "junk": junk,
                      "tags": ["dirty", "sqlite", "earlier=%d" % len(runs), "junk=%d" % len(junk)] + _option_tags(obs)})
    # ---- collections of different formats in one call (text first: the level files are text, the chunk files of the
    #      second collection Parquet): property only
    rng = ctx.sub("mixed-formats")
    for k in range(16 if ctx.thorough else 3):
        obs = _gen_run(rng, 8, False, observed=True)
        while len(obs["files"]) < 2:
            obs = _gen_run(rng, 8, False, observed=True)
        obs["fmt"] = "tsv"
        obs["ext"] = rng.choice([".pin", ".tab"])
        obs["exts"] = [obs["ext"]] + [rng.choice([".parquet", ".parquet", obs["ext"]]) for _ in obs["files"][1:]]
        if ".parquet" not in obs["exts"]:
            obs["exts"][-1] = ".parquet"
        obs["append"] = False
        junk = [{"kind": rng.choice(["chunk", "level", "own-result"]), "index": rng.choice([0, 1, 2]),
                 "pfx": rng.choice([None] + obs["prefixes"]), "seed": rng.randint(0, 10 ** 6)} for _ in range(3)]
        junk.append({"kind": "chunk-ext", "index": rng.choice([0, 1]), "pfx": obs["prefixes"][1], "seed": rng.randint(0, 10 ** 6), "ext": ".parquet"})
        cases.append({"fn": "dirty", "runs": [], "observed": obs, "junk": junk,
                      "tags": ["dirty", "mixed-formats", "junk=%d" % len(junk)] + _option_tags(obs)})
    # ---- tiny tables (1-3 PSMs per collection; only targets / only decoys): every chunk / batch / level file is a border case
    rng = ctx.sub("small-tables")
    for k in range(36 if ctx.thorough else 8):
        obs = _gen_run(rng, 8, False, observed=True)
        kinds = []
        for j, f in enumerate(obs["files"]):
            n = rng.randint(1, 3)
            for col in f["data"]:
                f["data"][col] = f["data"][col][:n]
            mode = rng.choice(["as-is", "as-is", "all-target", "all-decoy"])
            tg = f["targets"][:n] if mode == "as-is" else [mode == "all-target"] * n
            f["targets"] = tg
            f["data"]["Label"] = [1 if t else -1 for t in tg]
            obs["scores"][j] = obs["scores"][j][:n]
            kinds.append(mode)
        obs["chunk"] = rng.choice([1, 2, 3, 1000])
        junk = [{"kind": rng.choice(["chunk", "level", "own-result", "empty-own", "garbage-result"]), "index": rng.choice([0, 1, 2, 3]),
                 "pfx": rng.choice([None] + obs["prefixes"]), "seed": rng.randint(0, 10 ** 6), "variant": rng.randint(0, 50)}
                for _ in range(rng.choice([1, 2, 3]))]
        if obs.get("append"):
            junk.append({"kind": "append-base", "index": 0, "pfx": None, "seed": rng.randint(0, 10 ** 6)})
        cases.append({"fn": "dirty", "runs": [_rerun(rng, obs)] if k % 3 == 0 else [], "observed": obs, "junk": junk,
                      "tags": ["dirty", "small-tables", "junk=%d" % len(junk)] + sorted(set("rows:" + x for x in kinds)) + _option_tags(obs)})
    # ---- append_to_output_file=True, the hypotheses of the append-mode theorems (Props/C09.v, C09_append_*) one by one:
    #      rows = every own result file present, holding 0..n rows; empty = all present, header only; missing = one of them
    #      absent; earlier-run = they are what a completed earlier run of the same tables with another chunk size and the
    #      other de-duplication setting left.  Every third group with a protein level
    rng = ctx.sub("append-modes")
    modes = ["rows", "empty", "missing", "earlier-run"]
    for k in range(48 if ctx.thorough else 12):
        mode = modes[k % 4]
        prot = (k // 4) % 3 == 2
        if prot:
            obs = _gen_prot_run(rng, 8, vary=True)
            while len(obs["files"]) > 1 or not obs["decoys"]:
                obs = _gen_prot_run(rng, 8, vary=True)
        else:
            obs = _gen_run(rng, 8, False, observed=True)
        obs["append"] = True
        obs["workers"] = 1
        runs = []
        junk = [{"kind": rng.choice(["chunk", "level", "near-result", "other-root", "result"]), "index": rng.choice([0, 1, 2, 5]),
                 "pfx": rng.choice([None] + obs["prefixes"]), "seed": rng.randint(0, 10 ** 6), "variant": rng.randint(0, 50)}
                for _ in range(rng.choice([1, 2, 3]))]
        if mode == "earlier-run":
            junk = [j for j in junk if j["kind"] != "result"]
            runs.append(_earlier_complete(rng, obs))
        else:
            junk.append({"kind": "append-base", "mode": mode, "index": 0, "pfx": None, "seed": rng.randint(0, 10 ** 6),
                         "variant": rng.randint(0, 50)})
        cases.append({"fn": "dirty", "runs": runs, "observed": obs, "junk": junk,
                      "tags": ["dirty", "append-modes", "append:" + mode, "junk=%d" % len(junk),
                               "ncoll=%d" % len(obs["files"]), "pfx-distinct=%s" % _pfx_distinct(obs)]
                              + (["proteins"] if prot else []) + _option_tags(obs)})
    # ---- kill points of one run, every k
    rng = ctx.sub("crash")
    for k in range(10 if ctx.thorough else 3):
        spec = _plain(_gen_run(rng, 8, False, observed=True))
        spec["fmt"] = "tsv"
        if spec["ext"] == ".parquet":
            spec["ext"] = ".pin"
        if k == 0:
            spec["chunk"] = 2
        cases.append({"fn": "crash", "observed": spec, "tags": ["crash-sweep"] + _option_tags(spec)})
    # ---- the CLI's verify step
    rng = ctx.sub("verify")
    for k in range(60 if ctx.thorough else 16):
        nrow = rng.randint(1, 6)
        nfeat = rng.randint(0, 3)
        ragged = rng.random() < 0.75
        dd = rng.random() < 0.3
        txt, header = _gen_pin_text(rng, nrow, nfeat, ragged, dd)
        left = rng.choice([None, None, "LEFTOVER\tJUNK\n", "\t".join(header) + "\nold\t1\t7\n", ""])
        cases.append({"fn": "verify", "pin": txt, "leftover": left,
                      "tags": ["verify", "ragged" if ragged else "rectangular", "dd" if dd else "nodd",
                               "leftover" if left is not None else "no-leftover"]})
    # PINs without any PSM (valid / converted to the header since /repo acb0557): header only is left alone (a leftover
    # <pin>.tsv stays), header + DefaultDirection line is replaced by the header line; the same in both tiers
    for nfeat, dd, fnl in itertools.product((0, 2), (False, True), (True, False)):
        header = ["SpecId", "Label", "ScanNr"] + ["f%d" % i for i in range(nfeat)] + ["Peptide", "Proteins"]
        lines = ["\t".join(header)]
        if dd:
            lines.append("\t".join(["DefaultDirection", "-", "-"] + ["1"] * nfeat + ["-", "-"]))
        txt = "\n".join(lines) + ("\n" if fnl else "")
        for left in (None, "LEFTOVER\tJUNK\n", ""):
            cases.append({"fn": "verify", "pin": txt, "leftover": left,
                          "tags": ["verify", "zero-psm", "rectangular", "dd" if dd else "nodd",
                                   "leftover" if left is not None else "no-leftover"]})
    # several PIN files in one call (ragged and rectangular ones mixed, leftovers next to some of them, file names given
    # relative to the working directory, names with dots / spaces, a leftover that is a complete older conversion)
    rng = ctx.sub("verify-multi")
    for k in range(30 if ctx.thorough else 10):
        npin = rng.choice([2, 2, 3])
        names = rng.sample(["x.pin", "y.pin", "sample.1.pin", "b c.pin", "x.pin.pin", "z.tab"], npin)
        pins = []
        for nm in names:
            ragged = rng.random() < 0.6
            txt, header = _gen_pin_text(rng, rng.randint(1, 5), rng.randint(0, 2), ragged, rng.random() < 0.3)
            old, _ = _gen_pin_text(rng, rng.randint(1, 4), rng.randint(0, 2), False, False)
            left = rng.choice([None, "LEFTOVER\tJUNK\n", old, old.rstrip("\n"), ""])
            pins.append({"name": nm, "pin": txt, "leftover": left})
        cases.append({"fn": "verify", "pins": pins, "rel": rng.random() < 0.5,
                      "tags": ["verify", "multi-pin", "npin=%d" % npin,
                               "leftover" if any(p["leftover"] is not None for p in pins) else "no-leftover"]})
    # ---- the whole command line (verify step, read_pin, brew, assign_confidence, --save_models) in a dirty directory
    rng = ctx.sub("cli")
    for k in range(90 if ctx.thorough else 16):
        cases.append(_gen_cli(rng, k))
    # ---- the stand-alone rollup tool in a destination directory that holds temp.<level>s / result files of earlier rollups
    rng = ctx.sub("rollup")
    for k in range(40 if ctx.thorough else 10):
        cases.append(_gen_rollup(rng, k))
    # ---- real subprocesses: strace cross-check of the tap, hard kill
    rng = ctx.sub("strace")
    for k in range(6 if ctx.thorough else 2):
        spec = _plain(_gen_run(rng, 8, False, observed=True))
        spec["fmt"] = "tsv" if k % 2 == 0 else "parquet"
        spec["ext"] = ".parquet" if spec["fmt"] == "parquet" else (spec["ext"] if spec["ext"] != ".parquet" else ".pin")
        cases.append({"fn": "strace", "observed": spec, "exit_at": rng.randint(1, 12) if k % 2 else None,
                      "tags": ["strace", "fmt=" + spec["fmt"]] + _option_tags(spec)})
    # ---- the verify step next to a leftover <pin>.tsv that is LONGER than (as long as / one byte shorter than) the conversion
    #      of the present PIN: a temporary file that is opened without being truncated keeps the tail of the leftover.  The
    #      realistic history first: an earlier run on a LARGER version of the same PIN was interrupted between conversion and
    #      move, then the user exports fewer PSMs to the same path (the first n rows: the tail starts at a line boundary; a
    #      subset of the rows: it starts anywhere).  Streams added after all others (round 5)
    rng = ctx.sub("verify-longer")
    for k in range((6 if ctx.thorough else 2) * len(LONGER_KINDS)):
        kind = LONGER_KINDS[k % len(LONGER_KINDS)]
        big = k % 5 == 4          # a PIN whose conversion is longer than one I/O buffer
        new, old, how = _pin_history(rng, rng.randint(300, 600) if big else rng.randint(1, 6), rng.randint(0, 3), rng.random() < 0.3)
        left = _longer_leftover(rng, kind, new, old)
        cases.append({"fn": "verify", "pin": new, "leftover": left,
                      "tags": ["verify", "verify-longer", "ragged", "left:" + kind, "history:" + how] + (["big-pin"] if big else [])})
    rng = ctx.sub("verify-longer-multi")
    for k in range(24 if ctx.thorough else 6):
        npin = rng.choice([2, 2, 3])
        names = rng.sample(["x.pin", "y.pin", "sample.1.pin", "b c.pin", "x.pin.pin", "z.tab"], npin)
        pins = []
        for j, nm in enumerate(names):
            if j == k % npin or rng.random() < 0.5:
                new, old, how = _pin_history(rng, rng.randint(1, 5), rng.randint(0, 2), rng.random() < 0.3)
                left = _longer_leftover(rng, rng.choice(LONGER_KINDS), new, old)
            else:
                # a PIN that needs no conversion: the (long) leftover next to it is none of the run's business
                new, _ = _gen_pin_text(rng, rng.randint(1, 5), rng.randint(0, 2), False, False)
                left = rng.choice([None, _garbage(rng, len(new) + rng.choice([1, 100, 9000]), 30)])
            pins.append({"name": nm, "pin": new, "leftover": left})
        cases.append({"fn": "verify", "pins": pins, "rel": rng.random() < 0.5,
                      "tags": ["verify", "verify-longer", "multi-pin", "npin=%d" % npin]})
    # ---- the whole command line with such a leftover next to a ragged PIN: written directly, or left by an earlier command
    #      line on the larger version of the PINs (in the same input directory) that was killed before the move
    rng = ctx.sub("cli-longer")
    for k in range(24 if ctx.thorough else 5):
        cases.append(_gen_cli_longer(rng, k))
    return cases


def _option_tags(obs):
    t = ["root=" + (obs.get("root") or "-"), "ext=" + _ext(obs), "cwd=" + obs.get("cwd", "abs")]
    if obs.get("append"):
        t.append("append_to_output_file")
    if obs.get("in_dest"):
        t.append("inputs-in-dest")
    if not all(obs.get("descs") or [True]):
        t.append("descs-false")
    if any(p and _pfx_code(p) >= 100 for p in obs["prefixes"]):
        t.append("prefix-not-collN")
    if obs.get("workers", 1) > 1:
        t.append("workers>1")
    return t


def _gen_pin_text(rng, nrow, nfeat, ragged, dd):
    header = ["SpecId", "Label", "ScanNr"] + ["f%d" % i for i in range(nfeat)] + ["Peptide", "Proteins"]
    lines = ["\t".join(header)]
    if dd:
        lines.append("\t".join(["DefaultDirection", "-", "-"] + ["1"] * nfeat + ["-", "-"]))
    for r in range(nrow):
        np_ = rng.randint(2, 4) if (ragged and (r == 0 or rng.random() < 0.5)) else 1
        lines.append("\t".join(["id%d" % r, rng.choice(["1", "-1"]), str(r + 1)] + [str(rng.randint(0, 9)) for _ in range(nfeat)]
                               + ["K.PEP%dK.A" % r] + ["prot%d" % rng.randint(0, 9) for _ in range(np_)]))
    return "\n".join(lines) + ("\n" if rng.random() < 0.8 else ""), header


# ---- leftovers <pin>.tsv that are longer than the conversion (round 5)
LONGER_KINDS = ["old-conv", "old-conv", "old-conv-nonl", "old-pin", "conv+rows", "conv+byte", "conv+blank-lines", "garbage-lines",
                "garbage-oneline", "newlines-only", "huge", "equal-len", "equal-content", "shorter-1", "other-header"]


def _conv_guess(txt):
    """what the verify step's conversion of a PIN looks like (header, DefaultDirection line dropped, the surplus fields of a
    row joined by ':' at the protein column).  Used by the generators to SIZE and to shape leftovers only; the relation that
    counts — leftover longer / as long as / shorter than the conversion — is measured when the case is run (tags
    leftover>conv ...), and what the conversion must be is decided by the model and by the run in a clean directory"""
    lines = [ln.strip() for ln in txt.split("\n")]
    while lines and lines[-1] == "":
        lines.pop()
    cols = lines[0].split("\t")
    low = [c.lower() for c in cols]
    ip = low.index("proteins") if "proteins" in low else len(cols) - 1
    out = [lines[0]]
    for k, ln in enumerate(lines[1:]):
        if k == 0 and ln.startswith("DefaultDirection"):
            continue
        f = ln.split("\t")
        extra = max(0, len(f) - len(cols))
        out.append("\t".join(f[:ip] + [":".join(f[ip:ip + extra + 1])] + f[ip + extra + 1:]))
    return "\n".join(out) + "\n"


def _garbage(rng, nbytes, line_len):
    """nbytes bytes of text: fields of letters and digits, a line break about every line_len bytes (0: none at all)"""
    out = []
    n = 0
    while n < nbytes:
        w = "".join(rng.choice("abcXYZ019:.-") for _ in range(rng.randint(1, 9)))
        sep = "\n" if (line_len and rng.random() < 1.0 / max(1, line_len // 6)) else "\t"
        out.append(w + sep)
        n += len(w) + 1
    return "".join(out)[:nbytes]


def _pin_history(rng, n_new, nfeat, dd):
    """(present PIN, its larger earlier version, how the present one was derived): ragged PINs; the present one keeps the first
    n_new PSMs of the earlier export (prefix) or row 0 and a sample of the others in their order (subset)"""
    n_old = n_new + rng.randint(1, max(2, n_new))
    old, header = _gen_pin_text(rng, n_old, nfeat, True, dd)
    lines = old.split("\n")
    fnl = lines[-1] == ""
    if fnl:
        lines.pop()
    nhead = 2 if dd else 1
    rows = lines[nhead:]
    how = rng.choice(["prefix", "subset"])
    if how == "prefix":
        keep = list(range(n_new))
    else:
        keep = [0] + sorted(rng.sample(range(1, n_old), n_new - 1))
    new = "\n".join(lines[:nhead] + [rows[i] for i in keep]) + ("\n" if (fnl or rng.random() < 0.5) else "")
    return new, old, how


def _longer_leftover(rng, kind, new, old):
    conv = _conv_guess(new)
    L = len(conv)
    delta = rng.choice([1, 2, 7, 64, 4096, 8192, 8193])
    if kind == "old-conv":            # the earlier, larger export, converted: what an interrupted run leaves
        return _conv_guess(old)
    if kind == "old-conv-nonl":
        return _conv_guess(old).rstrip("\n")
    if kind == "old-pin":             # the earlier export as it was (ragged)
        return old if len(old) > L else old + old
    if kind == "conv+rows":           # the right conversion followed by more rows: the tail is whole lines
        return conv + "".join("old%d\t1\t7\n" % i for i in range(rng.randint(1, 4)))
    if kind == "conv+byte":
        return conv + rng.choice(["\n", "x", "\t", " ", "\r"])
    if kind == "conv+blank-lines":
        return conv + "\n" * rng.randint(1, 5)
    if kind == "garbage-lines":
        return _garbage(rng, L + delta, 40)
    if kind == "garbage-oneline":
        return _garbage(rng, L + delta, 0)
    if kind == "newlines-only":
        return "\n" * (L + delta)
    if kind == "huge":                # longer than any buffer between the code and the file
        return _garbage(rng, L + 70000 + delta, 60)
    if kind == "equal-len":           # the neighbours: as long as the conversion, the conversion itself, one byte shorter
        return _garbage(rng, L, 40)
    if kind == "equal-content":
        return conv
    if kind == "shorter-1":
        return rng.choice([conv[:-1], _garbage(rng, L - 1, 40)])
    if kind == "other-header":        # the conversion of another, wider table that was exported to this path before
        o, _ = _gen_pin_text(rng, len(new.split("\n")) + rng.randint(2, 6), 5, True, False)
        return _conv_guess(o)
    raise ValueError(kind)


def _gen_cli_longer(rng, k):
    import copy
    c = _gen_cli(rng, k)
    obs = c["observed"]
    hist = k % 3 == 2               # the leftover comes from a killed earlier command line instead of being written directly
    olds = []
    for j, p in enumerate(obs["pins"]):
        lines = p["text"].split("\n")[:-1]
        rows = lines[1:]
        if j == 0 or rng.random() < 0.5:
            if not p["ragged"]:
                rows = [r + "".join("\tprot%d" % rng.randint(6, 9) for _ in range(rng.randint(1, 2))) if (i == 0 or rng.random() < 0.3) else r
                        for i, r in enumerate(rows)]
                p["ragged"] = True
                p["text"] = "\n".join([lines[0]] + rows) + "\n"
            # the larger earlier export: the present rows and further PSMs, behind them (prefix) or in between (subset)
            more = []
            for i in range(rng.randint(1, max(2, len(rows) // 2))):
                f = rng.choice(rows).split("\t")
                f[0] = "old_%d_%s" % (i, f[0])
                more.append("\t".join(f))
            how = rng.choice(["prefix", "subset"])
            old_rows = list(rows)
            for m in more:
                old_rows.insert(len(old_rows) if how == "prefix" else rng.randint(1, len(old_rows)), m)
            old = "\n".join([lines[0]] + old_rows) + "\n"
            kind = rng.choice(["old-conv", "old-conv", "old-conv-nonl", "conv+rows", "garbage-lines", "conv+byte", "equal-len"])
            p["leftover"] = None if hist else _cli_left(rng, kind, p["text"], old)
            olds.append(old)
        else:
            olds.append(p["text"])
    if hist:
        e = copy.deepcopy(obs)
        for p, o in zip(e["pins"], olds):
            p["text"] = o
            p["leftover"] = None
        # the PINs of both command lines live in dest_dir (the earlier run's file operations on them are seen by the tap, and
        # the observed command is given the same paths): operation 0 writes <pin>.tsv of the first ragged PIN, operation 1
        # would move it
        e["dest"], e["in_dest"], e["pins_rel"] = "abs", True, False
        e["end"] = ["kill", 1]
        obs["in_dest"] = True
        c["runs"] = c["runs"] + [e]
    c["tags"] = [t for t in c["tags"] if t != "in_dest"] + (["in_dest"] if obs["in_dest"] else []) \
        + ["cli-longer", "history" if hist else "written"]
    if "ragged-pin" not in c["tags"]:
        c["tags"].append("ragged-pin")
    return c


def _cli_left(rng, kind, text, old):
    if kind == "old-conv":
        return _conv_guess(old)
    if kind == "old-conv-nonl":
        return _conv_guess(old).rstrip("\n")
    return _longer_leftover(rng, kind, text, old)


# ---- the whole command line
CLI_STEMS = ["a", "b", "sample.1", "run_2", "coll0"]


def _gen_cli_run(rng, run_idx, stems=None):
    npin = rng.choice([1, 2, 2, 3])
    stems = stems or rng.sample(CLI_STEMS, npin)
    pins = []
    for j, st in enumerate(stems):
        n = rng.randint(36, 70)
        f = brewlib.gen_file(rng, n, 2, file_idx=run_idx * 10 + j, mult=(1, 2), npep=max(4, n // 3))
        ragged = rng.random() < 0.4
        cols = [c for c in f["columns"] if c != "rid"]
        lines = ["\t".join(cols)]
        for r in range(n):
            row = [str(f["data"][c][r]) for c in cols]
            if ragged and (r == 0 or rng.random() < 0.3):
                row += ["prot%d" % rng.randint(6, 9) for _ in range(rng.randint(1, 2))]
            lines.append("\t".join(row))
        pins.append({"stem": st, "text": "\n".join(lines) + "\n", "ragged": ragged,
                     "leftover": rng.choice([None, None, "LEFTOVER\tJUNK\n", "\t".join(cols) + "\nold\t1\t7\n"])})
    return {"pins": pins, "file_root": rng.choice([None, None, "r", "exp.1"]), "aggregate": rng.random() < 0.35,
            "keep_decoys": rng.random() < 0.6, "skip_rollup": rng.random() < 0.25, "save_models": rng.random() < 0.6,
            "workers": rng.choice([1, 1, 2]), "folds": rng.choice([2, 3]), "dest": rng.choice(["abs", "abs", "rel", "default"]),
            "in_dest": rng.random() < 0.25, "pins_rel": rng.random() < 0.3, "chunk": rng.choice([7, 16, 1000]),
            "seed": rng.randint(1, 50), "end": "complete"}


def _gen_cli(rng, k):
    obs = _gen_cli_run(rng, 8)
    runs = []
    for r in range(rng.choice([0, 1, 1, 2]) if k % 5 else 0):
        same_names = rng.random() < 0.5
        e = _gen_cli_run(rng, r, stems=[p["stem"] for p in obs["pins"]] if same_names else None)
        if rng.random() < 0.7:
            e["file_root"] = obs["file_root"]
        if rng.random() < 0.5:
            e["aggregate"] = obs["aggregate"]
        if same_names and rng.random() < 0.5:
            e["save_models"] = True
        e["dest"], e["in_dest"] = "abs", False
        mode = rng.choice(["kill", "fail", "complete", "complete"])
        e["end"] = mode if mode == "complete" else [mode, rng.randint(0, 40)]
        runs.append(e)
    junk = []
    for _ in range(rng.choice([1, 2, 3, 4])):
        junk.append({"kind": rng.choice(["own-result", "own-result", "own-model", "level", "chunk", "near-result", "near-level", "near-model",
                                         "empty-own", "other-root"]),
                     "index": rng.randint(0, 50), "pfx": rng.choice([None, obs["pins"][0]["stem"]]), "seed": rng.randint(0, 10 ** 6),
                     "variant": rng.randint(0, 50)})
    tags = ["cli", "npin=%d" % len(obs["pins"]), "earlier=%d" % len(runs), "dest=" + obs["dest"],
            "file_root=" + str(obs["file_root"])] + [o for o in ("aggregate", "keep_decoys", "skip_rollup", "save_models", "in_dest", "pins_rel") if obs[o]] \
        + (["ragged-pin"] if any(p["ragged"] for p in obs["pins"]) else []) \
        + ["end=" + (r["end"] if isinstance(r["end"], str) else r["end"][0]) for r in runs] + sorted(set("junk:" + j["kind"] for j in junk))
    return {"fn": "cli", "runs": runs, "observed": obs, "junk": junk, "tags": tags}


# ============================================================================ running the real code
def _const_peps(scores, targets, *a, **k):
    import numpy as np
    return np.zeros(len(scores))


def _ext(spec, j=0):
    """suffix of the j-th input file (the level files take the suffix of the first one, the chunk files that of their own)"""
    if spec.get("exts"):
        return spec["exts"][j]
    if spec.get("ext"):
        return spec["ext"]
    return ".parquet" if spec["fmt"] == "parquet" else ".pin"


def _root(spec):
    return spec.get("root") or ""


def _desc(spec, j):
    d = spec.get("descs")
    return True if not d else bool(d[j])


def _score(spec, j, r):
    """the score the collection is ranked by (descs[j] False: the negated score)"""
    v = spec["scores"][j][r]
    return v if _desc(spec, j) else -v


def _write_input(f, d, name, ext):
    import pandas as pd
    df = pd.DataFrame(f["data"], columns=f["columns"])
    p = Path(d) / (name + ext)
    if ext == ".parquet":
        df.to_parquet(p, index=False, row_group_size=max(1, len(df)))
    else:
        df.to_csv(p, sep="\t", index=False)
    _age(p)
    return p


OLD_MTIME = 1000000000      # 2001-09-09


def _age(p):
    """the user's input files are older than anything an earlier run has left behind (a leftover that is 'up to date' with
    respect to the input must still not be used)"""
    os.utime(p, (OLD_MTIME, OLD_MTIME))


SQLITE_TABLES = {"CANDIDATE": "CANDIDATE_ID", "PRECURSOR_VALIDATION": "PCM_ID", "MODIFIED_PEPTIDE_VALIDATION": "MODIFIED_PEPTIDE_ID",
                 "PEPTIDE_VALIDATION": "PEPTIDE_ID", "PEPTIDE_GROUP_VALIDATION": "PEPTIDE_GROUP_ID"}


def _make_db(path, spec):
    import sqlite3
    con = sqlite3.connect(path)
    for tb, idc in SQLITE_TABLES.items():
        if tb == "CANDIDATE":
            con.execute("CREATE TABLE CANDIDATE (CANDIDATE_ID TEXT, PSM_FDR REAL, SVM_SCORE REAL, POSTERIOR_ERROR_PROBABILITY REAL)")
        else:
            con.execute("CREATE TABLE %s (%s TEXT, FDR REAL, PEP REAL, SVM_SCORE REAL)" % (tb, idc))
    for f in spec["files"]:
        for pid in f["data"]["SpecId"]:
            con.execute("INSERT INTO CANDIDATE (CANDIDATE_ID) VALUES(?)", (pid,))
    con.commit()
    con.close()


def _dump_db(path):
    import sqlite3
    con = sqlite3.connect(path)
    out = {tb: [list(r) for r in con.execute("SELECT * FROM %s" % tb).fetchall()] for tb in SQLITE_TABLES}
    con.close()
    return out


def _exec_run(spec, indir, out, tap, tag="in", info=None):
    """read_pin + assign_confidence of one run specification; returns how it ended"""
    import hashlib
    import numpy as np
    import mokapot
    import mokapot.confidence as conf
    old = conf.peps_from_scores
    conf.peps_from_scores = _const_peps
    cwd0 = os.getcwd()
    info = info if info is not None else {}
    try:
        where = out if spec.get("in_dest") else indir
        paths = [_write_input(f, where, "%s%d" % (tag, i), _ext(spec, i)) for i, f in enumerate(spec["files"])]
        digest = {str(p): hashlib.sha256(p.read_bytes()).hexdigest() for p in paths}
        db = None
        if spec.get("sqlite"):
            db = Path(indir) / "results.db"
            if db.exists():
                db.unlink()
            _make_db(db, spec)
        mode = spec.get("cwd", "abs")
        if mode == "rel":
            os.chdir(Path(out).parent)
            dest = Path(Path(out).name)
        elif mode == "dot":
            os.chdir(out)
            dest = Path(".")
        else:
            dest = Path(out)
        kw = {}
        if spec.get("root"):
            kw["file_root"] = spec["root"]
        if spec.get("descs") is not None:
            kw["descs"] = [bool(x) for x in spec["descs"]]
        if spec.get("append"):
            kw["append_to_output_file"] = True
        if db is not None:
            kw["sqlite_path"] = db
        with brewlib.Chunking(confidence=spec["chunk"]):
            dss = mokapot.read_pin(paths, max_workers=1)
            P = None
            if spec.get("fasta"):
                from . import c15
                P = c15._proteins({"fasta": spec["fasta"], "fasta_args": dict(c15.FASTA_ARGS)})
            try:
                try:
                    with _Tapped(tap):
                        mokapot.assign_confidence(
                            dss, max_workers=spec.get("workers", 1),
                            scores=[np.array(s, dtype=float) for s in spec["scores"]],
                            eval_fdr=0.5, dest_dir=dest, prefixes=list(spec["prefixes"]), decoys=spec["decoys"],
                            deduplication=spec["dedup"], do_rollup=spec["rollup"], proteins=P, rng=7, **kw)
                    return "complete"
                except KillSim:
                    return "killed"
                except Injected:
                    return "failed"
                except Exception as e:       # noqa: the run itself raised
                    return "raised " + type(e).__name__
            finally:
                os.chdir(cwd0)
                info["inputs_changed"] = sorted(os.path.basename(p) for p, h in digest.items()
                                                if not os.path.exists(p) or hashlib.sha256(Path(p).read_bytes()).hexdigest() != h)
                if db is not None:
                    try:
                        info["db"] = _dump_db(db)
                    except Exception as e:     # noqa
                        info["db"] = "unreadable: " + type(e).__name__
    finally:
        os.chdir(cwd0)
        conf.peps_from_scores = old


def _tap_for(spec, out):
    end = spec.get("end", "complete")
    if end == "complete":
        return IoTap(out)
    mode, k = end
    return IoTap(out, kill_at=k) if mode == "kill" else IoTap(out, fail_at=k)


def _level_names(spec):
    names = ["psms"]
    if spec["rollup"]:
        names += ["peptides"] + [lv.lower() + "s" for lv in spec["levels"]]
    if spec.get("fasta"):
        names.append("proteins")
    return names


# ---- structured names
def _pfx_code(p):
    if not p:
        return 0
    if p.startswith("coll") and p[4:].isdigit():
        return int(p[4:]) + 1
    if p in EXTRA_PFX:
        return 100 + EXTRA_PFX.index(p)
    return None


def struct_name(fn, obs):
    """file name -> structured name of Model/Fs.v, relative to the observed run's configuration: its file_root is stripped
    (a name without it is none of the run's), its text suffix stands for 'not Parquet' (text files of another suffix are
    none of the run's either)"""
    root = _root(obs)
    if not fn.startswith(root):
        return ("other", fn)
    rest = fn[len(root):]
    levels = _level_names(obs)
    text_ext = _ext(obs) if _ext(obs) != ".parquet" else ".pin"
    for ext, eb in ((".parquet", True), (text_ext, False)):
        if rest.endswith(ext):
            stem = rest[: -len(ext)]
            if "scores_metadata_" in stem:
                pre, _, idx = stem.partition("scores_metadata_")
                code = _pfx_code(pre[:-1]) if pre.endswith(".") else (0 if pre == "" else None)
                if idx.isdigit() and code is not None and str(int(idx)) == idx:
                    return ("chunk", code, int(idx), eb)
            if stem in levels:
                return ("level", levels.index(stem), eb)
    parts = rest.split(".")
    if len(parts) >= 2 and parts[-2] in ("targets", "decoys") and parts[-1] in levels:
        pre = ".".join(parts[:-2])
        code = _pfx_code(pre)
        if code is not None:
            return ("result", code, parts[-2] == "decoys", levels.index(parts[-1]))
    return ("other", fn)


def _tok_name(sn, other_ids):
    if sn[0] == "chunk":
        return "0 %s %s %s" % (lib.z(sn[1]), lib.z(sn[2]), lib.b(sn[3]))
    if sn[0] == "level":
        return "1 %s %s" % (lib.z(sn[1]), lib.b(sn[2]))
    if sn[0] == "result":
        return "2 %s %s %s" % (lib.z(sn[1]), lib.b(sn[2]), lib.z(sn[3]))
    return "5 %s" % lib.z(other_ids.setdefault(sn[1], len(other_ids) + 1))


def _read_name(t, other_names):
    tag = t.int()
    if tag == 0:
        return ("chunk", t.z(), t.z(), t.b())
    if tag == 1:
        return ("level", t.z(), t.b())
    if tag == 2:
        return ("result", t.z(), t.b(), t.z())
    if tag == 5:
        return ("other", other_names.get(t.z(), "?"))
    return ("tag%d" % tag, t.z())


# ---- rows
class Registry:
    """every PSM generated in the case: id string -> (id code, spec id, level-key ids, target)"""

    def __init__(self):
        self.rows = {}
        self.spec = {}
        self.keys = {}

    def add_run(self, spec):
        for f in spec["files"]:
            cols = [x for x in SPEC_COLS if x in f["data"]]
            for r in range(len(f["targets"])):
                pid = f["data"]["SpecId"][r]
                sk = tuple((x, f["data"][x][r]) for x in cols)
                sp = self.spec.setdefault(sk, len(self.spec) + 1)
                ks = []
                for col in ["Peptide"] + LEVEL_COLS:
                    if col in f["data"]:
                        ks.append((col, self.keys.setdefault((col, f["data"][col][r]), len(self.keys) + 1)))
                self.rows[pid] = {"code": int(f["data"]["rid"][r]) + 1, "spec": sp, "keys": dict(ks), "target": bool(f["targets"][r])}

    def row_tok(self, pid, score, level_cols):
        r = self.rows.get(pid)
        if r is None:
            return "%s %s %s %s %s" % (lib.z(10 ** 9 + abs(hash(pid)) % 10 ** 6), lib.z(0), lib.lst([0] * len(level_cols)), lib.b(True), lib.z(int(score)))
        ks = [r["keys"].get(c, 0) for c in level_cols]
        return "%s %s %s %s %s" % (lib.z(r["code"]), lib.z(r["spec"]), lib.lst(ks), lib.b(r["target"]), lib.z(int(score)))

    def code_to_id(self):
        return {r["code"]: pid for pid, r in self.rows.items()}


def _result_cols(fn, obs):
    """the columns of a result file of the run (what `initialize` writes as its header)"""
    if fn.endswith(".proteins"):
        return ["mokapot protein group", "best peptide", "stripped sequence", "score", "q-value", "posterior_error_prob"]
    return ["PSMId", "peptide"] + (list(obs["levels"]) if obs["rollup"] else []) + ["score", "q-value", "posterior_error_prob", "proteinIds"]


def _parse_table(path, names=None):
    """-> list of (psm id, score or None, q or None); None if the file cannot be parsed as a PSM table.
    names: the file has no header line (a result file that append_to_output_file=True created by its first append)"""
    import pandas as pd
    try:
        if str(path).endswith(".parquet"):
            df = pd.read_parquet(path)
        elif names is not None:
            if os.path.getsize(path) == 0:
                return []
            df = pd.read_csv(path, sep="\t", float_precision="round_trip", header=None, names=list(names))
        else:
            df = pd.read_csv(path, sep="\t", float_precision="round_trip")
    except Exception:
        return None
    idc = next((c for c in ("PSMId", "SpecId", "mokapot protein group") if c in df.columns), None)
    if idc is None:
        return None
    out = []
    try:
        for _, r in df.iterrows():
            sc = float(r["score"]) if "score" in df.columns else None
            qv = Fraction(float(r["q-value"])) if "q-value" in df.columns else None
            out.append((str(r[idc]), sc, qv))
    except (ValueError, TypeError, OverflowError):
        return None          # not a table of PSMs (a header line where rows were expected, text in a number column, ...)
    return out


def _snapshot(out, obs, headerless=()):
    """directory -> {file name: (structured name, parsed rows or None)}; headerless: result files written without header"""
    snap = {}
    for fn in sorted(os.listdir(out)):
        snap[fn] = (struct_name(fn, obs), _parse_table(Path(out) / fn, _result_cols(fn, obs) if fn in headerless else None))
    return snap


def _cfg_tok(obs, reg, glob=False, prot_tables=None):
    level_cols = ["Peptide"] + obs["levels"] if obs["rollup"] else []
    colls = []
    for j, f in enumerate(obs["files"]):
        rows = [reg.row_tok(f["data"]["SpecId"][r], _score(obs, j, r), level_cols) for r in range(len(f["targets"]))]
        prot = (prot_tables or {}).get(j)
        if prot is None:
            ptok = "0"
        else:
            ids, prow = prot
            ptok = "1 %s %d %s" % (lib.lst(ids), len(prow), " ".join(prow))
        colls.append("%s %d %s %s" % (lib.z(_pfx_code(obs["prefixes"][j])), len(rows), " ".join(rows), ptok))
    return "%s %s %s %s %s %s %s %s %d %s" % (
        lib.b(_ext(obs) == ".parquet"), lib.z(obs["chunk"]), lib.b(obs["dedup"]), lib.z(len(_level_names(obs)) - (1 if obs.get("fasta") else 0)),
        lib.b(obs["decoys"]), lib.b(bool(obs.get("append"))), lib.b(glob), lib.b(bool(prot_tables)), len(colls), " ".join(colls))


def _fs_tok(snap, obs, reg, other_ids):
    level_cols = ["Peptide"] + obs["levels"] if obs["rollup"] else []
    ents = []
    for fn, (sn, rows) in snap.items():
        rs = []
        for pid, sc, qv in (rows or []):
            if pid not in reg.rows:
                # a row of a leftover that no run of this case produced (protein groups of an earlier run, ...): give it an
                # id of its own so that the model hands it back under its name
                reg.rows[pid] = {"code": 6000000 + len(reg.rows), "spec": 0, "keys": {}, "target": True}
            q = qv if qv is not None else Fraction(0)
            rs.append("%s %s" % (reg.row_tok(pid, sc if sc is not None else 0, level_cols), lib.q(q)))
        ents.append("%s %d %s" % (_tok_name(sn, other_ids), len(rs), " ".join(rs)))
    return "%d %s" % (len(ents), " ".join(ents))


def _decode_fs(line, other_ids, reg):
    """-> None | {structured name: [(psm id, q)]}"""
    t = Toks(line)
    names = {v: k for k, v in other_ids.items()}
    c2i = reg.code_to_id()

    def ent():
        n = _read_name(t, names)
        rows = t.lst(lambda: (t.z(), t.q()))
        return n, [(c2i.get(i, "code%d" % i), q) for i, q in rows]
    r = t.opt(lambda: t.lst(ent))
    if r is None:
        return None
    return {n: rows for n, rows in r}


def _canon_rows(sn, rows):
    """comparable content of a parsed file: result files (id, q as double); others ids only"""
    if rows is None:
        return None
    if sn[0] == "result":
        return [(pid, float(q) if q is not None else None) for pid, _, q in rows]
    return [pid for pid, _, _ in rows]


def _canon_model(sn, rows):
    if sn[0] == "result":
        return [(pid, float(q)) for pid, q in rows]
    return [pid for pid, _ in rows]


def _trace_struct(trace, obs):
    kinds = {"write": 0, "append": 1, "unlink": 2, "move": 3}
    out = []
    for ev in trace:
        if ev[0] == "move":
            out.append([3, list(struct_name(ev[1], obs))])
            out.append([3, list(struct_name(ev[2], obs))])
        elif ev[0] in kinds:
            out.append([kinds[ev[0]], list(struct_name(ev[1], obs))])
        else:
            out.append([ev[0], ev[1]])
    return out


def _prot_tables(obs, reg, clean_out):
    """oracle of the picked-protein step, taken from the run in the clean directory: the PSM ids the peptide-level file
    must hold (computed with the C03 model) and the protein-level rows (names registered as row ids)"""
    level_cols = ["Peptide"] + obs["levels"]
    f = obs["files"][0]
    rows = [reg.row_tok(f["data"]["SpecId"][r], _score(obs, 0, r), level_cols) for r in range(len(f["targets"]))]
    nl = len(_level_names(obs)) - 1
    line = lib.run_driver(["c03.levels %s %s %s %s %d %s" % (lib.z(obs["chunk"]), lib.b(obs["dedup"]), lib.b(obs["dedup"]), lib.z(nl), len(rows), " ".join(rows))])[0]
    t = Toks(line)
    lv = t.lst(lambda: t.lst(t.z))
    prow = []
    pre = _root(obs) + ((obs["prefixes"][0] + ".") if obs["prefixes"][0] else "")
    for fn, flag in ((pre + "targets.proteins", True), (pre + "decoys.proteins", False)):
        rws = _parse_table(Path(clean_out) / fn, _result_cols(fn, obs) if obs.get("append") else None)
        if rws is None:
            return None
        for name, sc, qv in rws:
            reg.rows.setdefault(name, {"code": 5000000 + len(reg.rows), "spec": 0, "keys": {}, "target": flag})
            prow.append((sc, name))
    prow.sort(key=lambda x: -x[0])
    return {0: (lv[1], [reg.row_tok(name, sc, []) for sc, name in prow])}


def _model_trace(obs, reg, prot_tables=None):
    line = lib.run_driver(["c09.trace " + _cfg_tok(obs, reg, prot_tables=prot_tables)])[0]
    t = Toks(line)
    return [[k, list(n)] for k, n in t.lst(lambda: (t.z(), _read_name(t, {})))]


def _result_frame(df, obs, n=None):
    """a table with the columns of the run's result files (PSM and rollup levels)"""
    import pandas as pd
    if n is not None:
        df = df.iloc[:n]
    cols = {"PSMId": df["SpecId"], "peptide": df["Peptide"]}
    for lv in (obs["levels"] if obs["rollup"] else []):
        cols[lv] = df[lv]
    cols.update({"score": df["score"], "q-value": [0.25] * len(df), "posterior_error_prob": [0.0] * len(df), "proteinIds": df["Proteins"]})
    return pd.DataFrame(cols)


def _write_junk(junk, out, obs, reg):
    """synthetic leftovers; chunk-like ones hold a valid table of foreign PSMs"""
    import random
    import pandas as pd
    root = _root(obs)
    for j in junk:
        rng = random.Random(j["seed"])
        pre = (j["pfx"] + ".") if j["pfx"] else ""
        ext = _ext(obs)
        f = brewlib.gen_file(rng, rng.randint(1, 6), 2, file_idx=90 + len(reg.rows) % 7, levels=obs["levels"])
        reg.add_run({"files": [f]})
        df = pd.DataFrame(f["data"], columns=f["columns"])
        df["score"] = [float(v) for v in rng.sample(range(-50, 150), len(df))]
        df = df.sort_values("score", ascending=False)
        var = j.get("variant", 0)
        idx = j["index"]
        lvn = _level_names(obs)

        def chunk_to(p):
            cols = [c for c in df.columns if not c.startswith("feat") and c != "rid"]
            (df[cols].to_parquet(p, index=False) if str(p).endswith(".parquet") else df[cols].to_csv(p, sep="\t", index=False))

        def level_to(p):
            d2 = pd.DataFrame({"PSMId": df["SpecId"], "Label": df["Label"], "peptide": df["Peptide"],
                               "proteinIds": df["Proteins"], "score": df["score"]})
            (d2.to_parquet(p, index=False) if str(p).endswith(".parquet") else d2.to_csv(p, sep="\t", index=False))

        def result_to(p):
            _result_frame(df, obs).to_csv(p, sep="\t", index=False)

        kind = j["kind"]
        if kind == "chunk":
            chunk_to(Path(out) / f"{root}{pre}scores_metadata_{idx}{ext}")
        elif kind == "chunk-ext":
            chunk_to(Path(out) / f"{root}{pre}scores_metadata_{idx}{j['ext']}")
        elif kind == "garbage-chunk":
            (Path(out) / f"{root}{pre}scores_metadata_{idx}{ext}").write_bytes(b"\x00garbage\tnot a table\n\xff\xfe")
        elif kind == "level":
            level_to(Path(out) / f"{root}{rng.choice(lvn)}{ext}")
        elif kind == "own-result":
            own = sorted(_own_results(obs))
            result_to(Path(out) / own[idx % len(own)])
        elif kind == "garbage-result":
            own = sorted(_own_results(obs))
            if not obs.get("append"):
                (Path(out) / own[idx % len(own)]).write_bytes(b"\x00garbage\tnot a table\n\xff\xfe no newline at the end")
        elif kind == "result":
            lv = rng.choice(lvn)
            result_to(Path(out) / f"{root}{pre}{rng.choice(['targets', 'decoys'])}.{lv}")
        elif kind == "near-chunk":
            names = [f"{root}{pre}scores_metadata_{idx}{ext}.bak", f"{root}{pre}scores_metadata_{idx}{ext}~",
                     f"{root}{pre}scores_metadata_0{idx}{ext}", f"x{root}{pre}scores_metadata_{idx}{ext}",
                     f"{root}{pre}scores_metadata_{idx}", f"{root}{pre}scores_metadata_{idx}.tmp{ext}",
                     f"{root}{pre}scores_metadata_{ext}", f"{root}{pre}scores_metadata_{idx}{ext.upper()}"]
            chunk_to(Path(out) / names[var % len(names)])
        elif kind == "near-level":
            lv = rng.choice(lvn)
            names = [f"{root}{lv}{ext}.bak", f"{root}{lv}", f"{root}{lv.upper()}{ext}", f"{root}{lv}s{ext}", f"x{root}{lv}{ext}",
                     f"{root}{lv}.old{ext}", f"{root}{pre}{lv}{ext}" if pre else f"{root}{lv}{ext}~"]
            level_to(Path(out) / names[var % len(names)])
        elif kind == "near-result":
            lv = rng.choice(lvn)
            names = [f"{root}{pre}targets.{lv}.old", f"{root}{pre}targets.{lv}~", f"x{root}{pre}targets.{lv}", f"{root}{pre}target.{lv}",
                     f"{root}{pre}targets.{lv}.tmp", f"{root}{pre}TARGETS.{lv}", f"{root}{pre}decoys.{lv}.bak", f"{root}{pre}targets.{lv}{ext}"]
            result_to(Path(out) / names[var % len(names)])
        elif kind == "other-root":
            oroot = ["zz.", "" if root else "q.", root + root if root else "r.r."][var % 3]
            lv = rng.choice(lvn)
            which = (var // 3) % 3
            if which == 0:
                chunk_to(Path(out) / f"{oroot}{pre}scores_metadata_{idx}{ext}")
            elif which == 1:
                level_to(Path(out) / f"{oroot}{lv}{ext}")
            else:
                result_to(Path(out) / f"{oroot}{pre}targets.{lv}")
        elif kind == "other-ext":
            others = [e for e in TEXT_EXTS + (".parquet", ".txt") if e != ext]
            oext = others[var % len(others)]
            if (var // 7) % 2:
                chunk_to(Path(out) / f"{root}{pre}scores_metadata_{idx}{oext}")
            else:
                level_to(Path(out) / f"{root}{rng.choice(lvn)}{oext}")
        elif kind == "empty-own":
            names = sorted(_own_intermediates(obs)) + (sorted(_own_results(obs)) if not obs.get("append") else []) + sorted(obs.get("models", []))
            (Path(out) / names[var % len(names)]).write_bytes(b"")
        elif kind == "subdir":
            sub = Path(out) / ("old_run%d" % (var % 2))
            sub.mkdir(exist_ok=True)
            chunk_to(sub / f"{root}{pre}scores_metadata_{idx}{ext}")
            result_to(sub / f"{root}{pre}targets.psms")
            level_to(sub / f"{root}psms{ext}")
        elif kind == "prot-names":
            names = [f"{root}proteins{ext}", f"{root}{pre}targets.proteins", f"{root}{pre}decoys.proteins"]
            p = Path(out) / names[var % 3]
            (level_to(p) if var % 3 == 0 else result_to(p))
        elif kind == "own-model":
            ms = sorted(obs.get("models", [])) or ["mokapot.model_fold-1.pkl"]
            (Path(out) / ms[idx % len(ms)]).write_bytes(b"\x80\x04not a model of this run" + bytes([var]))
        elif kind == "near-model":
            names = [f"{root}mokapot.model_fold-9.pkl", f"{root}mokapot.model_fold-1.pkl.bak", f"x{root}mokapot.model_fold-1.pkl",
                     "mokapot.model_fold-1.pkl" if root else "zz.mokapot.model_fold-1.pkl", f"{root}mokapot.model_fold-0.pkl"]
            (Path(out) / names[var % len(names)]).write_bytes(b"\x80\x04a model of another run" + bytes([var]))
        elif kind == "append-base":
            # append_to_output_file: the caller has created the result files (header, possibly rows of earlier collections).
            # mode rows: 0..n rows each; empty: header only, all of them; missing: one of them is not there at all
            mode = j.get("mode", "rows")
            own = sorted(_own_results(obs))
            for k, fn in enumerate(own):
                if mode == "missing" and k == var % len(own):
                    if (Path(out) / fn).exists():
                        (Path(out) / fn).unlink()
                    continue
                n = 0 if mode == "empty" else (k + var) % (len(df) + 1)
                if fn.endswith(".proteins"):
                    d2 = df.iloc[:n]
                    fr = pd.DataFrame({"mokapot protein group": ["oldgroup%d_%d" % (j["seed"] % 1000, i) for i in range(len(d2))],
                                       "best peptide": d2["Peptide"], "stripped sequence": d2["Peptide"], "score": d2["score"],
                                       "q-value": [0.25] * len(d2), "posterior_error_prob": [0.0] * len(d2)})
                else:
                    fr = _result_frame(df, obs, n=n)
                fr.to_csv(Path(out) / fn, sep="\t", index=False)
        else:
            (Path(out) / ("notes%d.txt" % idx)).write_text("unrelated\n")


# ============================================================================ case kinds
def _tmp():
    return tempfile.mkdtemp(prefix="c09_", dir=os.environ.get("VERIF_TMP", "/tmp"))


def _own_results(obs):
    """names of the result files of the run"""
    names = set()
    root = _root(obs)
    for p in obs["prefixes"]:
        pre = (p + ".") if p else ""
        for lv in _level_names(obs):
            names.add(f"{root}{pre}targets.{lv}")
            if obs["decoys"]:
                names.add(f"{root}{pre}decoys.{lv}")
    return names


def _own_intermediates(obs):
    root = _root(obs)
    names = set(root + lv + _ext(obs) for lv in _level_names(obs))
    for j, f in enumerate(obs["files"]):
        pre = (obs["prefixes"][j] + ".") if obs["prefixes"][j] else ""
        n = len(f["targets"])
        for i in range((n + obs["chunk"] - 1) // obs["chunk"]):
            names.add(f"{root}{pre}scores_metadata_{i}{_ext(obs, j)}")
    return names


def _tree(out):
    """every file below the directory: relative path -> sha256"""
    import hashlib
    res = {}
    for dp, dn, fns in os.walk(out):
        for fn in fns:
            p = Path(dp) / fn
            try:
                res[str(p.relative_to(out))] = hashlib.sha256(p.read_bytes()).hexdigest()
            except OSError:
                res[str(p.relative_to(out))] = "unreadable"
    return res


def _changed_bystanders(before, after, own):
    """files that were there before the run, are none of the run's own (result / chunk / level) names and are missing or have
    other bytes afterwards"""
    return sorted(k for k, h in before.items() if k not in own and after.get(k) != h)


def _results_bytes(out, obs):
    res = {}
    for fn in sorted(_own_results(obs)):
        p = Path(out) / fn
        res[fn] = p.read_bytes().decode("latin1") if p.exists() else None
    return res


def _property_only(obs):
    """runs the Coq model does not cover: checked with the property itself (dirty directory vs clean directory, nothing left)"""
    if obs.get("sqlite") or obs.get("exts"):
        return True
    if obs.get("fasta") and (len(obs["files"]) > 1 or not obs["decoys"]):
        return True
    return False


def _glob_hit(fn, obs):
    root = _root(obs)
    return any(fn.startswith(f"{root}{(p + '.') if p else ''}scores_metadata_") for p in obs["prefixes"])


def _run_dirty(c):
    obs = c["observed"]
    reg = Registry()
    for r in c["runs"]:
        reg.add_run(r)
    reg.add_run(obs)
    d = _tmp()
    try:
        out = Path(d) / "out"
        out.mkdir()
        ends = []
        junk = [j for j in c["junk"] if j["kind"] != "append-base"]
        base = [j for j in c["junk"] if j["kind"] == "append-base"]
        for i, r in enumerate(c["runs"]):
            ind = Path(d) / ("in_r%d" % i)
            ind.mkdir()
            ends.append(_exec_run(r, ind, out, _tap_for(r, out), tag="inr%d_" % i))
            if i == 0:
                _write_junk(junk, out, obs, reg)
        if not c["runs"]:
            _write_junk(junk, out, obs, reg)
        _write_junk(base, out, obs, reg)
        if obs.get("in_dest"):
            for i, f in enumerate(obs["files"]):
                _write_input(f, out, "inobs%d" % i, _ext(obs, i))
        own = _own_results(obs) | _own_intermediates(obs)
        before = _snapshot(out, obs)
        before_tree = _tree(out)
        base_bytes = _results_bytes(out, obs)
        overlap = any(fn in own or _glob_hit(fn, obs) for fn in before)
        tags = c.setdefault("tags", [])
        for t in ("overlap", "no-overlap"):
            if t in tags:
                tags.remove(t)
        tags.append("overlap" if overlap else "no-overlap")
        ind = Path(d) / "in_obs"
        ind.mkdir()
        tap = IoTap(out)
        info = {}
        end = _exec_run(obs, ind, out, tap, tag="inobs", info=info)
        # append mode: an own result file that was not there is created by the first append, without header
        created = [fn for fn in _own_results(obs) if fn not in before] if obs.get("append") else []
        after = _snapshot(out, obs, headerless=created)
        after_tree = _tree(out)
        dirty_bytes = _results_bytes(out, obs)
        # the same run in a clean directory
        out2 = Path(d) / "clean"
        out2.mkdir()
        ind2 = Path(d) / "in_clean"
        ind2.mkdir()
        info2 = {}
        end2 = _exec_run(obs, ind2, out2, IoTap(out2), tag="inobs", info=info2)
        clean_bytes = _results_bytes(out2, obs)
        clean_listing = sorted(os.listdir(out2))
        noappend_bytes, end3 = None, None
        if obs.get("append"):
            # C09_append_prefix: what the same run WITHOUT appending writes in an empty directory
            out3 = Path(d) / "noappend"
            out3.mkdir()
            ind3 = Path(d) / "in_noappend"
            ind3.mkdir()
            end3 = _exec_run(dict(obs, append=False), ind3, out3, IoTap(out3), tag="inobs")
            noappend_bytes = _results_bytes(out3, obs)
        impl = {"end": end, "earlier_ends": ends, "before": sorted(before.keys()),
                "dirty_bytes": dirty_bytes, "clean_bytes": clean_bytes, "base_bytes": base_bytes, "clean_end": end2,
                "noappend_bytes": noappend_bytes, "noappend_end": end3,
                "clean_listing": clean_listing, "after_files": sorted(after.keys()),
                "bystanders_changed": _changed_bystanders(before_tree, after_tree, own),
                "inputs_changed": info.get("inputs_changed", []), "db": info.get("db"), "clean_db": info2.get("db")}
        # model
        other_ids = {}
        prot_tables = None
        if not _property_only(obs):
            prot_tables = _prot_tables(obs, reg, out2) if obs.get("fasta") and end2 == "complete" else None
        if _property_only(obs) or (obs.get("fasta") and prot_tables is None):
            # outside the model (or the protein step itself refused the table — sanity checks of picked_protein): nothing to model
            return ("ok", {"end": "not-modelled"}), ("ok", impl)
        # re-snapshot with the protein names known to the registry
        line = lib.run_driver(["c09.run %s 0 %s" % (_cfg_tok(obs, reg, prot_tables=prot_tables), _fs_tok(before, obs, reg, other_ids))])[0]
        mfs = _decode_fs(line, other_ids, reg)
        impl.update({
            "listing": sorted([list(sn) for sn, _ in after.values()]),
            "results": {fn: _canon_rows(sn, rows) for fn, (sn, rows) in after.items() if sn[0] == "result"},
            "kept": {fn: _canon_rows(sn, rows) for fn, (sn, rows) in after.items() if sn[0] != "result" and fn in before},
            "kept_before": {fn: _canon_rows(sn, rows) for fn, (sn, rows) in before.items() if sn[0] != "result"},
            "trace": _trace_struct(tap.trace, obs) if obs.get("workers", 1) == 1 else None})
        if mfs is None:
            model = {"end": "error"}
        else:
            by_fn = {}
            for sn, rows in mfs.items():
                by_fn[tuple(sn)] = _canon_model(sn, rows)
            model = {"end": "complete", "listing": sorted([list(sn) for sn in mfs.keys()]),
                     "results": {fn: by_fn.get(tuple(sn)) for fn, (sn, rows) in after.items() if sn[0] == "result"},
                     "trace": _model_trace(obs, reg, prot_tables) if obs.get("workers", 1) == 1 else None}
        return ("ok", model), ("ok", impl)
    finally:
        shutil.rmtree(d, ignore_errors=True)


def _run_crash(c):
    """one run in a clean directory, killed before operation k, for every k (and one beyond the end)"""
    obs = c["observed"]
    reg = Registry()
    reg.add_run(obs)
    d = _tmp()
    try:
        # length of the trace
        out = Path(d) / "full"
        out.mkdir()
        ind = Path(d) / "in_full"
        ind.mkdir()
        tap = IoTap(out)
        _exec_run(obs, ind, out, tap)
        n_ops = len(tap.trace)
        mtrace = _model_trace(obs, reg)
        ks = list(range(0, n_ops + 1))
        if len(ks) > 70:
            step = len(ks) / 70.0
            ks = sorted(set(int(i * step) for i in range(70)) | {n_ops})
        impl_states, lines = [], []
        for k in ks:
            o = Path(d) / ("k%d" % k)
            o.mkdir()
            i2 = Path(d) / ("in_k%d" % k)
            i2.mkdir()
            end = _exec_run(obs, i2, o, IoTap(o, kill_at=k))
            snap = _snapshot(o, obs)
            impl_states.append([k, end, {fn: [list(sn), _canon_rows(sn, rows)] for fn, (sn, rows) in snap.items()}])
            lines.append("c09.run %s 1 %s 0" % (_cfg_tok(obs, reg), lib.z(k)))
            shutil.rmtree(o, ignore_errors=True)
            shutil.rmtree(i2, ignore_errors=True)
        model_states = []
        for k, line in zip(ks, lib.run_driver(lines)):
            mfs = _decode_fs(line, {}, reg)
            model_states.append([k, None if mfs is None else sorted([[list(sn), _canon_model(sn, rows)] for sn, rows in mfs.items()])])
        impl_cmp = [[k, sorted([v for v in st.values()])] for k, end, st in impl_states]
        return (("ok", {"n_ops": len(mtrace), "states": model_states, "trace": mtrace}),
                ("ok", {"n_ops": n_ops, "states": impl_cmp, "trace": _trace_struct(tap.trace, obs),
                        "ends": [e for _, e, _ in impl_states]}))
    finally:
        shutil.rmtree(d, ignore_errors=True)


class _StopAfterVerify(Exception):
    pass


def _main_until_read_pin(argv, cwd=None):
    """mokapot.mokapot.main with read_pin replaced by a stub that raises: the command line's verify step alone"""
    import logging
    import mokapot.mokapot as mm
    old = mm.read_pin
    cwd0 = os.getcwd()

    def stop(*a, **k):
        raise _StopAfterVerify()
    mm.read_pin = stop
    try:
        if cwd is not None:
            os.chdir(cwd)
        try:
            mm.main(argv)
            return "returned"
        except _StopAfterVerify:
            return "verified"
        except BaseException as e:  # noqa
            if isinstance(e, (KeyboardInterrupt, MemoryError)):
                raise
            return "raised " + type(e).__name__
    finally:
        os.chdir(cwd0)
        mm.read_pin = old
        logging.disable(logging.CRITICAL)


VERIFY_RT_TAGS = ("leftover>conv", "leftover=conv", "leftover<conv", "tail-line-aligned", "tail-mid-line", "tail>8KiB", "conv>8KiB")


def _verify_pins(c):
    if "pins" in c:
        return c["pins"]
    return [{"name": "x.pin", "pin": c["pin"], "leftover": c["leftover"]}]


def _run_verify(c):
    pins = _verify_pins(c)
    d = _tmp()
    try:
        res = {}
        for which in ("dirty", "clean"):
            pd_ = Path(d) / ("pins_" + which)
            pd_.mkdir()
            for p in pins:
                (pd_ / p["name"]).write_text(p["pin"])
                _age(pd_ / p["name"])
                if which == "dirty" and p["leftover"] is not None:
                    (pd_ / (p["name"] + ".tsv")).write_text(p["leftover"])
            if c.get("rel"):
                argv = [p["name"] for p in pins] + ["--dest_dir", str(Path(d) / ("out_" + which)), "--verbosity", "0"]
                end = _main_until_read_pin(argv, cwd=pd_)
            else:
                argv = [str(pd_ / p["name"]) for p in pins] + ["--dest_dir", str(Path(d) / ("out_" + which)), "--verbosity", "0"]
                end = _main_until_read_pin(argv)
            res[which] = (end, pd_)
        end, pd_ = res["dirty"]
        impl = {"end": end, "clean_end": res["clean"][0], "pins": [], "extra_files": sorted(
            fn for fn in os.listdir(pd_) if fn not in [p["name"] for p in pins] + [p["name"] + ".tsv" for p in pins])}
        for p in pins:
            a, t = pd_ / p["name"], pd_ / (p["name"] + ".tsv")
            a2 = res["clean"][1] / p["name"]
            impl["pins"].append({"pin": a.read_text() if a.exists() else None, "tmp": t.read_text() if t.exists() else None,
                                 "pin_clean": a2.read_text() if a2.exists() else None})
        # how long the leftover is relative to the conversion (= the PIN after the clean run, when it was converted), and
        # whether what lies behind that length starts at a line boundary: decided here, reported as tags
        tags = c.setdefault("tags", [])
        for t in VERIFY_RT_TAGS:
            if t in tags:
                tags.remove(t)
        for p, ip in zip(pins, impl["pins"]):
            conv = ip["pin_clean"]
            if p["leftover"] is None or conv is None or conv == p["pin"]:
                continue
            nl, nc = len(p["leftover"].encode()), len(conv.encode())
            new = ["leftover>conv" if nl > nc else "leftover=conv" if nl == nc else "leftover<conv"]
            if nl > nc:
                new.append("tail-line-aligned" if p["leftover"].encode()[nc - 1:nc] == b"\n" else "tail-mid-line")
                if nl - nc > 8192:
                    new.append("tail>8KiB")
                if nc > 8192:
                    new.append("conv>8KiB")
            tags.extend(t for t in new if t not in tags)
        # model: pin by pin, in the order of the command line; a conversion that raises stops the run
        lines = []
        for p in pins:
            ents = ["3 %s %s" % (lib.z(1), lib.s(p["pin"]))]
            if p["leftover"] is not None:
                ents.append("4 %s %s" % (lib.z(1), lib.s(p["leftover"])))
            lines.append("c09.verify 0 %s %d %s" % (lib.z(1), len(ents), " ".join(ents)))
        model = {"end": "verified", "pins": []}
        for p, line in zip(pins, lib.run_driver(lines)):
            t = Toks(line)

            def ent():
                tag = t.int()
                t.z()
                return tag, t.s()
            r = t.opt(lambda: t.lst(ent))
            if model["end"] == "raised" or r is None:
                model["end"] = "raised"
                model["pins"].append({"pin": p["pin"], "tmp": p["leftover"]})
            else:
                dm = {tag: txt for tag, txt in r}
                model["pins"].append({"pin": dm.get(3), "tmp": dm.get(4)})
        return ("ok", model), ("ok", impl)
    finally:
        shutil.rmtree(d, ignore_errors=True)


# ---- the whole command line
def _cli_pobs(run):
    """the run seen as a specification of assign_confidence: what decides the NAMES of the files the command line creates"""
    stems = [p["stem"] for p in run["pins"]]
    prefixes = [None] * len(stems) if (run["aggregate"] or len(stems) == 1) else stems
    root = (run["file_root"] + ".") if run["file_root"] is not None else ""
    return {"levels": [], "rollup": not run["skip_rollup"], "prefixes": prefixes, "root": root, "fmt": "tsv", "ext": ".pin",
            "decoys": run["keep_decoys"], "chunk": run["chunk"],
            "files": [{"targets": [0] * (len(p["text"].splitlines()) - 1)} for p in run["pins"]],
            "models": [root + "mokapot.model_fold-%d.pkl" % (i + 1) for i in range(run["folds"])] if run["save_models"] else []}


def _cli_prepare(run, indir, dest, leftovers):
    where = Path(dest) if run["in_dest"] else Path(indir)
    where.mkdir(exist_ok=True)
    paths = []
    for p in run["pins"]:
        q = where / (p["stem"] + ".pin")
        q.write_text(p["text"])
        _age(q)
        if leftovers and p["leftover"] is not None:
            Path(str(q) + ".tsv").write_text(p["leftover"])
        paths.append(q)
    return paths


def _cli_exec(run, paths, dest, tap):
    import logging
    import mokapot.mokapot as mm
    import mokapot.confidence as conf
    old = conf.peps_from_scores
    conf.peps_from_scores = _const_peps
    cwd0 = os.getcwd()
    dest = Path(dest)
    try:
        argv = []
        cwd = None
        if run["dest"] == "default":
            dest.mkdir(exist_ok=True)
            cwd = dest
        elif run["dest"] == "rel":
            cwd = dest.parent
            argv += ["--dest_dir", dest.name]
        else:
            argv += ["--dest_dir", str(dest)]
            if run["pins_rel"]:
                cwd = paths[0].parent
        if cwd is not None:
            os.chdir(cwd)
        pins = [os.path.relpath(p, cwd) if (run["pins_rel"] and cwd is not None) else str(p) for p in paths]
        argv = pins + argv + ["--train_fdr", "0.5", "--test_fdr", "0.5", "--max_iter", "2", "--folds", str(run["folds"]),
                              "--seed", str(run["seed"]), "--max_workers", str(run["workers"]), "--verbosity", "0"]
        if run["file_root"] is not None:
            argv += ["--file_root", run["file_root"]]
        for flag in ("aggregate", "keep_decoys", "skip_rollup", "save_models"):
            if run[flag]:
                argv.append("--" + flag)
        with brewlib.Chunking(confidence=run["chunk"]):
            try:
                with _Tapped(tap):
                    mm.main(argv)
                return "complete"
            except KillSim:
                return "killed"
            except Injected:
                return "failed"
            except BaseException as e:   # noqa
                if isinstance(e, (KeyboardInterrupt, MemoryError)):
                    raise
                return "raised " + type(e).__name__ + ": " + str(e)[:120]
    finally:
        os.chdir(cwd0)
        conf.peps_from_scores = old
        logging.disable(logging.CRITICAL)


def _canon_obj(o, depth=0):
    """a pickled model as plain data, without the wall-clock timings scikit-learn's GridSearchCV records (cv_results_
    mean_fit_time ..., refit_time_) — the only part of a saved model that differs between two identical runs"""
    import numpy as np
    if depth > 12:
        return repr(type(o))
    if isinstance(o, np.random.Generator):
        return ["rng", _canon_obj(o.bit_generator.state, depth + 1)]
    if isinstance(o, np.ndarray):
        return ["nd", str(o.dtype), o.shape, [_canon_obj(x, depth + 1) for x in o.ravel().tolist()]]
    if isinstance(o, np.generic):
        return o.item() if not isinstance(o.item(), float) else repr(o.item())
    if isinstance(o, float):
        return repr(o)
    if isinstance(o, (str, int, bool, bytes)) or o is None:
        return o
    if isinstance(o, dict):
        return {str(k): _canon_obj(v, depth + 1) for k, v in sorted(o.items(), key=lambda kv: str(kv[0]))
                if not (isinstance(k, str) and k.endswith("_time")) and k != "refit_time_"}
    if isinstance(o, (list, tuple)):
        return [_canon_obj(x, depth + 1) for x in o]
    if hasattr(o, "__dict__"):
        return [type(o).__name__, _canon_obj(vars(o), depth + 1)]
    return repr(o)


def _cli_files(dest, names):
    import pickle
    res = {}
    for fn in sorted(names):
        p = Path(dest) / fn
        if not p.is_file():
            res[fn] = None
        elif fn.endswith(".pkl"):
            raw = p.read_bytes()
            try:
                res[fn] = lib.jsonable(["model", _canon_obj(pickle.loads(raw))])
            except Exception:           # noqa: not a model
                res[fn] = raw.decode("latin1")
        else:
            res[fn] = p.read_bytes().decode("latin1")
    return res


def _run_cli(c):
    obs = c["observed"]
    pobs = _cli_pobs(obs)
    d = _tmp()
    try:
        dest = Path(d) / "out"
        dest.mkdir()
        ends = []
        for i, r in enumerate(c["runs"]):
            paths = _cli_prepare(r, Path(d) / ("in_r%d" % i), dest, True)
            ends.append(_cli_exec(r, paths, dest, _tap_for(r, dest))[:40])
            if i == 0:
                _write_junk(c["junk"], dest, pobs, Registry())
        if not c["runs"]:
            _write_junk(c["junk"], dest, pobs, Registry())
        paths = _cli_prepare(obs, Path(d) / "in_obs", dest, True)
        pin_names = [p.name for p in paths] + [p.name + ".tsv" for p in paths]
        results = _own_results(pobs) | set(pobs["models"])
        own = results | _own_intermediates(pobs) | (set(pin_names) if obs["in_dest"] else set())
        before_tree = _tree(dest)
        before = sorted(os.listdir(dest))
        tsv_before = [Path(str(p) + ".tsv").read_bytes() if Path(str(p) + ".tsv").is_file() else None for p in paths]
        overlap = any(fn in own or _glob_hit(fn, pobs) for fn in before) or any(p["leftover"] is not None for p in obs["pins"]) \
            or any(t is not None for t in tsv_before)
        tags = c.setdefault("tags", [])
        for t in ("overlap", "no-overlap", "pin-leftover>conv", "pin-leftover<=conv"):
            if t in tags:
                tags.remove(t)
        tags.append("overlap" if overlap else "no-overlap")
        end = _cli_exec(obs, paths, dest, IoTap(dest))
        after = sorted(os.listdir(dest))
        after_tree = _tree(dest)
        # the same command in a clean directory (which the command has to create itself unless the PINs live in it)
        dest2 = Path(d) / "clean"
        if obs["in_dest"]:
            dest2.mkdir()
        paths2 = _cli_prepare(obs, Path(d) / "in_clean", dest2, False)
        end2 = _cli_exec(obs, paths2, dest2, IoTap(dest2))
        clean = sorted(os.listdir(dest2)) if dest2.is_dir() else None
        impl = {"end": end, "clean_end": end2, "earlier_ends": ends, "before": before, "after_files": after, "clean_listing": clean,
                "expected_clean_listing": sorted(results | (set(p.name for p in paths) if obs["in_dest"] else set())),
                "dirty_bytes": _cli_files(dest, results), "clean_bytes": _cli_files(dest2, results),
                "pins": [p.read_text() if p.exists() else None for p in paths],
                "pins_clean": [p.read_text() if p.exists() else None for p in paths2],
                "tsv_left": [p.name + ".tsv" for p, q in zip(paths, obs["pins"]) if Path(str(p) + ".tsv").exists() and q["ragged"]],
                "bystanders_changed": _changed_bystanders(before_tree, after_tree, own),
                "intermediates_left": sorted(fn for fn in after if fn in _own_intermediates(pobs)),
                "extra": sorted(fn for fn in after if fn not in before and fn not in results)}
        # a leftover <pin>.tsv next to a PIN that is converted: longer than the conversion (the PIN after the clean run) or not
        for q, t, pc in zip(obs["pins"], tsv_before, impl["pins_clean"]):
            if t is not None and pc is not None and pc != q["text"]:
                tg = "pin-leftover>conv" if len(t) > len(pc.encode()) else "pin-leftover<=conv"
                if tg not in tags:
                    tags.append(tg)
        return ("ok", {"end": "not-modelled"}), ("ok", impl)
    finally:
        shutil.rmtree(d, ignore_errors=True)


# ---- the stand-alone rollup tool (mokapot.brew_rollup): temp.<level>s files, result files of an earlier rollup
RU_LEVEL = {"ModifiedPeptide": "modified_peptide", "Precursor": "precursor", "PeptideGroup": "peptide_group"}


def _gen_rollup_src(rng, run_idx):
    levels = [l for l in LEVEL_COLS if rng.random() < 0.4]
    ncoll = rng.choice([1, 2, 2])
    files, scores = [], []
    for j in range(ncoll):
        n = rng.randint(6, 24)
        files.append(brewlib.gen_file(rng, n, 2, file_idx=run_idx * 10 + j, mult=(1, 2), levels=levels, npep=max(2, n // 3)))
        scores.append([float(v) for v in rng.sample(range(-n, 3 * n), n)])
    return {"files": files, "scores": scores, "levels": levels, "prefixes": rng.sample(["a", "b", "coll0"], ncoll),
            "root": rng.choice(["rollup", "ro", "ro", "r.x"]), "end": "complete"}


def _gen_rollup(rng, k):
    obs = _gen_rollup_src(rng, 8)
    obs["dest_is_src"] = rng.random() < 0.3
    runs = []
    if not obs["dest_is_src"]:
        for r in range(rng.choice([0, 1, 1, 2])):
            e = _gen_rollup_src(rng, r)
            if rng.random() < 0.7:
                e["root"] = obs["root"]
            mode = rng.choice(["kill", "fail", "complete"])
            e["end"] = mode if mode == "complete" else [mode, rng.randint(0, 20)]
            runs.append(e)
    junk = [{"kind": rng.choice(["temp", "temp", "garbage-temp", "own-output", "near", "other-root", "empty-temp"]),
             "level": rng.choice(["peptide", "peptide", "precursor", "modified_peptide", "peptide_group"]),
             "variant": rng.randint(0, 50), "seed": rng.randint(0, 10 ** 6)} for _ in range(rng.choice([1, 2, 3]))]
    return {"fn": "rollup", "observed": obs, "runs": runs, "junk": junk,
            "tags": ["rollup", "earlier=%d" % len(runs), "dest=src" if obs["dest_is_src"] else "dest!=src", "root=" + obs["root"]]
                    + ["end=" + (r["end"] if isinstance(r["end"], str) else r["end"][0]) for r in runs] + sorted(set("junk:" + j["kind"] for j in junk))}


def _rollup_make_src(spec, src, indir):
    """the source directory of a rollup: the result files of a real assign_confidence run"""
    import numpy as np
    import mokapot
    import mokapot.confidence as conf
    old = conf.peps_from_scores
    conf.peps_from_scores = _const_peps
    try:
        Path(indir).mkdir(exist_ok=True)
        Path(src).mkdir(exist_ok=True)
        paths = [_write_input(f, indir, "in%d" % i, ".pin") for i, f in enumerate(spec["files"])]
        dss = mokapot.read_pin(paths, max_workers=1)
        mokapot.assign_confidence(dss, max_workers=1, scores=[np.array(s, dtype=float) for s in spec["scores"]], eval_fdr=0.5,
                                  dest_dir=Path(src), prefixes=list(spec["prefixes"]), decoys=True, do_rollup=True, rng=7)
        for fn in os.listdir(src):
            _age(Path(src) / fn)
    finally:
        conf.peps_from_scores = old


def _rollup_exec(spec, src, dest, tap):
    import logging
    import mokapot.brew_rollup as br
    old = br.peps_from_scores
    br.peps_from_scores = _const_peps
    try:
        try:
            with _Tapped(tap):
                br.main(["--level", "psm", "--src_dir", str(src), "--dest_dir", str(dest), "--file_root", spec["root"], "--verbosity", "0"])
            return "complete"
        except KillSim:
            return "killed"
        except Injected:
            return "failed"
        except BaseException as e:   # noqa
            if isinstance(e, (KeyboardInterrupt, MemoryError)):
                raise
            return "raised " + type(e).__name__
    finally:
        br.peps_from_scores = old
        logging.disable(logging.CRITICAL)


def _rollup_junk(junk, dest, obs):
    import random
    root = obs["root"] + "."
    for j in junk:
        rng = random.Random(j["seed"])
        lv = j["level"] + "s"
        rows = ["old%d\tK.OLD%dK.A\t%d.0\tprotX\t%s" % (i, rng.randint(0, 3), rng.randint(-50, 150), rng.choice(["True", "False"]))
                for i in range(rng.randint(1, 5))]
        table = "psm_id\tpeptide\tscore\tproteinIds\tis_decoy\n" + "\n".join(rows) + "\n"
        var = j["variant"]
        if j["kind"] == "temp":
            (Path(dest) / f"{root}temp.{lv}").write_text(table)
        elif j["kind"] == "garbage-temp":
            (Path(dest) / f"{root}temp.{lv}").write_bytes(b"\x00garbage\tnot a table\n\xff\xfe no newline")
        elif j["kind"] == "empty-temp":
            (Path(dest) / f"{root}temp.{lv}").write_bytes(b"")
        elif j["kind"] == "own-output":
            (Path(dest) / f"{root}{['targets', 'decoys'][var % 2]}.{lv}").write_text(table)
        elif j["kind"] == "near":
            names = [f"{root}temp.{lv}.bak", f"{root}temp.{lv[:-1]}", f"x{root}temp.{lv}", f"{root}temp.{lv}~", f"{root}tmp.{lv}",
                     f"{root}targets.{lv}.old"]
            (Path(dest) / names[var % len(names)]).write_text(table)
        else:
            (Path(dest) / f"zz.{['temp', 'targets', 'decoys'][var % 3]}.{lv}").write_text(table)


def _run_rollup(c):
    obs = c["observed"]
    d = _tmp()
    try:
        src0 = Path(d) / "src0"
        _rollup_make_src(obs, src0, Path(d) / "in_obs")
        src_names = set(os.listdir(src0))
        res = {}
        for which in ("dirty", "clean"):
            src = Path(d) / ("src_" + which)
            shutil.copytree(src0, src)
            dest = src if obs["dest_is_src"] else Path(d) / ("dest_" + which)
            dest.mkdir(exist_ok=True)
            ends = []
            if which == "dirty":
                for i, r in enumerate(c["runs"]):
                    rsrc = Path(d) / ("src_r%d" % i)
                    _rollup_make_src(r, rsrc, Path(d) / ("in_r%d" % i))
                    ends.append(_rollup_exec(r, rsrc, dest, _tap_for(r, dest)))
                _rollup_junk(c["junk"], dest, obs)
            before = _tree(dest)
            tap = IoTap(dest)
            end = _rollup_exec(obs, src, dest, tap)
            after = _tree(dest)
            res[which] = {"end": end, "before": before, "after": after, "ends": ends,
                          "touched": sorted({str(x) for t in tap.trace for x in t[1:] if isinstance(x, str)}),
                          "bytes": {fn: (Path(dest) / fn).read_bytes().decode("latin1") for fn in after if fn not in before or before[fn] != after[fn]}}
        dirty, clean = res["dirty"], res["clean"]
        # the rollup's own names: what the clean run leaves or wrote and removed again (its temp.<level>s files)
        own = (set(clean["after"]) | set(clean["touched"])) - src_names
        tags = c.setdefault("tags", [])
        for t in ("overlap", "no-overlap"):
            if t in tags:
                tags.remove(t)
        tags.append("overlap" if any(fn in own for fn in dirty["before"]) else "no-overlap")
        impl = {"end": dirty["end"], "clean_end": clean["end"], "earlier_ends": dirty["ends"], "before": sorted(dirty["before"]),
                "after_files": sorted(dirty["after"]), "clean_listing": sorted(clean["after"]),
                "differ": sorted(fn for fn in own if dirty["after"].get(fn) != clean["after"].get(fn)),
                "extra": sorted(fn for fn in dirty["after"] if fn not in dirty["before"] and fn not in own),
                "bystanders_changed": _changed_bystanders(dirty["before"], dirty["after"], own),
                "temp_left": sorted(fn for fn in dirty["after"] if fn in own and ".temp." in fn),
                "sample": {fn: dirty["bytes"].get(fn, "")[:200] for fn in sorted(own)[:2]}}
        return ("ok", {"end": "not-modelled"}), ("ok", impl)
    finally:
        shutil.rmtree(d, ignore_errors=True)


# ---- real subprocess under strace / hard kill
_WORKER = r"""
import json, os, sys
sys.path.insert(0, %(verif)r)
import logging; logging.disable(logging.CRITICAL)
from pathlib import Path
from harness.props import c09
spec = json.load(open(%(spec)r))
tap = c09.IoTap(%(out)r, exit_at=%(exit_at)r)
end = c09._exec_run(spec, %(ind)r, %(out)r, tap)
json.dump({"end": end, "trace": tap.trace}, open(%(res)r, "w"))
"""


def _strace_ops(path, out):
    """mutating file operations under `out` from an strace log"""
    import re
    root = os.path.realpath(str(out)) + "/"
    ops = []
    for line in open(path, errors="replace"):
        m = re.search(r'openat\([^,]+, "([^"]+)", ([A-Z_|]+)', line)
        if m and "= -1" not in line:
            p, flags = m.group(1), m.group(2)
            rp = os.path.realpath(p)
            if rp.startswith(root) and ("O_WRONLY" in flags or "O_RDWR" in flags):
                ops.append(("append" if "O_APPEND" in flags else "write", rp[len(root):]))
            continue
        m = re.search(r'(?:unlink|unlinkat)\((?:[^,"]+, )?"([^"]+)"', line)
        if m and "= -1" not in line:
            rp = os.path.realpath(m.group(1))
            if rp.startswith(root):
                ops.append(("unlink", rp[len(root):]))
            continue
        m = re.search(r'rename(?:at2?)?\((?:[^,"]+, )?"([^"]+)", (?:[^,"]+, )?"([^"]+)"', line)
        if m and "= -1" not in line:
            a, b = os.path.realpath(m.group(1)), os.path.realpath(m.group(2))
            if a.startswith(root) or b.startswith(root):
                ops.append(("move", a[len(root):], b[len(root):]))
    return ops


def _run_strace(c):
    import json
    obs = c["observed"]
    reg = Registry()
    reg.add_run(obs)
    d = _tmp()
    try:
        out = Path(d) / "out"
        out.mkdir()
        ind = Path(d) / "in"
        ind.mkdir()
        spec_p = Path(d) / "spec.json"
        spec_p.write_text(json.dumps(obs))
        res_p = Path(d) / "res.json"
        script = Path(d) / "worker.py"
        script.write_text(_WORKER % {"verif": str(lib.VERIF), "spec": str(spec_p), "out": str(out), "ind": str(ind),
                                     "res": str(res_p), "exit_at": c.get("exit_at")})
        st = Path(d) / "strace.txt"
        have = shutil.which("strace") is not None
        cmd = [sys.executable, "-W", "ignore", str(script)]
        if have:
            cmd = ["strace", "-f", "-qq", "-e", "trace=openat,unlink,unlinkat,rename,renameat,renameat2", "-o", str(st)] + cmd
        p = subprocess.run(cmd, capture_output=True, text=True, timeout=600,
                           env=dict(os.environ, PYTHONPATH=os.environ.get("PYTHONPATH", "")))
        if have and ("ptrace" in p.stderr.lower() or "operation not permitted" in p.stderr.lower()) and not res_p.exists() and p.returncode not in (0, 137):
            # ptrace not permitted here: run without strace
            have = False
            p = subprocess.run([sys.executable, "-W", "ignore", str(script)], capture_output=True, text=True, timeout=600)
        snap = _snapshot(out, obs)
        impl = {"rc": p.returncode, "strace": have, "stderr": p.stderr[-300:] if p.returncode not in (0, 137) else ""}
        impl["state"] = sorted([[list(sn), _canon_rows(sn, rows)] for sn, rows in snap.values()])
        k = c.get("exit_at")
        if k is None:
            tapped = json.loads(res_p.read_text())["trace"] if res_p.exists() else None
            impl["tap_trace"] = _trace_struct([tuple(e) for e in tapped], obs) if tapped is not None else None
            if have:
                # the tap records one operation per create / append / unlink / rename call; parquet appends
                # (write_table) are not visible as system calls and the final flush of a parquet writer is
                impl["sys_trace"] = _trace_struct(_strace_ops(st, out), obs)
        line = lib.run_driver(["c09.run %s %s 0" % (_cfg_tok(obs, reg), "0" if k is None else "1 " + lib.z(k))])[0]
        mfs = _decode_fs(line, {}, reg)
        model = {"state": None if mfs is None else sorted([[list(sn), _canon_model(sn, rows)] for sn, rows in mfs.items()]),
                 "trace": _model_trace(obs, reg)}
        return ("ok", model), ("ok", impl)
    finally:
        shutil.rmtree(d, ignore_errors=True)


def run_case(c):
    fn = c["fn"]
    if fn == "dirty":
        return _run_dirty(c)
    if fn == "crash":
        return _run_crash(c)
    if fn == "verify":
        return _run_verify(c)
    if fn == "cli":
        return _run_cli(c)
    if fn == "rollup":
        return _run_rollup(c)
    if fn == "strace":
        return _run_strace(c)
    raise ValueError(fn)


def _sys_visible(trace, parquet):
    """the part of an operation trace that is visible as system calls: for Parquet files appends happen
    through an already open descriptor"""
    out = []
    for k, n in trace:
        if parquet and k == 1 and n[0] in ("chunk", "level"):
            continue
        out.append([k, n])
    return out


def same(c, m, i):
    if m[0] != "ok" or i[0] != "ok":
        return False
    m, i = m[1], i[1]
    J = lib.jsonable
    fn = c["fn"]
    if fn == "dirty":
        # the property itself, on every case
        if oracle(c, ("ok", i)) is not None:
            return False
        if m["end"] == "not-modelled":
            # outside the model (protein step refusing its table, SQLite output, collections of different formats, ...):
            # the run must end the same way in the dirty and in the clean directory
            return i["end"] == i["clean_end"]
        if i["end"] != "complete" or m["end"] != "complete":
            return False
        if J(m["listing"]) != J(i["listing"]):
            return False
        if J(m["results"]) != J(i["results"]):
            return False
        if J(i["kept"]) != J({k: v for k, v in i["kept_before"].items() if k in i["kept"]}):
            return False
        if m["trace"] is not None and J(m["trace"]) != J(i["trace"]):
            return False
        return True
    if fn == "cli":
        if oracle(c, ("ok", i)) is not None:
            return False
        if i["end"] != i["clean_end"]:
            return False
        if i["end"] == "complete" and J(i["clean_listing"]) != J(i["expected_clean_listing"]):
            return False          # the harness' knowledge of the names the command line creates is wrong
        return True
    if fn == "rollup":
        return oracle(c, ("ok", i)) is None and i["end"] == i["clean_end"]
    if fn == "crash":
        return J(m["trace"]) == J(i["trace"]) and J(m["states"]) == J(i["states"])
    if fn == "verify":
        if oracle(c, ("ok", i)) is not None:
            return False
        pins = _verify_pins(c)
        if m["end"] == "raised":
            if not i["end"].startswith("raised"):
                return False
        elif i["end"] != "verified":
            return False
        if i["extra_files"]:
            return False
        for p, mp, ip in zip(pins, m["pins"], i["pins"]):
            if mp["pin"] != ip["pin"] or mp["tmp"] != ip["tmp"]:
                return False
        return True
    if fn == "strace":
        ms, is_ = m["state"], i["state"]
        if c.get("exit_at") is not None and ms is not None and len(ms) == len(is_):
            # a Parquet level file is written through a writer that stays open: after a hard kill it has no footer and
            # cannot be read (rows are buffered in the process) — only its existence is compared
            ms = [[n, None] if (n[0] == "level" and n[-1] is True and r2 is None and n == n2) else [n, r]
                  for (n, r), (n2, r2) in zip(ms, is_)]
        if J(ms) != J(is_):
            return False
        if c.get("exit_at") is None:
            if i.get("tap_trace") is None or J(m["trace"]) != J(i["tap_trace"]):
                return False
            if i.get("strace"):
                pq = _ext(c["observed"]) == ".parquet"
                want = _sys_visible(m["trace"], pq)
                got = [e for e in i["sys_trace"]]
                if pq:
                    # a parquet writer may open its file more than once; compare create/unlink per file in order, ignoring repeats
                    def dedup(t):
                        o = []
                        for e in t:
                            if not o or o[-1] != e:
                                o.append(e)
                        return o
                    return J(dedup(want)) == J(dedup(got))
                return J(want) == J(got)
        return True
    return False


def nontrivial(c):
    tags = c.get("tags", [])
    if c["fn"] in ("dirty", "cli", "rollup"):
        # decided when the case is run: the directory found by the observed run holds a file under one of the names the run
        # writes, removes or could glob
        if "overlap" in tags or "no-overlap" in tags:
            return "overlap" in tags
        return bool(c["runs"]) or any(j["kind"] != "other" for j in c["junk"])
    if c["fn"] == "verify":
        return any(p["leftover"] is not None for p in _verify_pins(c))
    return True


# ---------------------------------------------------------------------------- the property itself
def _pfx_distinct(obs):
    """no prefix other than None is used by two collections (pfx_distinct of Proofs/FsAppendP.v)"""
    ps = [p for p in obs["prefixes"] if p]
    return len(ps) == len(set(ps))


def _strip_header(text):
    """the rows of a result file: everything after the header line"""
    if not text:
        return ""
    return text.split("\n", 1)[1] if "\n" in text else ""


def oracle(c, i):
    if i[0] != "ok":
        return None          # a crash of the harness is not a failing input
    r = i[1]
    if c["fn"] == "dirty":
        obs = c["observed"]
        if r["clean_end"] == "complete" and r["end"] != "complete":
            return f"the run succeeds in a clean directory but ends '{r['end']}' in the dirty one (leftovers: {r['before']})"
        if r["end"] != "complete":
            return None
        if r["clean_end"] != "complete":
            return f"the run ends '{r['clean_end']}' in a clean directory but succeeds in the dirty one (leftovers: {r['before']})"
        if obs.get("append"):
            # append_to_output_file: the result files the caller prepared are an input; the run adds to them exactly what it
            # writes (without header) in a clean directory
            want = {k: (r["base_bytes"].get(k) or "") + (v or "") for k, v in r["clean_bytes"].items()}
            if r.get("noappend_end") is not None and _pfx_distinct(obs):
                # C09_append_prefix / C09_append_files: previous content, then the rows (the header line apart) the run
                # without appending writes in an empty directory
                if r["noappend_end"] != "complete":
                    return f"the run succeeds when appending but ends '{r['noappend_end']}' without appending in an empty directory"
                want2 = {k: (r["base_bytes"].get(k) or "") + _strip_header(v) for k, v in r["noappend_bytes"].items()}
                if r["dirty_bytes"] != want2:
                    bad = sorted(k for k in set(r["dirty_bytes"]) | set(want2) if r["dirty_bytes"].get(k) != want2.get(k))
                    return (f"append_to_output_file: result files {bad} are not their previous content followed by the rows "
                            f"the run without appending writes in an empty directory (before the run: {r['before']})")
        elif obs.get("sqlite"):
            want = {k: None for k in r["clean_bytes"]}
            if r["clean_bytes"] != want:
                return f"result files remain although the results went to the database: {[k for k, v in r['clean_bytes'].items() if v is not None]}"
            if r.get("db") != r.get("clean_db"):
                return (f"the database filled by the run in the dirty directory differs from the one filled by the same run in a "
                        f"clean directory (leftovers before the run: {r['before']})")
        else:
            want = r["clean_bytes"]
        if r["dirty_bytes"] != want:
            bad = sorted(k for k in set(r["dirty_bytes"]) | set(want) if r["dirty_bytes"].get(k) != want.get(k))
            return (f"result files {bad} of the run in the dirty directory differ from those of the same run in a clean "
                    f"directory (leftovers before the run: {r['before']})")
        extra = [f for f in r["after_files"] if f not in r["before"] and f not in _own_results(obs)]
        if extra:
            return f"intermediate files remain after a successful run: {extra}"
        mine = [f for f in r["after_files"] if f in _own_intermediates(obs)]
        if mine:
            return f"intermediate files of this run remain after it succeeded: {mine}"
        if r.get("bystanders_changed"):
            return f"files that are none of the run's own were changed or removed: {r['bystanders_changed']}"
        if r.get("inputs_changed"):
            return f"the input files were changed or removed: {r['inputs_changed']}"
        return None
    if c["fn"] == "cli":
        if r["clean_end"] == "complete" and r["end"] != "complete":
            return f"the command succeeds in a clean directory but ends '{r['end']}' in the dirty one (leftovers: {r['before']})"
        if r["end"] != "complete":
            return None
        if r["clean_end"] != "complete":
            return f"the command ends '{r['clean_end']}' in a clean directory but succeeds in the dirty one (leftovers: {r['before']})"
        if r["dirty_bytes"] != r["clean_bytes"]:
            bad = sorted(k for k in r["clean_bytes"] if r["dirty_bytes"].get(k) != r["clean_bytes"].get(k))
            return (f"result files {bad} of the command in the dirty directory differ from those of the same command in a clean "
                    f"directory (leftovers before the run: {r['before']})")
        if r["pins"] != r["pins_clean"]:
            return "the user's PIN files after the run differ depending on leftovers"
        if r["intermediates_left"] or r["extra"] or r["tsv_left"]:
            return f"intermediate files remain after a successful run: {r['intermediates_left'] + r['extra'] + r['tsv_left']}"
        if r["bystanders_changed"]:
            return f"files that are none of the run's own were changed or removed: {r['bystanders_changed']}"
        return None
    if c["fn"] == "rollup":
        msg = _rollup_independent(r)
        if msg:
            return msg
        if r["end"] == "complete" and r["temp_left"]:
            return f"intermediate files remain after a successful rollup: {r['temp_left']}"
        return None
    if c["fn"] == "verify":
        for p, ip in zip(_verify_pins(c), r["pins"]):
            if ip["pin"] != ip["pin_clean"]:
                return (f"the user's PIN {p['name']} after the verify step differs depending on a pre-existing <pin>.tsv: "
                        f"{str(ip['pin'])[:80]!r} vs {str(ip['pin_clean'])[:80]!r}")
        return None
    return None


def shrink(c):
    if c["fn"] not in ("dirty", "cli"):
        return
    if c["junk"]:
        for i in range(len(c["junk"])):
            if c["junk"][i]["kind"] != "append-base":
                yield dict(c, junk=c["junk"][:i] + c["junk"][i + 1:])
    if c["runs"]:
        for i in range(len(c["runs"])):
            yield dict(c, runs=c["runs"][:i] + c["runs"][i + 1:])
    obs = c["observed"]
    if c["fn"] == "dirty" and len(obs["files"]) > 1:
        for i in range(len(obs["files"])):
            o = dict(obs)
            for key in ("files", "scores", "prefixes", "descs", "exts"):
                if obs.get(key) is not None:
                    o[key] = obs[key][:i] + obs[key][i + 1:]
            if o.get("exts") and ".parquet" not in o["exts"]:
                o.pop("exts")
            yield dict(c, observed=o)
    if c["fn"] == "dirty":
        for key, plain in (("root", ""), ("cwd", "abs"), ("in_dest", False)):
            if obs.get(key) not in (None, plain):
                yield dict(c, observed=dict(obs, **{key: plain}))


def _rollup_independent(r):
    """the first half of the property for the rollup tool: its files do not depend on what the destination held before"""
    if r["clean_end"] == "complete" and r["end"] != "complete":
        return f"the rollup succeeds in a clean directory but ends '{r['end']}' in the dirty one (leftovers: {r['before']})"
    if r["end"] != "complete":
        return None
    if r["clean_end"] != "complete":
        return f"the rollup ends '{r['clean_end']}' in a clean directory but succeeds in the dirty one (leftovers: {r['before']})"
    if r["differ"]:
        return (f"files {r['differ']} written by the rollup in the dirty directory differ from those of the same rollup in a clean "
                f"directory (leftovers before the run: {r['before']})")
    if r["extra"]:
        return f"files appear only when the rollup runs in the dirty directory: {r['extra']}"
    if r["bystanders_changed"]:
        return f"files that are none of the rollup's own were changed or removed: {r['bystanders_changed']}"
    return None


def finding_key(c, m, i):
    """nothing is classified: the finding brew_rollup:temp-files-remain is repaired in /repo (2c987dd); a temp.<level>s file
    left by a successful rollup is a violation again"""
    return None
