"""C09 — a run's results depend only on its inputs, not on leftovers; no intermediates remain.

Real mokapot.assign_confidence (and the CLI's PIN verify step) are run in directories that earlier runs —
completed, failed at an injected I/O error, or killed between two file operations — have left dirty; the
directory found before the observed run is parsed and handed to the extracted model (Model/Fs.v), whose
prediction of the result files and of the final listing is compared with what the real run produced.
Separately the model's operation list itself is validated: against the sequence of mutating file
operations of the real run, and, for every kill point k, against the directory a killed run leaves."""
import builtins
import itertools
import os
import shutil
import subprocess
import sys
import tempfile
import threading
from fractions import Fraction
from pathlib import Path

from .. import lib, brewlib
from ..lib import Toks, call_impl

PROP = "C09"
RULE = ("case kinds: dirty = 1-3 earlier runs (other tables, chunk sizes, prefixes, formats; each completed, failed at an injected "
        "I/O error at operation k, or killed before operation k) + synthetic leftovers (stale chunk / level / result files, garbage) "
        "followed by the observed assign_confidence run, compared with the model's prediction from the parsed dirty directory "
        "(result rows with q-values, final listing, operation trace) and with the same run in a clean directory; crash = one run "
        "killed before operation k for every k, directory compared with the model's exec_crash k; verify = the CLI's PIN verify step "
        "with / without a pre-existing <pin>.tsv (PINs of 1-6 PSMs, and PINs without PSMs: header only / header + DefaultDirection "
        "line); strace = system-call trace of a real subprocess run against the Python-level tap. "
        "distinct = distinct case; non-trivial = the dirty directory holds a file whose name the observed run also uses or globs")
ASSUMPTIONS = [
    "file operations are atomic at the granularity of one create / append / unlink / rename call (torn appends are covered by the theorem's quantification over all directories, not by the correspondence runs)",
    "the tap sees every mutating file operation of mokapot (cross-checked against strace on real subprocess runs when ptrace is permitted)",
    "PEP estimation is replaced by a constant during these runs (oracle of C06)",
    "the input files live outside the destination directory",
]
TRUSTED_EXTRA = ["POSIX semantics of open(O_TRUNC) / open(O_APPEND) / unlink / rename (oracle)",
                 "pandas / pyarrow readers and writers of intermediate and result files (oracle)"]

LEVEL_COLS = ["ModifiedPeptide", "Precursor", "PeptideGroup"]
SPEC_COLS = ("filename", "ScanNr", "ret_time", "ExpMass")


# ============================================================================ tap on mutating I/O
class KillSim(BaseException):
    """the process is 'killed': raised at the kill point; afterwards every mutating call is a no-op"""


class Injected(RuntimeError):
    """an ordinary I/O failure: the code's own error handling runs with working I/O"""


class IoTap:
    _tl = threading.local()

    def __init__(self, root, kill_at=None, fail_at=None, exit_at=None):
        self.root = os.path.realpath(str(root))
        self.kill_at, self.fail_at, self.exit_at = kill_at, fail_at, exit_at
        self.killed = False
        self.count = 0
        self.trace = []
        self.lock = threading.Lock()
        self.saved = []

    # -- helpers
    def _rel(self, p):
        try:
            p = os.fspath(p)
        except TypeError:
            return None
        if isinstance(p, bytes):
            p = p.decode()
        rp = os.path.realpath(p)
        if rp.startswith(self.root + os.sep):
            return rp[len(self.root) + 1:]
        return None

    def _nested(self):
        return getattr(self._tl, "depth", 0) > 0

    def _gate(self, kind, rel, rel2=None):
        """called before a mutating operation on a file under root; returns False if the
        operation must be skipped (process already 'dead')"""
        with self.lock:
            if self.killed:
                return False
            if self.kill_at is not None and self.count == self.kill_at:
                self.killed = True
                raise KillSim()
            if self.exit_at is not None and self.count == self.exit_at:
                os._exit(137)
            if self.fail_at is not None and self.count == self.fail_at:
                self.fail_at = None
                self.count += 1          # the failing call counts as an operation that did nothing
                self.trace.append(("fail", rel))
                raise Injected("injected I/O failure")
            self.count += 1
            self.trace.append((kind, rel) if rel2 is None else (kind, rel, rel2))
            return True

    def _wrap(self, owner, name, make):
        orig = getattr(owner, name)
        self.saved.append((owner, name, orig))
        setattr(owner, name, make(orig))

    def _call(self, orig, *a, **k):
        self._tl.depth = getattr(self._tl, "depth", 0) + 1
        try:
            return orig(*a, **k)
        finally:
            self._tl.depth -= 1

    def __enter__(self):
        import pandas as pd
        import pyarrow.parquet as pq
        import pathlib
        tap = self

        def mk_to_csv(orig):
            def to_csv(df, path_or_buf=None, *a, **k):
                rel = None if tap._nested() else tap._rel(path_or_buf) if path_or_buf is not None else None
                if rel is None:
                    return tap._call(orig, df, path_or_buf, *a, **k)
                kind = "append" if "a" in k.get("mode", "w") else "write"
                if not tap._gate(kind, rel):
                    return None
                return tap._call(orig, df, path_or_buf, *a, **k)
            return to_csv

        def mk_to_parquet(orig):
            def to_parquet(df, path=None, *a, **k):
                rel = None if tap._nested() else tap._rel(path) if path is not None else None
                if rel is None:
                    return tap._call(orig, df, path, *a, **k)
                if not tap._gate("write", rel):
                    return None
                return tap._call(orig, df, path, *a, **k)
            return to_parquet

        def mk_pw_init(orig):
            def __init__(w, where, *a, **k):
                rel = None if tap._nested() else tap._rel(where)
                w._c09_rel = rel
                w._c09_dead = False
                if rel is None:
                    return tap._call(orig, w, where, *a, **k)
                if not tap._gate("write", rel):
                    w._c09_dead = True
                    return None
                return tap._call(orig, w, where, *a, **k)
            return __init__

        def mk_pw_write(orig):
            def write_table(w, *a, **k):
                rel = getattr(w, "_c09_rel", None)
                if rel is None or tap._nested():
                    return tap._call(orig, w, *a, **k)
                if getattr(w, "_c09_dead", False) or not tap._gate("append", rel):
                    return None
                return tap._call(orig, w, *a, **k)
            return write_table

        def mk_pw_close(orig):
            def close(w, *a, **k):
                if getattr(w, "_c09_rel", None) is not None and (tap.killed or getattr(w, "_c09_dead", False)):
                    return None
                return tap._call(orig, w, *a, **k)
            return close

        def mk_unlink1(orig):          # os.unlink / os.remove / Path.unlink
            def unlink(p, *a, **k):
                rel = None if tap._nested() else tap._rel(p)
                if rel is None:
                    return tap._call(orig, p, *a, **k)
                if not tap._gate("unlink", rel):
                    return None
                return tap._call(orig, p, *a, **k)
            return unlink

        def mk_move(orig):
            def move(src, dst, *a, **k):
                r1 = None if tap._nested() else tap._rel(src)
                r2 = None if tap._nested() else tap._rel(dst)
                if r1 is None and r2 is None:
                    return tap._call(orig, src, dst, *a, **k)
                if not tap._gate("move", r1, r2):
                    return None
                return tap._call(orig, src, dst, *a, **k)
            return move

        def mk_open(orig):
            def open_(file, mode="r", *a, **k):
                if tap._nested() or not isinstance(mode, str) or not any(c in mode for c in "wax+"):
                    return orig(file, mode, *a, **k)
                rel = tap._rel(file) if not isinstance(file, int) else None
                if rel is None:
                    return orig(file, mode, *a, **k)
                kind = "append" if "a" in mode else "write"
                if not tap._gate(kind, rel):
                    return orig(os.devnull, mode, *a, **k)
                return orig(file, mode, *a, **k)
            return open_

        self._wrap(pd.DataFrame, "to_csv", mk_to_csv)
        self._wrap(pd.DataFrame, "to_parquet", mk_to_parquet)
        self._wrap(pq.ParquetWriter, "__init__", mk_pw_init)
        self._wrap(pq.ParquetWriter, "write_table", mk_pw_write)
        self._wrap(pq.ParquetWriter, "close", mk_pw_close)
        self._wrap(os, "unlink", mk_unlink1)
        self._wrap(os, "remove", mk_unlink1)
        self._wrap(pathlib.Path, "unlink", mk_unlink1)
        self._wrap(shutil, "move", mk_move)
        self._wrap(os, "rename", mk_move)
        self._wrap(os, "replace", mk_move)
        self._wrap(builtins, "open", mk_open)
        return self

    def __exit__(self, *a):
        for owner, name, orig in reversed(self.saved):
            setattr(owner, name, orig)
        self.saved = []
        return False


# ============================================================================ generation
def _gen_run(rng, run_idx, thorough, observed=False):
    ncoll = rng.choice([1, 1, 2, 3]) if observed else rng.choice([1, 1, 2])
    nkey = rng.choice([1, 2, 4])
    levels = [l for l in LEVEL_COLS if rng.random() < 0.25]
    files, scores = [], []
    for j in range(ncoll):
        n = rng.randint(4, 40 if thorough else 24)
        f = brewlib.gen_file(rng, n, nkey, file_idx=run_idx * 10 + j, mult=(1, rng.choice([1, 3])), levels=levels,
                             npep=rng.choice([2, max(2, n // 3), n]), label_enc=rng.choice(["pm1", "01"]))
        files.append(f)
        scores.append([float(v) for v in rng.sample(range(-n, 3 * n), n)])
    nmax = max(len(f["targets"]) for f in files)
    layout = rng.choice(["none", "none", "all", "mixed", "dup"]) if ncoll > 1 else rng.choice(["none", "none", "all"])
    if layout == "none":
        prefixes = [None] * ncoll
    elif layout == "all":
        prefixes = ["coll%d" % j for j in range(ncoll)]
    elif layout == "dup":
        prefixes = ["coll0"] * ncoll
    else:
        prefixes = [None if (j % 2 == 0) else "coll%d" % j for j in range(ncoll)]
        if rng.random() < 0.5:
            prefixes = prefixes[::-1]
    return {"files": files, "scores": scores, "levels": levels, "nkey": nkey,
            "chunk": max(1, rng.choice([1, 2, 3, 5, nmax - 1, nmax, nmax + 1, 1000] + [d for d in range(2, nmax + 1) if nmax % d == 0])),
            "dedup": rng.random() < 0.6, "rollup": rng.random() < 0.7, "decoys": rng.random() < 0.6,
            "prefixes": prefixes, "fmt": rng.choice(["tsv", "tsv", "tsv", "parquet"]), "workers": 1,
            "end": "complete"}


def _gen_prot_run(rng, run_idx):
    """one collection whose peptides come from a generated FASTA (protein level on)"""
    from . import c15
    fasta, tp, dp = c15.gen_fasta(rng, "mirror", wide=True)
    P = c15._proteins({"fasta": fasta, "fasta_args": dict(c15.FASTA_ARGS)})
    allp = list(P.peptide_map.items()) + list(P.shared_peptides.items())
    tpeps = sorted(p for p, g in allp if not g.startswith("decoy_"))
    dpeps = sorted(p for p, g in allp if g.startswith("decoy_"))
    n = rng.randint(12, 40)
    f = brewlib.gen_file(rng, n, 2, file_idx=run_idx * 10, mult=(1, 2))
    f["data"]["Peptide"] = ["K." + rng.choice(tpeps if t else dpeps) + ".A" for t in f["targets"]]
    return {"files": [f], "scores": [[float(v) for v in rng.sample(range(-n, 3 * n), n)]], "levels": [], "nkey": 2,
            "chunk": max(1, rng.choice([1, 2, 3, 5, n - 1, n, n + 1, 1000])), "dedup": rng.random() < 0.6, "rollup": True,
            "decoys": True, "prefixes": [None], "fmt": "tsv", "workers": 1, "end": "complete", "fasta": fasta}


def gen(ctx):
    cases = []
    # ---- protein level on: the picked-protein step reads the peptide-level file and writes a protein-level file
    rng = ctx.sub("proteins")
    for k in range(30 if ctx.thorough else 8):
        obs = _gen_prot_run(rng, 8)
        runs = []
        if k % 2:
            r = _gen_prot_run(rng, 1)
            r["end"] = [rng.choice(["kill", "fail"]), rng.randint(5, 60)]
            runs.append(r)
        junk = [{"kind": rng.choice(["level", "own-result", "chunk"]), "index": rng.randint(0, 50), "pfx": None, "seed": rng.randint(0, 10 ** 6)}
                for _ in range(rng.choice([1, 2, 3]))]
        cases.append({"fn": "dirty", "runs": runs, "observed": obs, "junk": junk,
                      "tags": ["dirty", "proteins", "earlier=%d" % len(runs), "junk=%d" % len(junk)]})
    rng = ctx.sub("dirty")
    n_dirty = 140 if ctx.thorough else 26
    for k in range(n_dirty):
        n_earlier = rng.choice([0, 1, 1, 2, 3]) if k % 7 else 0
        runs = []
        for r in range(n_earlier):
            spec = _gen_run(rng, r, ctx.thorough)
            mode = rng.choice(["kill", "kill", "fail", "fail", "complete"])
            spec["end"] = mode if mode == "complete" else [mode, rng.randint(0, 60)]
            runs.append(spec)
        obs = _gen_run(rng, 8, ctx.thorough, observed=True)
        obs["workers"] = rng.choice([1, 1, 3])
        if runs and rng.random() < 0.7:
            # leftovers are most dangerous when the earlier run used the same naming
            obs["fmt"] = runs[-1]["fmt"]
        junk = []
        for _ in range(rng.choice([0, 1, 2, 3])):
            junk.append({"kind": rng.choice(["chunk", "chunk", "level", "result", "garbage-chunk", "other"]),
                         "index": rng.choice([0, 1, 2, 5, 17]), "pfx": rng.choice([None, None, "coll0", "coll1"]),
                         "seed": rng.randint(0, 10 ** 6)})
        if rng.random() < 0.6:
            # a stale chunk file whose index is just past (or at) the last chunk the observed run writes
            j = rng.randrange(len(obs["files"]))
            nrows = len(obs["files"][j]["targets"])
            junk.append({"kind": rng.choice(["chunk", "chunk", "garbage-chunk"]), "index": max(0, -(-nrows // obs["chunk"]) + rng.choice([0, 0, -1, 1])),
                         "pfx": obs["prefixes"][j], "seed": rng.randint(0, 10 ** 6)})
        if rng.random() < 0.6:
            # an old result file under exactly a name the observed run will write
            junk.append({"kind": "own-result", "index": rng.randint(0, 50), "pfx": None, "seed": rng.randint(0, 10 ** 6)})
        cases.append({"fn": "dirty", "runs": runs, "observed": obs, "junk": junk,
                      "tags": ["dirty", "earlier=%d" % n_earlier, "junk=%d" % len(junk), "fmt=" + obs["fmt"],
                               "prefix-layout=" + ("none" if not any(obs["prefixes"]) else "all" if all(obs["prefixes"]) else "mixed")]
                              + ["end=" + (r["end"] if isinstance(r["end"], str) else r["end"][0]) for r in runs]})
    # ---- every layout of collection prefixes (2 collections: all 9; 3 collections: a sample), small tables, with an old
    #      result file under a name the run writes
    rng = ctx.sub("layouts")
    import itertools
    lay2 = list(itertools.product([None, "coll0", "coll1"], repeat=2))
    lay3 = list(itertools.product([None, "coll0", "coll1"], repeat=3))
    rng.shuffle(lay3)
    for layout in lay2 + lay3[: (27 if ctx.thorough else 7)]:
        obs = _gen_run(rng, 8, False, observed=True)
        while len(obs["files"]) < len(layout):
            extra = _gen_run(rng, 8, False, observed=True)
            j = len(obs["files"])
            f = brewlib.gen_file(rng, rng.randint(3, 10), obs["nkey"], file_idx=80 + j, levels=obs["levels"])
            obs["files"].append(f)
            obs["scores"].append([float(v) for v in rng.sample(range(-20, 60), len(f["targets"]))])
        obs["files"] = obs["files"][: len(layout)]
        obs["scores"] = obs["scores"][: len(layout)]
        for j, f in enumerate(obs["files"]):
            # distinct PSM ids per collection
            f["data"]["SpecId"] = ["f%d_psm%d" % (80 + j, i) for i in range(len(f["targets"]))]
            f["data"]["rid"] = [(80 + j) * 100000 + i for i in range(len(f["targets"]))]
        obs["prefixes"] = list(layout)
        obs["fmt"] = "tsv"
        junk = [{"kind": "own-result", "index": rng.randint(0, 50), "pfx": None, "seed": rng.randint(0, 10 ** 6)} for _ in range(2)]
        cases.append({"fn": "dirty", "runs": [], "observed": obs, "junk": junk,
                      "tags": ["dirty", "layout-sweep", "layout=" + "/".join(str(x) for x in layout)]})
    # ---- kill points of one run, every k
    rng = ctx.sub("crash")
    for k in range(10 if ctx.thorough else 3):
        spec = _gen_run(rng, 8, False, observed=True)
        spec["fmt"] = "tsv"
        if k == 0:
            spec["chunk"] = 2
        cases.append({"fn": "crash", "observed": spec, "tags": ["crash-sweep"]})
    # ---- the CLI's verify step
    rng = ctx.sub("verify")
    for k in range(60 if ctx.thorough else 16):
        nrow = rng.randint(1, 6)
        nfeat = rng.randint(0, 3)
        ragged = rng.random() < 0.75
        dd = rng.random() < 0.3
        header = ["SpecId", "Label", "ScanNr"] + ["f%d" % i for i in range(nfeat)] + ["Peptide", "Proteins"]
        lines = ["\t".join(header)]
        if dd:
            lines.append("\t".join(["DefaultDirection", "-", "-"] + ["1"] * nfeat + ["-", "-"]))
        for r in range(nrow):
            np_ = rng.randint(2, 4) if (ragged and (r == 0 or rng.random() < 0.5)) else 1
            lines.append("\t".join(["id%d" % r, rng.choice(["1", "-1"]), str(r + 1)] + [str(rng.randint(0, 9)) for _ in range(nfeat)]
                                   + ["K.PEP%dK.A" % r] + ["prot%d" % rng.randint(0, 9) for _ in range(np_)]))
        txt = "\n".join(lines) + ("\n" if rng.random() < 0.8 else "")
        left = rng.choice([None, None, "LEFTOVER\tJUNK\n", "\t".join(header) + "\nold\t1\t7\n", ""])
        cases.append({"fn": "verify", "pin": txt, "leftover": left,
                      "tags": ["verify", "ragged" if ragged else "rectangular", "dd" if dd else "nodd",
                               "leftover" if left is not None else "no-leftover"]})
    # PINs without any PSM (valid / converted to the header since /repo acb0557): header only is left alone (a leftover
    # <pin>.tsv stays), header + DefaultDirection line is replaced by the header line; the same in both tiers
    for nfeat, dd, fnl in itertools.product((0, 2), (False, True), (True, False)):
        header = ["SpecId", "Label", "ScanNr"] + ["f%d" % i for i in range(nfeat)] + ["Peptide", "Proteins"]
        lines = ["\t".join(header)]
        if dd:
            lines.append("\t".join(["DefaultDirection", "-", "-"] + ["1"] * nfeat + ["-", "-"]))
        txt = "\n".join(lines) + ("\n" if fnl else "")
        for left in (None, "LEFTOVER\tJUNK\n", ""):
            cases.append({"fn": "verify", "pin": txt, "leftover": left,
                          "tags": ["verify", "zero-psm", "rectangular", "dd" if dd else "nodd",
                                   "leftover" if left is not None else "no-leftover"]})
    # ---- real subprocesses: strace cross-check of the tap, hard kill
    rng = ctx.sub("strace")
    for k in range(6 if ctx.thorough else 2):
        spec = _gen_run(rng, 8, False, observed=True)
        spec["fmt"] = "tsv" if k % 2 == 0 else "parquet"
        cases.append({"fn": "strace", "observed": spec, "exit_at": rng.randint(1, 12) if k % 2 else None,
                      "tags": ["strace", "fmt=" + spec["fmt"]]})
    return cases


# ============================================================================ running the real code
def _const_peps(scores, targets, *a, **k):
    import numpy as np
    return np.zeros(len(scores))


def _exec_run(spec, indir, out, tap):
    """read_pin + assign_confidence of one run specification; returns how it ended"""
    import numpy as np
    import mokapot
    import mokapot.confidence as conf
    old = conf.peps_from_scores
    conf.peps_from_scores = _const_peps
    try:
        paths = [brewlib.write_file(f, indir, "in%d" % i, spec["fmt"]) for i, f in enumerate(spec["files"])]
        with brewlib.Chunking(confidence=spec["chunk"]):
            dss = mokapot.read_pin(paths, max_workers=1)
            P = None
            if spec.get("fasta"):
                from . import c15
                P = c15._proteins({"fasta": spec["fasta"], "fasta_args": dict(c15.FASTA_ARGS)})
            try:
                with tap:
                    mokapot.assign_confidence(
                        dss, max_workers=spec.get("workers", 1),
                        scores=[np.array(s, dtype=float) for s in spec["scores"]],
                        eval_fdr=0.5, dest_dir=Path(out), prefixes=list(spec["prefixes"]), decoys=spec["decoys"],
                        deduplication=spec["dedup"], do_rollup=spec["rollup"], proteins=P, rng=7)
                return "complete"
            except KillSim:
                return "killed"
            except Injected:
                return "failed"
            except Exception as e:       # noqa: the run itself raised
                return "raised " + type(e).__name__
    finally:
        conf.peps_from_scores = old


def _tap_for(spec, out):
    end = spec.get("end", "complete")
    if end == "complete":
        return IoTap(out)
    mode, k = end
    return IoTap(out, kill_at=k) if mode == "kill" else IoTap(out, fail_at=k)


def _level_names(spec):
    names = ["psms"]
    if spec["rollup"]:
        names += ["peptides"] + [lv.lower() + "s" for lv in spec["levels"]]
    if spec.get("fasta"):
        names.append("proteins")
    return names


def _ext(spec):
    return ".parquet" if spec["fmt"] == "parquet" else ".pin"


# ---- structured names
def _pfx_code(p):
    if not p:
        return 0
    if p.startswith("coll") and p[4:].isdigit():
        return int(p[4:]) + 1
    return None


def struct_name(fn, obs):
    """file name -> structured name of Model/Fs.v, relative to the observed run's configuration"""
    levels = _level_names(obs)
    for ext, eb in ((".parquet", True), (".pin", False)):
        if fn.endswith(ext):
            stem = fn[: -len(ext)]
            if "scores_metadata_" in stem:
                pre, _, idx = stem.partition("scores_metadata_")
                code = _pfx_code(pre[:-1]) if pre.endswith(".") else (0 if pre == "" else None)
                if idx.isdigit() and code is not None and str(int(idx)) == idx:
                    return ("chunk", code, int(idx), eb)
            if stem in levels:
                return ("level", levels.index(stem), eb)
    parts = fn.split(".")
    if len(parts) >= 2 and parts[-2] in ("targets", "decoys") and parts[-1] in levels:
        pre = ".".join(parts[:-2])
        code = _pfx_code(pre)
        if code is not None:
            return ("result", code, parts[-2] == "decoys", levels.index(parts[-1]))
    return ("other", fn)


def _tok_name(sn, other_ids):
    if sn[0] == "chunk":
        return "0 %s %s %s" % (lib.z(sn[1]), lib.z(sn[2]), lib.b(sn[3]))
    if sn[0] == "level":
        return "1 %s %s" % (lib.z(sn[1]), lib.b(sn[2]))
    if sn[0] == "result":
        return "2 %s %s %s" % (lib.z(sn[1]), lib.b(sn[2]), lib.z(sn[3]))
    return "5 %s" % lib.z(other_ids.setdefault(sn[1], len(other_ids) + 1))


def _read_name(t, other_names):
    tag = t.int()
    if tag == 0:
        return ("chunk", t.z(), t.z(), t.b())
    if tag == 1:
        return ("level", t.z(), t.b())
    if tag == 2:
        return ("result", t.z(), t.b(), t.z())
    if tag == 5:
        return ("other", other_names.get(t.z(), "?"))
    return ("tag%d" % tag, t.z())


# ---- rows
class Registry:
    """every PSM generated in the case: id string -> (id code, spec id, level-key ids, target)"""

    def __init__(self):
        self.rows = {}
        self.spec = {}
        self.keys = {}

    def add_run(self, spec):
        for f in spec["files"]:
            cols = [x for x in SPEC_COLS if x in f["data"]]
            for r in range(len(f["targets"])):
                pid = f["data"]["SpecId"][r]
                sk = tuple((x, f["data"][x][r]) for x in cols)
                sp = self.spec.setdefault(sk, len(self.spec) + 1)
                ks = []
                for col in ["Peptide"] + LEVEL_COLS:
                    if col in f["data"]:
                        ks.append((col, self.keys.setdefault((col, f["data"][col][r]), len(self.keys) + 1)))
                self.rows[pid] = {"code": int(f["data"]["rid"][r]) + 1, "spec": sp, "keys": dict(ks), "target": bool(f["targets"][r])}

    def row_tok(self, pid, score, level_cols):
        r = self.rows.get(pid)
        if r is None:
            return "%s %s %s %s %s" % (lib.z(10 ** 9 + abs(hash(pid)) % 10 ** 6), lib.z(0), lib.lst([0] * len(level_cols)), lib.b(True), lib.z(int(score)))
        ks = [r["keys"].get(c, 0) for c in level_cols]
        return "%s %s %s %s %s" % (lib.z(r["code"]), lib.z(r["spec"]), lib.lst(ks), lib.b(r["target"]), lib.z(int(score)))

    def code_to_id(self):
        return {r["code"]: pid for pid, r in self.rows.items()}


def _parse_table(path):
    """-> list of (psm id, score or None, q or None); [] if the file cannot be parsed as a PSM table"""
    import pandas as pd
    try:
        if str(path).endswith(".parquet"):
            df = pd.read_parquet(path)
        else:
            df = pd.read_csv(path, sep="\t", float_precision="round_trip")
    except Exception:
        return None
    idc = next((c for c in ("PSMId", "SpecId", "mokapot protein group") if c in df.columns), None)
    if idc is None:
        return None
    out = []
    for _, r in df.iterrows():
        sc = float(r["score"]) if "score" in df.columns else None
        qv = Fraction(float(r["q-value"])) if "q-value" in df.columns else None
        out.append((str(r[idc]), sc, qv))
    return out


def _snapshot(out, obs):
    """directory -> {file name: (structured name, parsed rows or None)}"""
    snap = {}
    for fn in sorted(os.listdir(out)):
        snap[fn] = (struct_name(fn, obs), _parse_table(Path(out) / fn))
    return snap


def _cfg_tok(obs, reg, glob=False, prot_tables=None):
    level_cols = ["Peptide"] + obs["levels"] if obs["rollup"] else []
    colls = []
    for j, f in enumerate(obs["files"]):
        rows = [reg.row_tok(f["data"]["SpecId"][r], obs["scores"][j][r], level_cols) for r in range(len(f["targets"]))]
        prot = (prot_tables or {}).get(j)
        if prot is None:
            ptok = "0"
        else:
            ids, prow = prot
            ptok = "1 %s %d %s" % (lib.lst(ids), len(prow), " ".join(prow))
        colls.append("%s %d %s %s" % (lib.z(_pfx_code(obs["prefixes"][j])), len(rows), " ".join(rows), ptok))
    return "%s %s %s %s %s %s %s %s %d %s" % (
        lib.b(obs["fmt"] == "parquet"), lib.z(obs["chunk"]), lib.b(obs["dedup"]), lib.z(len(_level_names(obs)) - (1 if obs.get("fasta") else 0)),
        lib.b(obs["decoys"]), lib.b(False), lib.b(glob), lib.b(bool(prot_tables)), len(colls), " ".join(colls))


def _fs_tok(snap, obs, reg, other_ids):
    level_cols = ["Peptide"] + obs["levels"] if obs["rollup"] else []
    ents = []
    for fn, (sn, rows) in snap.items():
        rs = []
        for pid, sc, qv in (rows or []):
            q = qv if qv is not None else Fraction(0)
            rs.append("%s %s" % (reg.row_tok(pid, sc if sc is not None else 0, level_cols), lib.q(q)))
        ents.append("%s %d %s" % (_tok_name(sn, other_ids), len(rs), " ".join(rs)))
    return "%d %s" % (len(ents), " ".join(ents))


def _decode_fs(line, other_ids, reg):
    """-> None | {structured name: [(psm id, q)]}"""
    t = Toks(line)
    names = {v: k for k, v in other_ids.items()}
    c2i = reg.code_to_id()

    def ent():
        n = _read_name(t, names)
        rows = t.lst(lambda: (t.z(), t.q()))
        return n, [(c2i.get(i, "code%d" % i), q) for i, q in rows]
    r = t.opt(lambda: t.lst(ent))
    if r is None:
        return None
    return {n: rows for n, rows in r}


def _canon_rows(sn, rows):
    """comparable content of a parsed file: result files (id, q as double); others ids only"""
    if rows is None:
        return None
    if sn[0] == "result":
        return [(pid, float(q) if q is not None else None) for pid, _, q in rows]
    return [pid for pid, _, _ in rows]


def _canon_model(sn, rows):
    if sn[0] == "result":
        return [(pid, float(q)) for pid, q in rows]
    return [pid for pid, _ in rows]


def _trace_struct(trace, obs):
    kinds = {"write": 0, "append": 1, "unlink": 2, "move": 3}
    out = []
    for ev in trace:
        if ev[0] == "move":
            out.append([3, list(struct_name(ev[1], obs))])
            out.append([3, list(struct_name(ev[2], obs))])
        elif ev[0] in kinds:
            out.append([kinds[ev[0]], list(struct_name(ev[1], obs))])
        else:
            out.append([ev[0], ev[1]])
    return out


def _prot_tables(obs, reg, clean_out):
    """oracle of the picked-protein step, taken from the run in the clean directory: the PSM ids the peptide-level file
    must hold (computed with the C03 model) and the protein-level rows (names registered as row ids)"""
    level_cols = ["Peptide"] + obs["levels"]
    f = obs["files"][0]
    rows = [reg.row_tok(f["data"]["SpecId"][r], obs["scores"][0][r], level_cols) for r in range(len(f["targets"]))]
    nl = len(_level_names(obs)) - 1
    line = lib.run_driver(["c03.levels %s %s %s %s %d %s" % (lib.z(obs["chunk"]), lib.b(obs["dedup"]), lib.b(obs["dedup"]), lib.z(nl), len(rows), " ".join(rows))])[0]
    t = Toks(line)
    lv = t.lst(lambda: t.lst(t.z))
    prow = []
    for fn, flag in (("targets.proteins", True), ("decoys.proteins", False)):
        rws = _parse_table(Path(clean_out) / fn)
        if rws is None:
            return None
        for name, sc, qv in rws:
            reg.rows.setdefault(name, {"code": 5000000 + len(reg.rows), "spec": 0, "keys": {}, "target": flag})
            prow.append((sc, name))
    prow.sort(key=lambda x: -x[0])
    return {0: (lv[1], [reg.row_tok(name, sc, []) for sc, name in prow])}


def _model_trace(obs, reg, prot_tables=None):
    line = lib.run_driver(["c09.trace " + _cfg_tok(obs, reg, prot_tables=prot_tables)])[0]
    t = Toks(line)
    return [[k, list(n)] for k, n in t.lst(lambda: (t.z(), _read_name(t, {})))]


def _write_junk(junk, out, obs, reg):
    """synthetic leftovers; chunk-like ones hold a valid table of foreign PSMs"""
    import random
    import pandas as pd
    for j in junk:
        rng = random.Random(j["seed"])
        pre = (j["pfx"] + ".") if j["pfx"] else ""
        ext = _ext(obs)
        f = brewlib.gen_file(rng, rng.randint(1, 6), 2, file_idx=90 + len(reg.rows) % 7, levels=obs["levels"])
        reg.add_run({"files": [f]})
        df = pd.DataFrame(f["data"], columns=f["columns"])
        df["score"] = [float(v) for v in rng.sample(range(-50, 150), len(df))]
        df = df.sort_values("score", ascending=False)
        if j["kind"] == "chunk":
            cols = [c for c in df.columns if not c.startswith("feat") and c != "rid"]
            p = Path(out) / f"{pre}scores_metadata_{j['index']}{ext}"
            (df[cols].to_parquet(p, index=False) if ext == ".parquet" else df[cols].to_csv(p, sep="\t", index=False))
        elif j["kind"] == "garbage-chunk":
            (Path(out) / f"{pre}scores_metadata_{j['index']}{ext}").write_bytes(b"\x00garbage\tnot a table\n\xff\xfe")
        elif j["kind"] == "level":
            lv = rng.choice(_level_names(obs))
            d2 = pd.DataFrame({"PSMId": df["SpecId"], "Label": df["Label"], "peptide": df["Peptide"],
                               "proteinIds": df["Proteins"], "score": df["score"]})
            p = Path(out) / f"{lv}{ext}"
            (d2.to_parquet(p, index=False) if ext == ".parquet" else d2.to_csv(p, sep="\t", index=False))
        elif j["kind"] == "own-result":
            own = sorted(_own_results(obs))
            d2 = pd.DataFrame({"PSMId": df["SpecId"], "peptide": df["Peptide"], "score": df["score"],
                               "q-value": [0.25] * len(df), "posterior_error_prob": [0.0] * len(df), "proteinIds": df["Proteins"]})
            d2.to_csv(Path(out) / own[j["index"] % len(own)], sep="\t", index=False)
        elif j["kind"] == "result":
            lv = rng.choice(_level_names(obs))
            d2 = pd.DataFrame({"PSMId": df["SpecId"], "peptide": df["Peptide"], "score": df["score"],
                               "q-value": [0.25] * len(df), "posterior_error_prob": [0.0] * len(df), "proteinIds": df["Proteins"]})
            d2.to_csv(Path(out) / f"{pre}{rng.choice(['targets', 'decoys'])}.{lv}", sep="\t", index=False)
        else:
            (Path(out) / ("notes%d.txt" % j["index"])).write_text("unrelated\n")


# ============================================================================ case kinds
def _tmp():
    return tempfile.mkdtemp(prefix="c09_", dir=os.environ.get("VERIF_TMP", "/tmp"))


def _own_results(obs):
    """names of the result files of the run"""
    names = set()
    for p in obs["prefixes"]:
        pre = (p + ".") if p else ""
        for lv in _level_names(obs):
            names.add(f"{pre}targets.{lv}")
            if obs["decoys"]:
                names.add(f"{pre}decoys.{lv}")
    return names


def _results_bytes(out, obs):
    res = {}
    for fn in sorted(_own_results(obs)):
        p = Path(out) / fn
        res[fn] = p.read_bytes().decode("latin1") if p.exists() else None
    return res


def _run_dirty(c):
    obs = c["observed"]
    reg = Registry()
    for r in c["runs"]:
        reg.add_run(r)
    reg.add_run(obs)
    d = _tmp()
    try:
        out = Path(d) / "out"
        out.mkdir()
        ends = []
        for i, r in enumerate(c["runs"]):
            ind = Path(d) / ("in_r%d" % i)
            ind.mkdir()
            ends.append(_exec_run(r, ind, out, _tap_for(r, out)))
            if i == 0:
                _write_junk(c["junk"], out, obs, reg)
        if not c["runs"]:
            _write_junk(c["junk"], out, obs, reg)
        before = _snapshot(out, obs)
        ind = Path(d) / "in_obs"
        ind.mkdir()
        tap = IoTap(out)
        end = _exec_run(obs, ind, out, tap)
        after = _snapshot(out, obs)
        dirty_bytes = _results_bytes(out, obs)
        # the same run in a clean directory
        out2 = Path(d) / "clean"
        out2.mkdir()
        ind2 = Path(d) / "in_clean"
        ind2.mkdir()
        end2 = _exec_run(obs, ind2, out2, IoTap(out2))
        clean_bytes = _results_bytes(out2, obs)
        clean_listing = sorted(os.listdir(out2))
        # model
        other_ids = {}
        prot_tables = _prot_tables(obs, reg, out2) if obs.get("fasta") and end2 == "complete" else None
        if obs.get("fasta") and prot_tables is None:
            # the protein step itself refused the table (sanity checks of picked_protein): nothing to model
            return (("ok", {"end": "not-modelled"}),
                    ("ok", {"end": end, "clean_end": end2, "dirty_bytes": dirty_bytes, "clean_bytes": clean_bytes,
                            "before": sorted(before.keys()), "after_files": sorted(after.keys())}))
        # re-snapshot with the protein names known to the registry
        line = lib.run_driver(["c09.run %s 0 %s" % (_cfg_tok(obs, reg, prot_tables=prot_tables), _fs_tok(before, obs, reg, other_ids))])[0]
        mfs = _decode_fs(line, other_ids, reg)
        impl = {"end": end, "earlier_ends": ends, "before": sorted(before.keys()),
                "listing": sorted([list(sn) for sn, _ in after.values()]),
                "results": {fn: _canon_rows(sn, rows) for fn, (sn, rows) in after.items() if sn[0] == "result"},
                "kept": {fn: _canon_rows(sn, rows) for fn, (sn, rows) in after.items() if sn[0] != "result" and fn in before},
                "kept_before": {fn: _canon_rows(sn, rows) for fn, (sn, rows) in before.items() if sn[0] != "result"},
                "trace": _trace_struct(tap.trace, obs) if obs.get("workers", 1) == 1 else None,
                "dirty_bytes": dirty_bytes, "clean_bytes": clean_bytes, "clean_end": end2, "clean_listing": clean_listing,
                "after_files": sorted(after.keys())}
        if mfs is None:
            model = {"end": "error"}
        else:
            by_fn = {}
            for sn, rows in mfs.items():
                by_fn[tuple(sn)] = _canon_model(sn, rows)
            model = {"end": "complete", "listing": sorted([list(sn) for sn in mfs.keys()]),
                     "results": {fn: by_fn.get(tuple(sn)) for fn, (sn, rows) in after.items() if sn[0] == "result"},
                     "trace": _model_trace(obs, reg, prot_tables) if obs.get("workers", 1) == 1 else None}
        return ("ok", model), ("ok", impl)
    finally:
        shutil.rmtree(d, ignore_errors=True)


def _run_crash(c):
    """one run in a clean directory, killed before operation k, for every k (and one beyond the end)"""
    obs = c["observed"]
    reg = Registry()
    reg.add_run(obs)
    d = _tmp()
    try:
        # length of the trace
        out = Path(d) / "full"
        out.mkdir()
        ind = Path(d) / "in_full"
        ind.mkdir()
        tap = IoTap(out)
        _exec_run(obs, ind, out, tap)
        n_ops = len(tap.trace)
        mtrace = _model_trace(obs, reg)
        ks = list(range(0, n_ops + 1))
        if len(ks) > 70:
            step = len(ks) / 70.0
            ks = sorted(set(int(i * step) for i in range(70)) | {n_ops})
        impl_states, lines = [], []
        for k in ks:
            o = Path(d) / ("k%d" % k)
            o.mkdir()
            i2 = Path(d) / ("in_k%d" % k)
            i2.mkdir()
            end = _exec_run(obs, i2, o, IoTap(o, kill_at=k))
            snap = _snapshot(o, obs)
            impl_states.append([k, end, {fn: [list(sn), _canon_rows(sn, rows)] for fn, (sn, rows) in snap.items()}])
            lines.append("c09.run %s 1 %s 0" % (_cfg_tok(obs, reg), lib.z(k)))
            shutil.rmtree(o, ignore_errors=True)
            shutil.rmtree(i2, ignore_errors=True)
        model_states = []
        for k, line in zip(ks, lib.run_driver(lines)):
            mfs = _decode_fs(line, {}, reg)
            model_states.append([k, None if mfs is None else sorted([[list(sn), _canon_model(sn, rows)] for sn, rows in mfs.items()])])
        impl_cmp = [[k, sorted([v for v in st.values()])] for k, end, st in impl_states]
        return (("ok", {"n_ops": len(mtrace), "states": model_states, "trace": mtrace}),
                ("ok", {"n_ops": n_ops, "states": impl_cmp, "trace": _trace_struct(tap.trace, obs),
                        "ends": [e for _, e, _ in impl_states]}))
    finally:
        shutil.rmtree(d, ignore_errors=True)


class _StopAfterVerify(Exception):
    pass


def _run_verify(c):
    import mokapot.mokapot as mm
    d = _tmp()
    try:
        pin = Path(d) / "x.pin"
        pin.write_text(c["pin"])
        tmp = Path(str(pin) + ".tsv")
        if c["leftover"] is not None:
            tmp.write_text(c["leftover"])
        old = mm.read_pin

        def stop(*a, **k):
            raise _StopAfterVerify()
        mm.read_pin = stop
        import logging
        try:
            try:
                mm.main([str(pin), "--dest_dir", str(Path(d) / "out"), "--verbosity", "0"])
                end = "returned"
            except _StopAfterVerify:
                end = "verified"
            except BaseException as e:  # noqa
                if isinstance(e, (KeyboardInterrupt, MemoryError)):
                    raise
                end = "raised " + type(e).__name__
        finally:
            mm.read_pin = old
            logging.disable(logging.CRITICAL)
        impl = {"end": end, "pin": pin.read_text() if pin.exists() else None, "tmp": tmp.read_text() if tmp.exists() else None}
        # the same with no leftover (the property itself)
        pin2 = Path(d) / "y.pin"
        pin2.write_text(c["pin"])
        mm.read_pin = stop
        try:
            try:
                mm.main([str(pin2), "--dest_dir", str(Path(d) / "out2"), "--verbosity", "0"])
            except BaseException as e:  # noqa
                if isinstance(e, (KeyboardInterrupt, MemoryError)):
                    raise
        finally:
            mm.read_pin = old
            logging.disable(logging.CRITICAL)
        impl["pin_clean"] = pin2.read_text() if pin2.exists() else None
        ents = ["3 %s %s" % (lib.z(1), lib.s(c["pin"]))]
        if c["leftover"] is not None:
            ents.append("4 %s %s" % (lib.z(1), lib.s(c["leftover"])))
        line = lib.run_driver(["c09.verify 0 %s %d %s" % (lib.z(1), len(ents), " ".join(ents))])[0]
        t = Toks(line)

        def ent():
            tag = t.int()
            p = t.z()
            return tag, t.s()
        r = t.opt(lambda: t.lst(ent))
        if r is None:
            model = {"end": "raised", "pin": None, "tmp": None}
        else:
            dm = {tag: txt for tag, txt in r}
            model = {"end": "verified", "pin": dm.get(3), "tmp": dm.get(4)}
        return ("ok", model), ("ok", impl)
    finally:
        shutil.rmtree(d, ignore_errors=True)


# ---- real subprocess under strace / hard kill
_WORKER = r"""
import json, os, sys
sys.path.insert(0, %(verif)r)
import logging; logging.disable(logging.CRITICAL)
from pathlib import Path
from harness.props import c09
spec = json.load(open(%(spec)r))
tap = c09.IoTap(%(out)r, exit_at=%(exit_at)r)
end = c09._exec_run(spec, %(ind)r, %(out)r, tap)
json.dump({"end": end, "trace": tap.trace}, open(%(res)r, "w"))
"""


def _strace_ops(path, out):
    """mutating file operations under `out` from an strace log"""
    import re
    root = os.path.realpath(str(out)) + "/"
    ops = []
    for line in open(path, errors="replace"):
        m = re.search(r'openat\([^,]+, "([^"]+)", ([A-Z_|]+)', line)
        if m and "= -1" not in line:
            p, flags = m.group(1), m.group(2)
            rp = os.path.realpath(p)
            if rp.startswith(root) and ("O_WRONLY" in flags or "O_RDWR" in flags):
                ops.append(("append" if "O_APPEND" in flags else "write", rp[len(root):]))
            continue
        m = re.search(r'(?:unlink|unlinkat)\((?:[^,"]+, )?"([^"]+)"', line)
        if m and "= -1" not in line:
            rp = os.path.realpath(m.group(1))
            if rp.startswith(root):
                ops.append(("unlink", rp[len(root):]))
            continue
        m = re.search(r'rename(?:at2?)?\((?:[^,"]+, )?"([^"]+)", (?:[^,"]+, )?"([^"]+)"', line)
        if m and "= -1" not in line:
            a, b = os.path.realpath(m.group(1)), os.path.realpath(m.group(2))
            if a.startswith(root) or b.startswith(root):
                ops.append(("move", a[len(root):], b[len(root):]))
    return ops


def _run_strace(c):
    import json
    obs = c["observed"]
    reg = Registry()
    reg.add_run(obs)
    d = _tmp()
    try:
        out = Path(d) / "out"
        out.mkdir()
        ind = Path(d) / "in"
        ind.mkdir()
        spec_p = Path(d) / "spec.json"
        spec_p.write_text(json.dumps(obs))
        res_p = Path(d) / "res.json"
        script = Path(d) / "worker.py"
        script.write_text(_WORKER % {"verif": str(lib.VERIF), "spec": str(spec_p), "out": str(out), "ind": str(ind),
                                     "res": str(res_p), "exit_at": c.get("exit_at")})
        st = Path(d) / "strace.txt"
        have = shutil.which("strace") is not None
        cmd = [sys.executable, "-W", "ignore", str(script)]
        if have:
            cmd = ["strace", "-f", "-qq", "-e", "trace=openat,unlink,unlinkat,rename,renameat,renameat2", "-o", str(st)] + cmd
        p = subprocess.run(cmd, capture_output=True, text=True, timeout=600,
                           env=dict(os.environ, PYTHONPATH=os.environ.get("PYTHONPATH", "")))
        if have and ("ptrace" in p.stderr.lower() or "operation not permitted" in p.stderr.lower()) and not res_p.exists() and p.returncode not in (0, 137):
            # ptrace not permitted here: run without strace
            have = False
            p = subprocess.run([sys.executable, "-W", "ignore", str(script)], capture_output=True, text=True, timeout=600)
        snap = _snapshot(out, obs)
        impl = {"rc": p.returncode, "strace": have, "stderr": p.stderr[-300:] if p.returncode not in (0, 137) else ""}
        impl["state"] = sorted([[list(sn), _canon_rows(sn, rows)] for sn, rows in snap.values()])
        k = c.get("exit_at")
        if k is None:
            tapped = json.loads(res_p.read_text())["trace"] if res_p.exists() else None
            impl["tap_trace"] = _trace_struct([tuple(e) for e in tapped], obs) if tapped is not None else None
            if have:
                # the tap records one operation per create / append / unlink / rename call; parquet appends
                # (write_table) are not visible as system calls and the final flush of a parquet writer is
                impl["sys_trace"] = _trace_struct(_strace_ops(st, out), obs)
        line = lib.run_driver(["c09.run %s %s 0" % (_cfg_tok(obs, reg), "0" if k is None else "1 " + lib.z(k))])[0]
        mfs = _decode_fs(line, {}, reg)
        model = {"state": None if mfs is None else sorted([[list(sn), _canon_model(sn, rows)] for sn, rows in mfs.items()]),
                 "trace": _model_trace(obs, reg)}
        return ("ok", model), ("ok", impl)
    finally:
        shutil.rmtree(d, ignore_errors=True)


def run_case(c):
    fn = c["fn"]
    if fn == "dirty":
        return _run_dirty(c)
    if fn == "crash":
        return _run_crash(c)
    if fn == "verify":
        return _run_verify(c)
    if fn == "strace":
        return _run_strace(c)
    raise ValueError(fn)


def _sys_visible(trace, parquet):
    """the part of an operation trace that is visible as system calls: for Parquet files appends happen
    through an already open descriptor"""
    out = []
    for k, n in trace:
        if parquet and k == 1 and n[0] in ("chunk", "level"):
            continue
        out.append([k, n])
    return out


def same(c, m, i):
    if m[0] != "ok" or i[0] != "ok":
        return False
    m, i = m[1], i[1]
    J = lib.jsonable
    fn = c["fn"]
    if fn == "dirty":
        if m["end"] == "not-modelled":
            # the run refuses its input in a clean directory too: only the property itself applies
            return i["end"] == i["clean_end"] and i["dirty_bytes"] == i["clean_bytes"]
        if i["end"] != "complete" or m["end"] != "complete":
            return False
        if J(m["listing"]) != J(i["listing"]):
            return False
        if J(m["results"]) != J(i["results"]):
            return False
        if J(i["kept"]) != J({k: v for k, v in i["kept_before"].items() if k in i["kept"]}):
            return False
        if m["trace"] is not None and J(m["trace"]) != J(i["trace"]):
            return False
        return True
    if fn == "crash":
        return J(m["trace"]) == J(i["trace"]) and J(m["states"]) == J(i["states"])
    if fn == "verify":
        if m["end"] == "raised":
            return i["end"].startswith("raised") and i["pin"] == c["pin"]
        return i["end"] == "verified" and m["pin"] == i["pin"] and m["tmp"] == i["tmp"]
    if fn == "strace":
        if J(m["state"]) != J(i["state"]):
            return False
        if c.get("exit_at") is None:
            if i.get("tap_trace") is None or J(m["trace"]) != J(i["tap_trace"]):
                return False
            if i.get("strace"):
                pq = c["observed"]["fmt"] == "parquet"
                want = _sys_visible(m["trace"], pq)
                got = [e for e in i["sys_trace"]]
                if pq:
                    # a parquet writer may open its file more than once; compare create/unlink per file in order, ignoring repeats
                    def dedup(t):
                        o = []
                        for e in t:
                            if not o or o[-1] != e:
                                o.append(e)
                        return o
                    return J(dedup(want)) == J(dedup(got))
                return J(want) == J(got)
        return True
    return False


def nontrivial(c):
    if c["fn"] == "dirty":
        return bool(c["runs"]) or any(j["kind"] != "other" for j in c["junk"])
    if c["fn"] == "verify":
        return c["leftover"] is not None
    return True


# ---------------------------------------------------------------------------- the property itself
def oracle(c, i):
    if i[0] != "ok":
        return None          # a crash of the harness is not a failing input
    r = i[1]
    if c["fn"] == "dirty":
        if r["clean_end"] == "complete" and r["end"] != "complete":
            return f"the run succeeds in a clean directory but ends '{r['end']}' in the dirty one (leftovers: {r['before']})"
        if r["end"] != "complete":
            return None
        if r["dirty_bytes"] != r["clean_bytes"]:
            bad = sorted(k for k in set(r["dirty_bytes"]) | set(r["clean_bytes"]) if r["dirty_bytes"].get(k) != r["clean_bytes"].get(k))
            return (f"result files {bad} of the run in the dirty directory differ from those of the same run in a clean "
                    f"directory (leftovers before the run: {r['before']})")
        obs = c["observed"]
        extra = [f for f in r["after_files"] if f not in r["before"] and struct_name(f, obs)[0] != "result"]
        if extra:
            return f"intermediate files remain after a successful run: {extra}"
        mine = [f for f in r["after_files"] if struct_name(f, obs)[0] in ("chunk", "level")
                and f in _own_intermediates(obs)]
        if mine:
            return f"intermediate files of this run remain after it succeeded: {mine}"
        return None
    if c["fn"] == "verify":
        if r["pin"] != r["pin_clean"]:
            return ("the user's PIN after the verify step differs depending on a pre-existing <pin>.tsv: "
                    f"{r['pin'][:80]!r} vs {r['pin_clean'][:80]!r}")
        return None
    return None


def _own_intermediates(obs):
    ext = _ext(obs)
    names = set(lv + ext for lv in _level_names(obs))
    for j, f in enumerate(obs["files"]):
        pre = (obs["prefixes"][j] + ".") if obs["prefixes"][j] else ""
        n = len(f["targets"])
        for i in range((n + obs["chunk"] - 1) // obs["chunk"]):
            names.add(f"{pre}scores_metadata_{i}{ext}")
    return names


def shrink(c):
    if c["fn"] != "dirty":
        return
    if c["junk"]:
        for i in range(len(c["junk"])):
            yield dict(c, junk=c["junk"][:i] + c["junk"][i + 1:])
    if c["runs"]:
        for i in range(len(c["runs"])):
            yield dict(c, runs=c["runs"][:i] + c["runs"][i + 1:])
    obs = c["observed"]
    if len(obs["files"]) > 1:
        for i in range(len(obs["files"])):
            o = dict(obs, files=obs["files"][:i] + obs["files"][i + 1:], scores=obs["scores"][:i] + obs["scores"][i + 1:],
                     prefixes=obs["prefixes"][:i] + obs["prefixes"][i + 1:])
            yield dict(c, observed=o)


def finding_key(c, m, i):
    return None
