"""C17 — in-silico digestion: correspondence of Model/Digest.v with mokapot.digest."""
import itertools
import re

from .. import lib
from ..lib import call_impl

PROP = "C17"
RULE = ("cases: one call of mokapot.digest(sequence, enzyme, mc, clip, min, max, semi) each.  (1) exhaustive: every "
        "sequence over {K,P,A,M} up to length 4 (quick) / 5 (thorough) x the FULL grid enzymes {[KR], [KR](?!P), K, (?<=R)} "
        "x mc 0..3 x 6 (min,max) pairs x clip x semi (384 grid points); every longer sequence up to length 6 (quick) / 8 "
        "(thorough) x a strided sub-grid (12 grid points per sequence, the stride walks the whole grid so every grid "
        "point is hit equally often); lengths 7-8 (quick): every 8th sequence, lengths 9-10 (thorough): every 4th "
        "sequence (offset by length), one grid point each — i.e. lengths 9-10 are SAMPLED, not exhaustive; every "
        "sequence over {K,R,P,A,M} up to length 4 (quick) / 6 (thorough) x strided sub-grid; (2) random sequences over the "
        "20 amino acids (K/R/P/M enriched) to length 200, random parameters, 8 enzymes incl. look-behind and '.'; "
        "(3) corner stream: negative / zero parameters, empty sequence, exotic patterns whose matches are empty or end at 0 "
        "('', 'K|', '(?=K)', '(?=M)', '.').  Residue-class enzymes run the model's own site computation; all other "
        "patterns pass the match ends recorded from Python's re engine.  distinct = distinct (sequence, enzyme, parameters); "
        "non-trivial = the digest has >= 2 peptides or clip/semi is on")
ASSUMPTIONS = [
    "sequences are str over ASCII letters; 'M' is code 77",
    "for patterns that are not a residue class (optionally with one-residue negative look-ahead) the match ends of "
    "re.finditer are taken from the real engine and passed to the model as data; the contract (ends non-decreasing, "
    "within 0..len) is checked on every such case",
    "the returned set is compared as a sorted list; multiplicity/order of the model's list is irrelevant",
]
TRUSTED_EXTRA = ["Python re engine (oracle for non-class enzyme patterns; cross-checked against the model's site "
                 "computation for the residue-class patterns in extra_checks)"]

# residue-class enzymes the model computes itself: pattern -> (class, nofollow)
CLASS_ENZ = {
    "[KR]": ("KR", ""),
    "[KR](?!P)": ("KR", "P"),
    "K": ("K", ""),
    "R": ("R", ""),
    "[KR](?![PM])": ("KR", "PM"),
    "K(?!P)": ("K", "P"),
}
GRID_ENZ = ["[KR]", "[KR](?!P)", "K", "(?<=R)"]
GRID_ENZ_R = ["[KR]", "[KR](?!P)", "R", "(?<=R)", "(?<=[KR])(?!P)", "K(?!P)"]
BOUNDS = [(0, 50), (1, 50), (2, 4), (3, 3), (1, 2), (4, 10)]
_RX = {}


def _rx(p):
    r = _RX.get(p)
    if r is None:
        r = _RX[p] = re.compile(p)
    return r


def ends_of(enzyme, seq):
    return [m.end() for m in _rx(enzyme).finditer(seq)]


def _grid(enzymes):
    return [(e, mc, mn, mx, clip, semi)
            for e in enzymes for mc in range(4) for (mn, mx) in BOUNDS
            for clip in (False, True) for semi in (False, True)]


def _case(seq, e, mc, mn, mx, clip, semi, tags):
    return {"fn": "digest", "seq": seq, "enzyme": e, "mc": mc, "min": mn, "max": mx,
            "clip": bool(clip), "semi": bool(semi), "tags": tags}


def _all_seqs(alpha, n):
    for k in range(n + 1):
        for t in itertools.product(alpha, repeat=k):
            yield "".join(t)


def gen(ctx):
    cases = []
    full_len, strided_len, k_strided, sampled, every = (5, 8, 12, (9, 10), 4) if ctx.thorough else (4, 6, 12, (7, 8), 8)
    grid = _grid(GRID_ENZ)
    G = len(grid)
    # (1a) full grid on the shortest sequences
    for s in _all_seqs("KPAM", full_len):
        for g in grid:
            cases.append(_case(s, *g, ["exh-full", f"len={len(s)}", g[0]]))
    # (1b) strided sub-grid: sequence number n takes grid points (n*k + j*step) mod G
    step = 53          # coprime to G = 384
    n = 0
    for L in range(full_len + 1, strided_len + 1):
        for t in itertools.product("KPAM", repeat=L):
            s = "".join(t)
            for j in range(k_strided):
                g = grid[(n * 7 + j * step) % G]
                cases.append(_case(s, *g, ["exh-strided", f"len={L}", g[0]]))
            n += 1
    # (1c) longer: every 8th sequence, one grid point
    for L in sampled:
        for idx, t in enumerate(itertools.product("KPAM", repeat=L)):
            if idx % every != L % every:
                continue
            g = grid[(idx // every * 5 + L) % G]
            cases.append(_case("".join(t), *g, ["exh-sampled", f"len={L}", g[0]]))
    # (1d) five-letter alphabet with R
    gridr = _grid(GRID_ENZ_R)
    GR = len(gridr)
    n = 0
    for s in _all_seqs("KRPAM", 6 if ctx.thorough else 4):
        for j in range(6 if ctx.thorough else 8):
            g = gridr[(n * 11 + j * 97) % GR]
            cases.append(_case(s, *g, ["exh-R", f"len={len(s)}", g[0]]))
        n += 1
    # (2) random long sequences
    rng = ctx.sub("random")
    aa = "ACDEFGHILNQSTVWY" + "KKKRRRPPMM"
    enz = ["[KR]", "[KR](?!P)", "K", "(?<=R)", "[KR](?![PM])", "(?<=[KR])(?!P)", "K(?!P)", "."]
    for _ in range(6000 if ctx.thorough else 1500):
        L = rng.choice([rng.randint(0, 20), rng.randint(20, 60), rng.randint(60, 200)])
        s = "".join(rng.choice(aa) for _ in range(L))
        if rng.random() < 0.4 and s:
            s = "M" + s[1:]
        mn = rng.choice([0, 1, 2, 5, 6, 7, 10])
        mx = rng.choice([mn, mn + 1, mn + 5, 20, 50, 50, 100])
        cases.append(_case(s, rng.choice(enz), rng.choice([0, 0, 1, 2, 3, 5]), mn, mx,
                           rng.random() < 0.5, rng.random() < 0.4, ["random", "len>20" if L > 20 else "len<=20"]))
    # (3) corners: odd parameters and exotic patterns
    rng = ctx.sub("corner")
    exotic = ["", "K|", "(?=K)", "(?=M)", ".", "(?<!A)", "[KR]", "(?<=R)"]
    for _ in range(4000 if ctx.thorough else 1200):
        L = rng.randint(0, 7)
        s = "".join(rng.choice("KRPAM") for _ in range(L))
        cases.append(_case(s, rng.choice(exotic), rng.choice([-2, -1, 0, 1, 2, 9]),
                           rng.choice([-3, -1, 0, 1, 2, 3]), rng.choice([-1, 0, 1, 2, 3, 5, 50]),
                           rng.random() < 0.5, rng.random() < 0.5, ["corner"]))
    return cases


def encode(c):
    params = " ".join([lib.z(c["mc"]), lib.z(c["min"]), lib.z(c["max"]), lib.b(c["semi"]), lib.b(c["clip"])])
    cl = CLASS_ENZ.get(c["enzyme"])
    if cl is not None:
        return f"c17.digest_class {lib.s(cl[0])} {lib.s(cl[1])} {lib.s(c['seq'])} {params}"
    return f"c17.digest_ends {lib.s(c['seq'])} {lib.lst(ends_of(c['enzyme'], c['seq']))} {params}"


def decode(c, t):
    return sorted(set(t.lst(t.s)))


def _digest(c):
    import mokapot
    r = mokapot.digest(c["seq"], enzyme_regex=c["enzyme"], missed_cleavages=c["mc"],
                       clip_nterm_methionine=c["clip"], min_length=c["min"], max_length=c["max"],
                       semi=c["semi"])
    return sorted(r)


def impl(c):
    r = call_impl(_digest, c)
    return r[1] if r[0] == "ok" else r


def same(c, m, i):
    return isinstance(i, list) and list(m) == list(i)


def nontrivial(c):
    return c["clip"] or c["semi"] or len(ends_of(c["enzyme"], c["seq"])) >= 1


# ----------------------------------------------------------------------------- the property itself
def sites_of(c):
    s = c["seq"]
    return [0] + ends_of(c["enzyme"], s) + [len(s)]


def contract_ok(c):
    """Proofs.DigestP.sites_ok: 0 :: mids ++ [n], mids non-decreasing within 1..n"""
    sites = sites_of(c)
    n = len(c["seq"])
    mids = sites[1:-1]
    return all(1 <= x <= n for x in mids) and all(a <= b for a, b in zip(mids, mids[1:]))


def spec_digest(seq, sites, mc, mn, mx, clip, semi):
    """Digest_spec of Props/C17.v, non-empty peptides only (position based, no loops over indices)"""
    out = set()
    S = sorted(set(sites))
    for a in S:
        for b in S:
            if not a < b:
                continue
            missed = sum(1 for x in sites if a < x < b)
            if missed > mc or not (mn <= b - a <= mx):
                continue
            pep = seq[a:b]
            out.add(pep)
            if clip and a == 0 and pep[0] == "M" and len(pep) - 1 >= mn:
                out.add(pep[1:])
            if semi:
                for k in range(1, len(pep)):
                    if k >= mn:
                        out.add(pep[:k])
                        out.add(pep[len(pep) - k:])
    out.discard("")
    return out


def oracle(c, i):
    if not isinstance(i, list):
        return f"digest raised {i!r}"
    seq = c["seq"]
    for p in i:
        if p not in seq:
            return f"returned peptide {p!r} is not a substring of the protein {seq!r}"
    if contract_ok(c):
        exp = spec_digest(seq, sites_of(c), c["mc"], c["min"], c["max"], c["clip"], c["semi"])
        got = set(i) - {""}
        if got != exp:
            return (f"digest differs from the enzyme rules: missing {sorted(exp - got)!r}, "
                    f"unexpected {sorted(got - exp)!r} (sites {sites_of(c)})")
        sites = sites_of(c)
        exp_empty = (c["min"] <= 0 and c["mc"] >= 0 and c["max"] >= 0
                     and (len(set(sites)) < len(sites)
                          or (c["clip"] and c["max"] >= 1 and 1 in sites and seq[:1] == "M")))
        if ("" in i) != exp_empty:
            return f"empty peptide {'returned' if '' in i else 'not returned'} (sites {sites}) against C17_empty_peptide"
    # monotonicity
    for d in (dict(mc=c["mc"] + 1), dict(min=c["min"] - 1), dict(max=c["max"] + 1), dict(semi=True)):
        c2 = dict(c, **d)
        j = impl(c2)
        if isinstance(j, list) and not set(i) <= set(j):
            return f"digest shrinks when {d} is allowed: lost {sorted(set(i) - set(j))!r}"
    return None


def shrink(c):
    s = c["seq"]
    for k in range(len(s)):
        yield dict(c, seq=s[:k] + s[k + 1:])
    if c["mc"] > 0:
        yield dict(c, mc=c["mc"] - 1)
    if c["semi"]:
        yield dict(c, semi=False)
    if c["clip"]:
        yield dict(c, clip=False)
    if c["max"] != 50:
        yield dict(c, max=50)
    if c["min"] > 1:            # stay in the practical domain min_length >= 1 where possible
        yield dict(c, min=c["min"] - 1)
    for ch in "A":
        for k in range(len(s)):
            if s[k] not in "KRMPA":
                yield dict(c, seq=s[:k] + ch + s[k + 1:])


# ----------------------------------------------------------------------------- oracle contracts
def extra_checks(ctx):
    """(i) every regex-oracle site list used meets the contract of _cleavage_sites assumed by the model
    (non-decreasing, within 0..len); (ii) the model's own site computation for the residue-class patterns
    equals [0] + re match ends + [len] on an exhaustive small scope and random long sequences."""
    fails = []
    rng = ctx.sub("sites")
    seqs = list(_all_seqs("KRPM", 6 if ctx.thorough else 5))
    aa = "ACDEFGHILNQSTVWYKKKRRRPPMM"
    for _ in range(300):
        seqs.append("".join(rng.choice(aa) for _ in range(rng.randint(0, 200))))
    lines, exp = [], []
    for pat, (cl, nf) in CLASS_ENZ.items():
        for s in seqs:
            lines.append(f"c17.class_sites {lib.s(cl)} {lib.s(nf)} {lib.s(s)}")
            exp.append((pat, s, [0] + ends_of(pat, s) + [len(s)]))
    outs = lib.run_driver(lines)
    bad = 0
    for o, (pat, s, e) in zip(outs, exp):
        got = lib.Toks(o).lst()
        if got != e:
            bad += 1
            if bad <= 3:
                fails.append({"what": f"model site computation for {pat!r} on {s!r}: {got} but re gives {e}",
                              "failing_input": None})
    n_oracle = 0
    for pat in GRID_ENZ + GRID_ENZ_R + ["", "K|", "(?=K)", "(?=M)", ".", "(?<!A)", "(?<=[KR])(?!P)"]:
        for s in seqs:
            e = ends_of(pat, s)
            n_oracle += 1
            if any(a > b for a, b in zip(e, e[1:])) or any(not (0 <= x <= len(s)) for x in e):
                fails.append({"what": f"regex oracle contract broken: {pat!r} on {s!r} gives ends {e}",
                              "failing_input": None})
                break
    return fails, {"site_computations_checked": len(lines), "oracle_contract_checks": n_oracle}
