"""C17 — in-silico digestion: correspondence of Model/Digest.v with mokapot.digest."""
import bisect
import itertools
import re

from .. import lib
from ..lib import call_impl

PROP = "C17"
RULE = ("cases: one call of mokapot.digest(sequence, enzyme, mc, clip, min, max, semi) each (style 'twice': two calls).  "
        "(1) exhaustive: every "
        "sequence over {K,P,A,M} up to length 4 (quick) / 5 (thorough) x the FULL grid enzymes {[KR], [KR](?!P), K, (?<=R)} "
        "x mc 0..3 x 6 (min,max) pairs x clip x semi (384 grid points); every longer sequence up to length 6 (quick) / 8 "
        "(thorough) x a strided sub-grid (12 grid points per sequence, the stride walks the whole grid so every grid "
        "point is hit equally often); lengths 7-8 (quick): every 8th sequence, lengths 9-10 (thorough): every 4th "
        "sequence (offset by length), one grid point each — i.e. lengths 9-10 are SAMPLED, not exhaustive; every "
        "sequence over {K,R,P,A,M} up to length 4 (quick) / 6 (thorough) x strided sub-grid; (1e) every sequence over "
        "{K,R,D,P,M,F} up to length 4 / 5 x strided grid over the 12 enzyme expressions of the mokapot cookbook (Lys-N "
        "'.(?=K)', CNBr 'M', Glu-C, alternation with a group, ...); (1f) every sequence over {K,P,A,M,D} up to length 4 / 6 x "
        "strided grid over 24 patterns whose matches are NOT one residue wide (KK, [KR]{2}, K+, K*, KP|K, K.?, ^M, $, "
        "groups, (?i), look-behind + residue) — every third case passes the pattern as a compiled regex; (1g) every "
        "sequence over {K,k,M,m,P,A} up to length 4 / 5 x strided grid over case-sensitive patterns and compiled patterns "
        "with re.IGNORECASE / re.VERBOSE; (2) random sequences over the "
        "20 amino acids (K/R/P/M enriched) to length 700 (crossing 255), random parameters (min up to 60, max up to 1000, "
        "mc up to 5), 8 enzymes incl. look-behind and '.'; "
        "(3) corner stream: negative / zero parameters, empty sequence, exotic patterns whose matches are empty or end at 0 "
        "('', 'K|', '(?=K)', '(?=M)', '.'); (4) symbols stream: short sequences with lower case, '*', '-', digits, blank, "
        "newline, tab and non-ASCII / astral code points, patterns incl. \\w \\W \\s (?s). [^A-Z]; (5) call-style stream: "
        "0..6 leading arguments positional, `sequence=` by keyword, any subset of the optional arguments OMITTED (the model "
        "then gets the defaults of the pinned signature: [KR], 0, False, 6, 50, False), numpy int64 / bool_ and 0/1 "
        "arguments, compiled regex (flags 0, I, S, X), style 'twice' = call, clear() the returned set, call again, both "
        "results must agree; sequences built from segments of length 1-8 and 45-56 so that the default bounds 6 / 50 are "
        "straddled; (6) defaults stream: all 64 subsets of omitted optional arguments x segment sequences, the passed "
        "arguments all differ from their defaults; (7) long stream: lengths 1 500-3 000 (also semi), 10 000 / 35 000 "
        "(thorough) and 70 000 residues (sites beyond 255 / 32 767 / 65 535), mc 50 / 1000 and bounds up to 5 000 on "
        "sequences up to 300.  All of these go through the Coq model: residue-class enzymes (no flags) run the model's own site computation; all other "
        "patterns pass the match ends recorded from Python's re engine (same pattern, same flags).  (8) in extra_checks, "
        "PROPERTY ORACLE ONLY (the model's unary numbers cannot hold them): min / max / out of {+-2^31, +-2^63, 2^64, "
        "+-10^30} as int and numpy.int64.  distinct = distinct (sequence, enzyme, flags, parameters, call style); "
        "non-trivial = the implementation returned >= 2 distinct peptides for the case")
ASSUMPTIONS = [
    "sequences are str (any code points; exercised: ASCII letters of both cases, '*', '-', digits, blank, newline, tab, "
    "U+00C4, U+043A, U+1D510); 'M' is code 77",
    "for patterns that are not a residue class (optionally with one-residue negative look-ahead), and for every "
    "compiled pattern with flags, the match ends of re.finditer (same pattern, same flags, compiled by the harness) "
    "are taken from the real engine and passed to the model as data; the contract (ends non-decreasing, "
    "within 0..len) is checked on every such case",
    "the returned set is compared as a sorted list; multiplicity/order of the model's list is irrelevant",
    "an omitted optional argument means the default of the pinned signature of mokapot.digest: enzyme_regex='[KR]', "
    "missed_cleavages=0, clip_nterm_methionine=False, min_length=6, max_length=50, semi=False; the positional order "
    "is that of the pinned signature",
    "the caller owns the returned set: clearing it must not influence a later call (style 'twice')",
    "missed_cleavages is kept <= 1000: the code iterates range(1, mc + 2) for every start site even beyond the last "
    "site (cost, not correctness)",
]
TRUSTED_EXTRA = ["Python re engine (oracle for non-class enzyme patterns; cross-checked against the model's site "
                 "computation for the residue-class patterns in extra_checks)"]

# the pinned signature: digest(sequence, enzyme_regex, missed_cleavages, clip_nterm_methionine, min_length,
# max_length, semi)
PARAMS = ["enzyme", "mc", "clip", "min", "max", "semi"]
KWNAME = {"enzyme": "enzyme_regex", "mc": "missed_cleavages", "clip": "clip_nterm_methionine",
          "min": "min_length", "max": "max_length", "semi": "semi"}
DEFAULTS = {"enzyme": "[KR]", "mc": 0, "clip": False, "min": 6, "max": 50, "semi": False}

# residue-class enzymes the model computes itself: pattern -> (class, nofollow)
CLASS_ENZ = {
    "[KR]": ("KR", ""),
    "[KR](?!P)": ("KR", "P"),
    "K": ("K", ""),
    "R": ("R", ""),
    "[KR](?![PM])": ("KR", "PM"),
    "K(?!P)": ("K", "P"),
    "R(?!P)": ("R", "P"),
    "M": ("M", ""),
    "[DE](?!P)": ("DE", "P"),
    "[FL](?!P)": ("FL", "P"),
    "[FWYL](?!P)": ("FWYL", "P"),
    "[KRFWYL](?!P)": ("KRFWYL", "P"),
    "k": ("k", ""),
    "[Kk]": ("Kk", ""),
}
GRID_ENZ = ["[KR]", "[KR](?!P)", "K", "(?<=R)"]
GRID_ENZ_R = ["[KR]", "[KR](?!P)", "R", "(?<=R)", "(?<=[KR])(?!P)", "K(?!P)"]
# docs/source/cookbook.rst, "Enzyme Regular Expressions"
DOC_ENZ = ["[KR]", "[KR](?!P)", "K(?!P)", ".(?=K)", "R(?!P)", ".(?=D)", "M", "[DE](?!P)", "[FL](?!P)",
           "[FWYL](?!P)", "([KR](?!P)|[FWYL](?!P))", "[KRFWYL](?!P)"]
# matches that are not exactly one residue wide / anchors / groups / inline flags
WIDE_ENZ = ["KK", "[KR]{2}", "K+", "K*", "[KM][AP]", "KP|K", "K|KP", "(K)|(M)", "(?P<s>[KM])(?!P)", "^M", "M|K$", "$",
            "\\w(?=D)", "(?<=K)A", "(?i)k", "[^P](?=K)", "K.?", "(?=KK)K", "\\bM", "A{2,3}", "(?s).", "..", "(?<=K)..",
            "(K(?=A))?"]
# (pattern, flags): case sensitivity and compiled patterns with flags
CASE_ENZ = [("[KR]", 0), ("[kr]", re.I), ("[KR](?!P)", re.I), ("k", 0), ("(?i)k(?!p)", 0), ("[Kk]", 0), ("M", 0),
            ("m", re.I), ("[KR] (?!P)  # trypsin/p", re.X), ("k (?=m)", re.X | re.I), ("K", re.I), ("m|K", 0)]
BOUNDS = [(0, 50), (1, 50), (2, 4), (3, 3), (1, 2), (4, 10)]
_RX = {}


def _rx(p, flags=0):
    r = _RX.get((p, flags))
    if r is None:
        r = _RX[(p, flags)] = re.compile(p, flags)
    return r


def ends_of(enzyme, seq, flags=0):
    return [m.end() for m in _rx(enzyme, flags).finditer(seq)]


def _ends(c):
    return ends_of(c["enzyme"], c["seq"], c.get("flags", 0))


def _grid(enzymes):
    return [(e, mc, mn, mx, clip, semi)
            for e in enzymes for mc in range(4) for (mn, mx) in BOUNDS
            for clip in (False, True) for semi in (False, True)]


def _case(seq, e, mc, mn, mx, clip, semi, tags, **style):
    """style keys (all optional, absent = plain keyword call with a str pattern):
    flags (int, needs compiled), compiled (bool), npos (0..6 leading optional arguments passed positionally),
    seqkw (sequence= by keyword; only with npos = 0), omit (names of omitted arguments; their values here are the
    defaults), style ('np' | 'intflags'), twice (bool)"""
    c = {"fn": "digest", "seq": seq, "enzyme": e, "mc": mc, "min": mn, "max": mx,
         "clip": bool(clip), "semi": bool(semi), "tags": tags}
    for k, v in style.items():
        if v:
            c[k] = v
    return c


def _with(c, **d):
    """copy of the case with some parameters changed; a changed parameter is no longer omitted"""
    c2 = dict(c, **d)
    if c.get("omit"):
        om = [p for p in c["omit"] if p not in d]
        if om:
            c2["omit"] = om
        else:
            c2.pop("omit")
    return c2


def _all_seqs(alpha, n):
    for k in range(n + 1):
        for t in itertools.product(alpha, repeat=k):
            yield "".join(t)


AA = "ACDEFGHILNQSTVWY" + "KKKRRRPPMM"


def _seg_seq(rng, nseg=None):
    """segments of length 1-8 and 45-56 ending in K/R: peptides straddle the default bounds 6 and 50"""
    segs = []
    for _ in range(nseg or rng.randint(1, 7)):
        L = rng.choice([0, 1, 2, 4, 5, 5, 6, 7, rng.randint(8, 20), 44, 47, 48, 49, 50, 51, 55])
        segs.append("".join(rng.choice("ACDEFGHILNQSTVWYPM") for _ in range(L)) + rng.choice("KKR"))
    s = "".join(segs)
    if rng.random() < 0.5:
        s = s[:-1]
    if rng.random() < 0.4 and s:
        s = "M" + s[1:]
    return s


def _strided(cases, seqs, grid, k, tag, mult, step, every_compiled=0):
    G = len(grid)
    n = 0
    for s in seqs:
        for j in range(k):
            g = grid[(n * mult + j * step) % G]
            if isinstance(g[0], tuple):                      # (pattern, flags)
                (pat, fl), rest = g[0], g[1:]
                cases.append(_case(s, pat, *rest, [tag, f"len={len(s)}", pat + (f"/flags={fl}" if fl else "")],
                                   flags=fl, compiled=bool(fl) or (n + j) % 2 == 1))
            else:
                comp = bool(every_compiled) and (n + j) % every_compiled == 0
                cases.append(_case(s, *g, [tag, f"len={len(s)}", g[0]] + (["compiled"] if comp else []), compiled=comp))
        n += 1


def gen(ctx):
    cases = []
    T = ctx.thorough
    full_len, strided_len, k_strided, sampled, every = (5, 8, 12, (9, 10), 4) if T else (4, 6, 12, (7, 8), 8)
    grid = _grid(GRID_ENZ)
    G = len(grid)
    # (1a) full grid on the shortest sequences
    for s in _all_seqs("KPAM", full_len):
        for g in grid:
            cases.append(_case(s, *g, ["exh-full", f"len={len(s)}", g[0]]))
    # (1b) strided sub-grid: sequence number n takes grid points (n*k + j*step) mod G
    step = 53          # coprime to G = 384
    n = 0
    for L in range(full_len + 1, strided_len + 1):
        for t in itertools.product("KPAM", repeat=L):
            s = "".join(t)
            for j in range(k_strided):
                g = grid[(n * 7 + j * step) % G]
                cases.append(_case(s, *g, ["exh-strided", f"len={L}", g[0]]))
            n += 1
    # (1c) longer: every 8th sequence, one grid point
    for L in sampled:
        for idx, t in enumerate(itertools.product("KPAM", repeat=L)):
            if idx % every != L % every:
                continue
            g = grid[(idx // every * 5 + L) % G]
            cases.append(_case("".join(t), *g, ["exh-sampled", f"len={L}", g[0]]))
    # (1d) five-letter alphabet with R
    gridr = _grid(GRID_ENZ_R)
    GR = len(gridr)
    n = 0
    for s in _all_seqs("KRPAM", 6 if T else 4):
        for j in range(6 if T else 8):
            g = gridr[(n * 11 + j * 97) % GR]
            cases.append(_case(s, *g, ["exh-R", f"len={len(s)}", g[0]]))
        n += 1
    # (1e) the documented enzymes (cookbook), six-letter alphabet with D and F       (grid 1152 = 2^7 * 9)
    _strided(cases, _all_seqs("KRDPMF", 5 if T else 4), _grid(DOC_ENZ), 12 if T else 24, "exh-doc", 7, 125,
             every_compiled=5)
    # (1f) patterns whose matches are not one residue wide                             (grid 2304 = 2^8 * 9)
    _strided(cases, _all_seqs("KPAMD", 6 if T else 4), _grid(WIDE_ENZ), 10 if T else 48, "exh-wide", 11, 385,
             every_compiled=3)
    # (1g) letter case and compiled patterns with flags                                (grid 1152)
    _strided(cases, _all_seqs("KkMmPA", 5 if T else 4), _grid(CASE_ENZ), 12 if T else 16, "exh-case", 13, 125)
    # (2) random long sequences
    rng = ctx.sub("random")
    aa = AA
    enz = ["[KR]", "[KR](?!P)", "K", "(?<=R)", "[KR](?![PM])", "(?<=[KR])(?!P)", "K(?!P)", "."]
    for _ in range(6000 if T else 1500):
        L = rng.choice([rng.randint(0, 20), rng.randint(20, 60), rng.randint(60, 200)])
        s = "".join(rng.choice(aa) for _ in range(L))
        if rng.random() < 0.4 and s:
            s = "M" + s[1:]
        mn = rng.choice([0, 1, 2, 5, 6, 7, 10])
        mx = rng.choice([mn, mn + 1, mn + 5, 20, 50, 50, 100])
        cases.append(_case(s, rng.choice(enz), rng.choice([0, 0, 1, 2, 3, 5]), mn, mx,
                           rng.random() < 0.5, rng.random() < 0.4, ["random", "len>20" if L > 20 else "len<=20"]))
    # (2b) the same with lengths across 255, wider bounds, all enzyme lists
    rng = ctx.sub("random-wide")
    allenz = enz + DOC_ENZ + WIDE_ENZ
    for _ in range(5000 if T else 800):
        L = rng.choice([rng.randint(180, 300), rng.randint(240, 270), rng.randint(300, 700)])
        s = "".join(rng.choice(aa) for _ in range(L)) if rng.random() < 0.6 else _seg_seq(rng, rng.randint(5, 14))
        if rng.random() < 0.3 and s:
            s = "M" + s[1:]
        mn = rng.choice([0, 1, 6, 7, 20, 50, 60])
        mx = rng.choice([mn, mn + 10, 50, 100, 250, 256, 1000])
        mc = rng.choice([0, 0, 1, 2, 3, 5])
        semi = rng.random() < 0.15 and mx <= 100 and mc <= 1 and len(s) <= 320      # the code's semi loop copies the set
        cases.append(_case(s, rng.choice(allenz), mc, mn, mx,
                           rng.random() < 0.5, semi, ["random-wide", "len>255" if len(s) > 255 else "len<=255"],
                           compiled=rng.random() < 0.3))
    # (3) corners: odd parameters and exotic patterns
    rng = ctx.sub("corner")
    exotic = ["", "K|", "(?=K)", "(?=M)", ".", "(?<!A)", "[KR]", "(?<=R)"]
    for _ in range(4000 if T else 1200):
        L = rng.randint(0, 7)
        s = "".join(rng.choice("KRPAM") for _ in range(L))
        cases.append(_case(s, rng.choice(exotic), rng.choice([-2, -1, 0, 1, 2, 9]),
                           rng.choice([-3, -1, 0, 1, 2, 3]), rng.choice([-1, 0, 1, 2, 3, 5, 50]),
                           rng.random() < 0.5, rng.random() < 0.5, ["corner"]))
    # (4) symbols: lower case, non-letters, white space, non-ASCII
    rng = ctx.sub("symbols")
    sym = "KKRRPMMkrm*-X1 \n\tÄк\U0001d510AD"
    symenz = allenz + [".", "(?s).", "\\w", "\\W", "\\s", "[^A-Z]", "\\*", "[KR\\n]", "(?m)$", "(?m)^", "к", "[\U0001d510K]"]
    for _ in range(20000 if T else 4000):
        L = rng.randint(0, 12)
        s = "".join(rng.choice(sym) for _ in range(L))
        if rng.random() < 0.3 and s:
            s = rng.choice("Mm") + s[1:]
        mn = rng.choice([0, 1, 1, 2, 3])
        cases.append(_case(s, rng.choice(symenz), rng.choice([0, 1, 2, 3]), mn, rng.choice([mn, 3, 5, 50]),
                           rng.random() < 0.5, rng.random() < 0.4, ["symbols"], compiled=rng.random() < 0.3))
    # (5) call styles
    rng = ctx.sub("style")
    flagged = [("[kr]", re.I), ("[KR](?!P)", re.I), (".", re.S), ("[KR] (?!P)  # trypsin/p", re.X), ("k (?=m)", re.X | re.I),
               ("(?<=[kr])(?!p)", re.I), ("[KR]", 0), ("[KR](?!P)", 0), (".(?=K)", 0), ("M", 0)]
    for _ in range(40000 if T else 8000):
        r = rng.random()
        if r < 0.5:
            s = _seg_seq(rng)
        elif r < 0.8:
            s = "".join(rng.choice(aa) for _ in range(rng.randint(0, 80)))
        else:
            s = "".join(rng.choice("KkRrMmPpAa\n") for _ in range(rng.randint(0, 14)))
        if rng.random() < 0.3 and s:
            s = "M" + s[1:]
        st = {}
        if rng.random() < 0.4:
            e, fl = rng.choice(flagged)
            st["flags"] = fl
            st["compiled"] = True
        else:
            e = rng.choice(allenz)
            st["compiled"] = rng.random() < 0.3
        mn = rng.choice([0, 1, 2, 5, 6, 7, 10])
        vals = {"enzyme": e, "mc": rng.choice([0, 0, 1, 2, 3, 5]), "clip": rng.random() < 0.5, "min": mn,
                "max": rng.choice([mn, mn + 5, 20, 49, 50, 51, 100]), "semi": rng.random() < 0.3}
        npos = rng.choice([0, 0, 0, 1, 2, 3, 4, 5, 6])
        omit = [p for p in PARAMS[npos:] if rng.random() < 0.35]
        for p in omit:
            vals[p] = DEFAULTS[p]
        if "enzyme" in omit:
            st.pop("flags", None)
            st["compiled"] = False
        st["npos"] = npos
        st["omit"] = omit
        st["seqkw"] = npos == 0 and rng.random() < 0.25
        st["style"] = rng.choice(["", "", "np", "intflags"])
        st["twice"] = rng.random() < 0.25
        tags = ["style", f"npos={npos}", f"omitted={len(omit)}"] + ["omit:" + p for p in omit]
        tags += [t for t, on in (("compiled", st["compiled"]), ("flags", st.get("flags")), ("seq-by-keyword", st["seqkw"]),
                                 ("args:" + st["style"], st["style"]), ("twice", st["twice"])) if on]
        cases.append(_case(s, vals["enzyme"], vals["mc"], vals["min"], vals["max"], vals["clip"], vals["semi"],
                           tags, **st))
    # (6) defaults: every subset of omitted arguments; the passed ones differ from their defaults
    rng = ctx.sub("defaults")
    for _ in range(100 if T else 16):
        s = _seg_seq(rng, rng.randint(3, 8))
        if rng.random() < 0.6:
            s = "M" + s[1:]
        for bits in range(64):
            omit = [p for k, p in enumerate(PARAMS) if bits >> k & 1]
            vals = {"enzyme": rng.choice(["[KR](?!P)", "K", ".(?=K)"]), "mc": rng.choice([1, 2]), "clip": True,
                    "min": rng.choice([2, 5, 7]), "max": rng.choice([30, 49, 51, 60]), "semi": True}
            for p in omit:
                vals[p] = DEFAULTS[p]
            cases.append(_case(s, vals["enzyme"], vals["mc"], vals["min"], vals["max"], vals["clip"], vals["semi"],
                               ["defaults", f"omitted={len(omit)}"] + ["omit:" + p for p in omit], omit=omit))
    # (7) long sequences and large (model-sized) parameters
    rng = ctx.sub("long")
    longs = [(1500, True), (2000, False), (3000, False), (3000, True)]
    longs += [(10000, False), (35000, False), (70000, False), (70000, False)] if T else [(70000, False)]
    for L, semi in longs:
        s = "".join(rng.choice(aa) for _ in range(L))
        if L >= 70000:
            s = s[:66000] + s[66000:].replace("P", "A")      # sites certainly beyond 65 535
        e = rng.choice(["[KR]", "[KR](?!P)"]) if L >= 35000 else rng.choice(["[KR]", "[KR](?!P)", ".(?=K)", "K(?!P)", "KK|R"])
        if rng.random() < 0.5:
            s = "M" + s[1:]
        cases.append(_case(s, e, 1 if L >= 70000 else rng.choice([0, 2]), 6, 50 if not semi else 12, rng.random() < 0.7, semi,
                           ["long", f"len={L}"], compiled=L == 3000))
    for _ in range(120 if T else 40):
        s = _seg_seq(rng, rng.randint(2, 10))[:300]
        mn = rng.choice([0, 1, 6, 100, 300, 301, 5000])
        cases.append(_case(s, rng.choice(DOC_ENZ), rng.choice([50, 1000, len(s), 7]), mn,
                           rng.choice([mn, 299, 300, 301, 1000, 5000]), rng.random() < 0.5, rng.random() < 0.2,
                           ["large-params"]))
    # the runner copies the cases at the quarter points (the last one included) into the evidence file: keep the
    # tiny corner cases at the end so that no 70 000-residue case or 10^5-peptide result is copied there
    cases.sort(key=lambda c: c["tags"][0] == "corner")
    return cases


def encode(c):
    params = " ".join([lib.z(c["mc"]), lib.z(c["min"]), lib.z(c["max"]), lib.b(c["semi"]), lib.b(c["clip"])])
    cl = CLASS_ENZ.get(c["enzyme"]) if not c.get("flags") else None
    if cl is not None:
        return f"c17.digest_class {lib.s(cl[0])} {lib.s(cl[1])} {lib.s(c['seq'])} {params}"
    return f"c17.digest_ends {lib.s(c['seq'])} {lib.lst(_ends(c))} {params}"


def decode(c, t):
    return sorted(set(t.lst(t.s)))


def _call_args(c):
    """positional and keyword arguments of the call the case describes"""
    enz = c["enzyme"]
    if c.get("compiled") or c.get("flags"):
        enz = re.compile(enz, c.get("flags", 0))
    vals = {"enzyme": enz, "mc": c["mc"], "clip": c["clip"], "min": c["min"], "max": c["max"], "semi": c["semi"]}
    style = c.get("style", "")
    if style == "np":
        import numpy as np
        for p in ("mc", "min", "max"):
            if -2 ** 63 <= vals[p] < 2 ** 63:
                vals[p] = np.int64(vals[p])
        for p in ("clip", "semi"):
            vals[p] = np.bool_(vals[p])
    elif style == "intflags":
        for p in ("clip", "semi"):
            vals[p] = int(vals[p])
    npos = c.get("npos", 0)
    # an argument may only be left out when the case really carries the default for it
    omit = {p for p in c.get("omit", []) if p in PARAMS[npos:] and c[p] == DEFAULTS[p]
            and not (p == "enzyme" and (c.get("compiled") or c.get("flags")))}
    args = [vals[p] for p in PARAMS[:npos]]
    kwargs = {KWNAME[p]: vals[p] for p in PARAMS[npos:] if p not in omit}
    if c.get("seqkw") and npos == 0:
        kwargs["sequence"] = c["seq"]
    else:
        args.insert(0, c["seq"])
    return args, kwargs


_NPEP = {}


def _digest(c):
    import mokapot
    args, kwargs = _call_args(c)
    r = mokapot.digest(*args, **kwargs)
    out = sorted(r)
    if c.get("twice"):
        # the caller owns the result: emptying it must not change what the next identical call returns
        try:
            r.clear()
        except AttributeError:
            pass
        args, kwargs = _call_args(c)
        again = sorted(mokapot.digest(*args, **kwargs))
        if again != out:
            return ("unstable", out, again)
    return out


def impl(c):
    r = call_impl(_digest, c)
    r = r[1] if r[0] == "ok" else r
    _NPEP[id(c)] = len(set(r)) if isinstance(r, list) else 0
    return r


def same(c, m, i):
    return isinstance(i, list) and list(m) == list(i)


def nontrivial(c):
    """the implementation returned at least two distinct peptides for this case"""
    n = _NPEP.get(id(c))
    if n is None:
        r = impl(c)
        n = len(set(r)) if isinstance(r, list) else 0
    return n >= 2


# ----------------------------------------------------------------------------- the property itself
def sites_of(c):
    s = c["seq"]
    return [0] + _ends(c) + [len(s)]


def contract_ok(c):
    """Proofs.DigestP.sites_ok: 0 :: mids ++ [n], mids non-decreasing within 1..n"""
    sites = sites_of(c)
    n = len(c["seq"])
    mids = sites[1:-1]
    return all(1 <= x <= n for x in mids) and all(a <= b for a, b in zip(mids, mids[1:]))


def _derive(out, seq, a, b, mn, clip, semi):
    pep = seq[a:b]
    out.add(pep)
    if clip and a == 0 and pep[0] == "M" and len(pep) - 1 >= mn:
        out.add(pep[1:])
    if semi:
        for k in range(max(1, mn), len(pep)):
            out.add(pep[:k])
            out.add(pep[len(pep) - k:])


def spec_digest_naive(seq, sites, mc, mn, mx, clip, semi):
    """Digest_spec of Props/C17.v, non-empty peptides only (position based, no loops over indices)"""
    out = set()
    S = sorted(set(sites))
    for a in S:
        for b in S:
            if not a < b:
                continue
            missed = sum(1 for x in sites if a < x < b)
            if missed > mc or not (mn <= b - a <= mx):
                continue
            _derive(out, seq, a, b, mn, clip, semi)
    out.discard("")
    return out


def spec_digest(seq, sites, mc, mn, mx, clip, semi):
    """the same set for a non-decreasing site list: the number of sites strictly between a and b is read off by
    bisection and grows with b, so the scan over b stops at the first b with too many (equality with the naive
    transcription is checked in extra_checks)"""
    out = set()
    S = sorted(set(sites))
    for k, a in enumerate(S):
        hi_a = bisect.bisect_right(sites, a)
        for b in S[k + 1:]:
            if bisect.bisect_left(sites, b) - hi_a > mc:
                break
            if mn <= b - a <= mx:
                _derive(out, seq, a, b, mn, clip, semi)
    out.discard("")
    return out


def oracle(c, i):
    if not isinstance(i, list):
        return f"digest raised or is not repeatable: {i!r}"[:600]
    seq = c["seq"]
    for p in i:
        if p not in seq:
            return f"returned peptide {p!r} is not a substring of the protein {seq!r}"[:600]
    if contract_ok(c):
        exp = spec_digest(seq, sites_of(c), c["mc"], c["min"], c["max"], c["clip"], c["semi"])
        got = set(i) - {""}
        if got != exp:
            return (f"digest differs from the enzyme rules: missing {sorted(exp - got)[:6]!r}, "
                    f"unexpected {sorted(got - exp)[:6]!r} (sites {sites_of(c)[:40]})")[:900]
        sites = sites_of(c)
        exp_empty = (c["min"] <= 0 and c["mc"] >= 0 and c["max"] >= 0
                     and (len(set(sites)) < len(sites)
                          or (c["clip"] and c["max"] >= 1 and 1 in sites and seq[:1] == "M")))
        if ("" in i) != exp_empty:
            return (f"empty peptide {'returned' if '' in i else 'not returned'} (sites {sites[:40]}) "
                    f"against C17_empty_peptide")
    # monotonicity
    for d in (dict(mc=c["mc"] + 1), dict(min=c["min"] - 1), dict(max=c["max"] + 1), dict(semi=True)):
        c2 = _with(c, **d)
        j = impl(c2)
        if isinstance(j, list) and not set(i) <= set(j):
            return f"digest shrinks when {d} is allowed: lost {sorted(set(i) - set(j))[:6]!r}"
    return None


def shrink(c):
    s = c["seq"]
    n = len(s)
    if n > 64:
        # long sequences: remove aligned blocks (halves ... sixteenths; every candidate costs a model run, so only
        # halves and quarters beyond 5 000 residues); single residues only once the sequence is short
        size = n // 2
        while size >= max(1, n // (4 if n > 5000 else 16)):
            for k in range(0, n, size):
                yield dict(c, seq=s[:k] + s[k + size:])
            size //= 2
    else:
        for k in range(n):
            yield dict(c, seq=s[:k] + s[k + 1:])
    # plain call first
    if c.get("twice"):
        yield {k: v for k, v in c.items() if k != "twice"}
    if c.get("style"):
        yield {k: v for k, v in c.items() if k != "style"}
    if c.get("npos") or c.get("seqkw"):
        yield {k: v for k, v in c.items() if k not in ("npos", "seqkw")}
    if c.get("omit"):
        yield {k: v for k, v in c.items() if k != "omit"}
    if c.get("compiled") and not c.get("flags"):
        yield {k: v for k, v in c.items() if k != "compiled"}
    if c["mc"] > 0:
        yield _with(c, mc=c["mc"] - 1)
    if c["semi"]:
        yield _with(c, semi=False)
    if c["clip"]:
        yield _with(c, clip=False)
    if c["max"] != 50:
        yield _with(c, max=50)
    if c["min"] > 1:            # stay in the practical domain min_length >= 1 where possible
        yield _with(c, min=c["min"] - 1)
    if n <= 64:
        for k in range(n):
            if s[k] not in "KRMPA":
                yield dict(c, seq=s[:k] + "A" + s[k + 1:])


# ----------------------------------------------------------------------------- oracle contracts
BIG = [2 ** 31 - 1, 2 ** 31, 2 ** 63 - 1, 2 ** 63, 2 ** 64, 10 ** 30]


def _big_cases(ctx):
    """length bounds far outside what the model's unary numbers can hold: checked with the property oracle alone"""
    rng = ctx.sub("bigint")
    out = []
    for _ in range(1500 if ctx.thorough else 500):
        s = _seg_seq(rng, rng.randint(1, 6)) if rng.random() < 0.7 else "".join(rng.choice("KRPAM") for _ in range(rng.randint(0, 8)))
        if rng.random() < 0.4 and s:
            s = "M" + s[1:]
        mn = rng.choice([0, 1, 2, 6, 6] + [-b for b in BIG] + BIG)
        mx = rng.choice([50, 50, 7, len(s)] + [-b for b in BIG[:3]] + BIG + BIG)
        st = {"style": rng.choice(["", "np"]), "npos": rng.choice([0, 0, 6]), "compiled": rng.random() < 0.3}
        out.append(_case(s, rng.choice(DOC_ENZ), rng.choice([0, 1, 2, 3, 20]), mn, mx, rng.random() < 0.5,
                         rng.random() < 0.4, ["bigint"], **st))
    return out


def extra_checks(ctx):
    """(i) every regex-oracle site list used meets the contract of _cleavage_sites assumed by the model
    (non-decreasing, within 0..len); (ii) the model's own site computation for the residue-class patterns
    equals [0] + re match ends + [len] on an exhaustive small scope and random long sequences; (iii) huge length
    bounds: property oracle alone; (iv) the fast oracle equals its naive transcription."""
    fails = []
    rng = ctx.sub("sites")
    seqs = list(_all_seqs("KRPM", 6 if ctx.thorough else 5))
    seqs += list(_all_seqs("DEFLkW", 4))
    aa = "ACDEFGHILNQSTVWYKKKRRRPPMM"
    for _ in range(300):
        seqs.append("".join(rng.choice(aa) for _ in range(rng.randint(0, 200))))
    lines, exp = [], []
    for pat, (cl, nf) in CLASS_ENZ.items():
        for s in seqs:
            lines.append(f"c17.class_sites {lib.s(cl)} {lib.s(nf)} {lib.s(s)}")
            exp.append((pat, s, [0] + ends_of(pat, s) + [len(s)]))
    outs = lib.run_driver(lines)
    bad = 0
    for o, (pat, s, e) in zip(outs, exp):
        got = lib.Toks(o).lst()
        if got != e:
            bad += 1
            if bad <= 3:
                fails.append({"what": f"model site computation for {pat!r} on {s!r}: {got} but re gives {e}",
                              "failing_input": None})
    n_oracle = 0
    pats = [(p, 0) for p in GRID_ENZ + GRID_ENZ_R + DOC_ENZ + ["", "K|", "(?=K)", "(?=M)", ".", "(?<!A)", "(?<=[KR])(?!P)"]
            + WIDE_ENZ] + CASE_ENZ
    for pat, fl in pats:
        for s in seqs:
            e = ends_of(pat, s, fl)
            n_oracle += 1
            if any(a > b for a, b in zip(e, e[1:])) or any(not (0 <= x <= len(s)) for x in e):
                fails.append({"what": f"regex oracle contract broken: {pat!r} on {s!r} gives ends {e}",
                              "failing_input": None})
                break
    # (iii)
    big = _big_cases(ctx)
    n_big_contract = 0
    for c in big:
        i = impl(c)
        n_big_contract += contract_ok(c)
        msg = oracle(c, i)
        if msg:
            fails.append({"what": "huge length bounds (property oracle only): " + msg, "failing_input": c})
            break
    # (iv)
    rng = ctx.sub("oracle-selftest")
    n_self = 0
    for _ in range(400):
        s = "".join(rng.choice("KRPAM") for _ in range(rng.randint(0, 12)))
        c = _case(s, rng.choice(GRID_ENZ + ["K*", "$", "KK", ".(?=K)"]), 0, 0, 0, False, False, [])
        if not contract_ok(c):
            continue
        a = (s, sites_of(c), rng.randint(0, 4), rng.randint(0, 4), rng.choice([1, 3, 6, 50]), rng.random() < 0.5,
             rng.random() < 0.5)
        n_self += 1
        if spec_digest(*a) != spec_digest_naive(*a):
            fails.append({"what": f"harness self-test: fast and naive property oracle differ on {a!r}", "failing_input": None})
            break
    return fails, {"site_computations_checked": len(lines), "oracle_contract_checks": n_oracle,
                   "huge_bound_cases_checked_with_property_oracle_only": len(big),
                   "huge_bound_cases_within_site_contract": n_big_contract,
                   "oracle_selftest_cases": n_self}
