"""C18 — decoy generation and FASTA round trip: correspondence of Model/Decoys.v + Model/Fasta.v with
mokapot.make_decoys (observed through the file it writes, re-read with mokapot's own FASTA parser).

Oracles (recorded while the real code runs, passed to the model as data, contracts checked in
extra_checks): np.random.permutation (every value drawn, in call order), textwrap (every wrapped
sequence), and - for enzymes that are not a plain residue class - the regex engine (cleavage sites)."""
import atexit
import itertools
import locale
import logging
import os
import random
import re
import shutil
import tempfile
import textwrap

from .. import lib
from ..lib import call_impl

PROP = "C18"
RULE = ("cases: (1) exhaustive: one-protein files for every sequence over {K,A,C} up to length 7 (quick) / 8 (thorough), "
        "shuffle and reverse; thorough adds every sequence over {K,R,A,C} up to length 6 with [KR] and every length-9 "
        "sequence over {K,A,C}; every permutation of range(k), k<=4 (quick) / 6 (thorough), as the scripted value of the "
        "permutation oracle (two peptides share the cached permutation) and the retry-loop boundaries (identity returned "
        "0,1,2,99,100,101,150 times); (1b) call matrix: every container type of the `fasta` argument (str, Path, list, tuple, "
        "list/tuple of Path, numpy array of str / object, pandas Series with non-default row labels, one-shot iterator) x "
        "state of out_file (absent, holds a longer FASTA text, holds a shorter one, IS one of the input files) x call style "
        "(keywords, all keywords incl. fasta=/out_file=, all positional, arguments with their documented default left out) "
        "with bool / int / numpy.bool_ flags, str / Path out_file, relative paths (cwd changed), file names that are not in "
        "sorted order, in sub-directories, with blanks, the same file given twice; the four documented defaults left out one "
        "combination at a time; every other exhaustive case and every random case draws such a call shape as well; none of "
        "this is an input of the model, which must nevertheless predict the written text; "
        "(2) random structured FASTA inputs: 1-3 files, 1-6 records, descriptions (blank or tab separated), multi-line "
        "records of several widths, CRLF / CR, blank lines, empty names, names that occur twice (with the same or another "
        "sequence), names that already start with the decoy prefix, names equal to the decoy name of an earlier target, names "
        "of 66-120 characters, names with tab / '>' / non-ASCII letters, sequence lengths 0-6, 69/70/71, 139/140/141, 210, "
        "random to 320 (thorough: 700/1400/3500), upper / lower / mixed case, ambiguity codes XBZUOJ, '-' gaps and '*' inside, "
        "with and without cleavage sites, residue-class and regex enzymes (look-around, alternation, groups, multi-character "
        "matches, anchors, inline (?i), str or compiled, compiled with re.IGNORECASE), shuffle/reverse, concatenate on/off, six "
        "prefixes, numpy RNG (32-bit seeds, fresh or already used) or scripted permutations; (3) malformed stream: random texts "
        "over a token alphabet ('>', newlines of all kinds, spaces, tabs, '-', BOM, long runs, empty files, no leading '>', no "
        "file at all), through make_decoys (half of them with a random call shape) and through the parser alone; (3b) "
        "sequences with blanks (outside the round-trip guard; agreement required, property outcome reported in the evidence); "
        "(4) textwrap vs the 70-column chunking of the model. Every case runs in a directory of its own which is removed "
        "afterwards. distinct = distinct case content (call shape included); non-trivial = some peptide has an interior of >= 2 "
        "residues (the shuffle acts), or the input is malformed and at least one file has more than its first character")
ASSUMPTIONS = [
    "files are UTF-8; open() newline translation is modelled (fa_universal_nl), the codec is not",
    "str.splitlines() boundaries modelled: \\n \\v \\f \\r \\r\\n FS GS RS NEL LS PS",
    "textwrap.wrap, np.random.permutation and (for non-class enzymes) re.finditer are oracles: their recorded values are "
    "model inputs; contracts (concatenation = sequence, chunks of 1..70 / exactly the 70-column chunking for hyphen-free "
    "sequences; permutation of range(k); sites start at 0, end at len, never decrease) are checked on every recorded value",
    "make_decoys(fasta, out_file, decoy_prefix='decoy_', enzyme='[KR]', reverse=False, concatenate=True): parameter order and "
    "default values as documented in its docstring are part of what is checked (calls that leave arguments out or pass them "
    "positionally); the files are read completely before out_file is opened for writing, so out_file may be an input",
    "the order of the target entries is the order of the files as given (repeats included), then the order inside each file",
    "the round-trip theorem assumes names without space / line boundary and sequences without whitespace, line boundary, '>'; "
    "names produced by the parser always satisfy this, sequences need not (malformed stream shows the behaviour)",
]
TRUSTED_EXTRA = ["textwrap.wrap (oracle, contract checked)", "numpy.random.permutation (oracle, contract checked)",
                 "re.finditer for look-around enzymes (oracle, contract checked)",
                 "ocaml/entries/c18.ml builds the oracle functions from the recorded tables (fails on any unused / missing value)"]

UTF8 = locale.getpreferredencoding(False).lower().replace("-", "") == "utf8"
LB = "\n\x0b\x0c\r\x1c\x1d\x1e\x85\u2028\u2029"

_CACHE = {}
_CONTRACT_FAIL = []      # (what, case)
_COUNTS = {"perm_values": 0, "wrap_values": 0, "site_lists": 0}
_TMP = None
_NCASE = 0


def _tmpdir():
    global _TMP
    if _TMP is None:
        _TMP = tempfile.mkdtemp(prefix="c18_")
        atexit.register(shutil.rmtree, _TMP, True)
    return _TMP


def _key(c):
    return lib.stable_hash({k: v for k, v in c.items() if k != "tags"})


# ----------------------------------------------------------------------------- enzymes
def _cls_of(pattern):
    """residue class of a pattern of the form '[XYZ]' / 'X', else None (regex oracle needed)"""
    m = re.fullmatch(r"\[([A-Za-z]+)\]", pattern)
    if m:
        return m.group(1)
    if re.fullmatch(r"[A-Za-z]", pattern):
        return pattern
    return None


def _rx(c):
    """the enzyme of a case as a compiled pattern (flags: 'i' = re.IGNORECASE)"""
    return re.compile(c["enzyme"], re.I if "i" in (c.get("reflags") or "") else 0)


def _sites(c, seq):
    return [0] + [m.end() for m in _rx(c).finditer(seq)] + [len(seq)]


def _case_cls(c):
    """residue class of the enzyme of a case (None: the regex oracle is needed)"""
    return None if (c.get("reflags") or "") else _cls_of(c["enzyme"])


# ----------------------------------------------------------------------------- structured inputs
def render_file(recs):
    """recs: list of dicts name, desc, seq, width, nl ('\n' or '\r\n'), blank (blank line after record), final (final newline)"""
    out = []
    for r in recs:
        nl = r.get("nl", "\n")
        head = ">" + r["name"] + ((" " + r["desc"]) if r.get("desc") else "")
        w = max(1, r.get("width", 60))
        lines = [r["seq"][i:i + w] for i in range(0, len(r["seq"]), w)]
        txt = nl.join([head] + lines)
        if r.get("blank"):
            txt += nl
        out.append((txt, nl))
    s = ""
    for i, (txt, nl) in enumerate(out):
        s += txt
        if i + 1 < len(out) or recs[-1].get("final", True):
            s += nl
    return s


def struct_entries(struct):
    return [[r["name"], r["seq"]] for f in struct for r in f]


def _mk(struct, prefix, enzyme, reverse, concatenate, perm, tags, compiled=False, single=False, how=None, reflags=""):
    c = {"fn": "make_decoys", "files": [render_file(f) for f in struct], "struct": struct, "prefix": prefix,
         "enzyme": enzyme, "compiled": compiled or bool(reflags), "reverse": reverse, "concatenate": concatenate,
         "perm": perm, "single": single, "tags": list(tags)}
    if reflags:
        c["reflags"] = reflags
    if how is not None:
        c["how"] = how
        c["tags"] += _how_tags(how)
    return c


# ----------------------------------------------------------------------------- how the real function is called
# None of this is visible to the model (it sees file contents, prefix, enzyme, the two flags): the way the arguments
# are spelled, where the files live and what is already on disk must not change what is written.
ARG_ONE = ["str", "path", "list", "tuple", "list-path", "ndarray", "series", "iter"]
ARG_MANY = ["list", "tuple", "list-path", "tuple-path", "ndarray", "ndarray-object", "series", "iter"]
OUT_KINDS = ["str", "path"]
PRE_KINDS = ["absent", "absent", "longer", "shorter", "in-place"]
CALL_STYLES = ["kw", "allkw", "pos", "omit"]
FLAG_KINDS = ["bool", "bool", "int", "npbool"]
FILE_NAMES = ["z.fasta", "a.fa", "sub dir/m.fasta", "Zeta.FASTA", "b/c/db.txt", "0.faa", "x y.fasta", "_t.fasta",
              "nested/z.fasta", "M.fasta"]
DEFAULTS = {"decoy_prefix": "decoy_", "enzyme": "[KR]", "reverse": False, "concatenate": True}


def _rand_how(rng, nfiles):
    names = rng.sample(FILE_NAMES + (["pr\xe9.fasta"] if UTF8 else []), nfiles)     # never in sorted order on purpose
    return {"paths": names, "arg": rng.choice(ARG_ONE if nfiles == 1 else ARG_MANY), "out": rng.choice(OUT_KINDS),
            "out_name": rng.choice(["out.fasta", "res/o.fa", "a.out", "zz out.fasta"]),
            "pre": rng.choice(PRE_KINDS), "inplace_idx": rng.randrange(max(1, nfiles)),
            "call": rng.choice(CALL_STYLES), "flags": rng.choice(FLAG_KINDS), "rel": rng.random() < 0.15}


def _how_tags(how):
    t = ["arg=" + str(how.get("arg")), "out=" + str(how.get("out")), "pre=" + str(how.get("pre")),
         "call=" + str(how.get("call")), "flags=" + str(how.get("flags"))]
    if how.get("rel"):
        t.append("relative-paths")
    ps = how.get("paths") or []
    if ps != sorted(ps):
        t.append("file-names-unsorted")
    if len(set(ps)) < len(ps):
        t.append("same-file-twice")
    return t


def _leftover(n):
    """a syntactically valid FASTA text of at least n characters (what an earlier run may have left in out_file)"""
    out, i = [], 0
    size = 0
    while size < n:
        rec = f">left|{i} old\n" + ("W" * 60 + "\n") * 3
        out.append(rec)
        size += len(rec)
        i += 1
    return "".join(out)


def _materialise(c, d):
    """write the input files of a case below d; -> (paths, out path, names relative to d)"""
    how = c.get("how") or {}
    n = len(c["files"])
    names = how.get("paths")
    if not names or len(names) != n:
        names = [f"in{i}.fasta" for i in range(n)]
    names = list(names)
    seen = {}
    for i, (name, txt) in enumerate(zip(names, c["files"])):
        if seen.setdefault(name, txt) != txt:       # (a shrunk case:) one path cannot hold two texts
            names[i] = f"{i}_{name}"
            seen[names[i]] = txt
    paths = []
    for name, txt in zip(names, c["files"]):
        p = os.path.join(d, name)
        os.makedirs(os.path.dirname(p), exist_ok=True)
        with open(p, "w", newline="", encoding="utf-8") as f:
            f.write(txt)
        paths.append(p)
    pre = how.get("pre", "absent")
    if pre == "in-place" and n > 0:
        k = how.get("inplace_idx", 0) % n
        out, out_name = paths[k], names[k]
    else:
        out_name = how.get("out_name", "out.fasta")
        out = os.path.join(d, out_name)
        os.makedirs(os.path.dirname(out), exist_ok=True)
        if pre in ("longer", "shorter"):
            with open(out, "w", newline="", encoding="utf-8") as f:
                f.write(_leftover(3 * sum(len(t) for t in c["files"]) + 1000) if pre == "longer" else ">s\nAK")
    return paths, out, names, out_name


def _build_arg(c, paths):
    import pathlib
    import numpy as np
    how = c.get("how") or {}
    kind = how.get("arg")
    if kind is None:
        return paths[0] if (c.get("single") and len(paths) == 1) else paths
    if kind in ("str", "path") and len(paths) != 1:
        kind = "list"
    if kind == "str":
        return paths[0]
    if kind == "path":
        return pathlib.Path(paths[0])
    if kind == "tuple":
        return tuple(paths)
    if kind == "list-path":
        return [pathlib.Path(p) for p in paths]
    if kind == "tuple-path":
        return tuple(pathlib.Path(p) for p in paths)
    if kind == "ndarray":
        return np.array(paths)
    if kind == "ndarray-object":
        return np.array(paths, dtype=object)
    if kind == "series":
        import pandas as pd
        return pd.Series(paths, index=[f"f{len(paths) - i}" for i in range(len(paths))])     # non-default row labels
    if kind == "iter":
        return iter(list(paths))
    return list(paths)


def _flag(kind, v):
    import numpy as np
    if kind == "int":
        return int(bool(v))
    if kind == "npbool":
        return np.bool_(bool(v))
    return bool(v)


def _call(c, arg, out):
    """the one call of the real API function"""
    import pathlib
    import mokapot
    how = c.get("how") or {}
    enz = _rx(c) if c.get("compiled") else c["enzyme"]
    fk = how.get("flags", "bool")
    rev, conc = _flag(fk, c["reverse"]), _flag(fk, c["concatenate"])
    if how.get("out") == "path":
        out = pathlib.Path(out)
    style = how.get("call", "kw")
    if style == "pos":
        return mokapot.make_decoys(arg, out, c["prefix"], enz, rev, conc)
    kw = {"decoy_prefix": c["prefix"], "enzyme": enz, "reverse": rev, "concatenate": conc}
    if style == "omit":         # arguments that have their documented default value are left out
        if c["prefix"] == DEFAULTS["decoy_prefix"]:
            del kw["decoy_prefix"]
        if not c.get("compiled") and c["enzyme"] == DEFAULTS["enzyme"]:
            del kw["enzyme"]
        if not c["reverse"]:
            del kw["reverse"]
        if c["concatenate"]:
            del kw["concatenate"]
    if style == "allkw":
        return mokapot.make_decoys(fasta=arg, out_file=out, **kw)
    return mokapot.make_decoys(arg, out, **kw)


# ----------------------------------------------------------------------------- running the real code
def _run(c):
    """run the real make_decoys once per distinct case, recording the oracles"""
    k = _key(c)
    if k in _CACHE:
        return _CACHE[k]
    import numpy as np
    import mokapot
    from mokapot.parsers import fasta as F

    draws, wraps = [], {}
    pm = c.get("perm") or {"mode": "numpy", "seed": 0}
    rng = random.Random(pm.get("seed", 0))
    ncall = [0]
    real_perm = np.random.permutation
    real_wrap = textwrap.TextWrapper.wrap

    def rec_perm(x):
        if pm["mode"] == "numpy":
            r = real_perm(x)
        else:
            base = np.asarray(x)
            n = len(base)
            fixed = (pm.get("perms") or {}).get(str(n))
            if ncall[0] < pm.get("ident", 0):
                r = base.copy()
            elif fixed is not None:
                r = base[np.asarray(fixed, dtype=int)] if n else base.copy()
            else:
                idx = list(range(n))
                rng.shuffle(idx)
                r = base[np.asarray(idx, dtype=int)] if n else base.copy()
        ncall[0] += 1
        draws.append([int(len(x))] + [int(v) for v in r])
        return r

    def rec_wrap(self, text):
        r = real_wrap(self, text)
        wraps.setdefault(text, list(r))
        return r

    global _NCASE
    _NCASE += 1
    d = os.path.join(_tmpdir(), f"case{_NCASE}")
    os.makedirs(d)
    how = c.get("how") or {}
    paths, out, names, out_name = _materialise(c, d)

    def parse(path):
        return [list(F._parse_protein(p)) for p in F._parse_fasta_files(path)]

    # the targets as the real parser sees them, read BEFORE the call (out_file may be one of the inputs)
    logging.disable(logging.CRITICAL)
    try:
        tp = call_impl(parse, list(paths))
    finally:
        logging.disable(logging.NOTSET)

    cwd = os.getcwd()
    if how.get("rel"):
        os.chdir(d)
        arg, out_arg = _build_arg(c, names), out_name
    else:
        arg, out_arg = _build_arg(c, paths), out

    def go():
        r = _call(c, arg, out_arg)
        with open(r, "r", newline="", encoding="utf-8") as f:
            txt = f.read()
        return [txt, list(call_impl(parse, r))]

    st = np.random.get_state()
    logging.disable(logging.CRITICAL)
    np.random.permutation = rec_perm
    textwrap.TextWrapper.wrap = rec_wrap
    try:
        if pm["mode"] == "numpy":
            np.random.seed(pm.get("seed", 0))
            for _ in range(pm.get("burn", 0)):      # a generator that has been used before
                np.random.random()
        res = call_impl(go)
    finally:
        np.random.permutation = real_perm
        textwrap.TextWrapper.wrap = real_wrap
        logging.disable(logging.NOTSET)
        np.random.set_state(st)
        os.chdir(cwd)
        shutil.rmtree(d, ignore_errors=True)

    # wrap table: recorded values first; textwrap on every sequence that can be written otherwise
    # (keeps the model runnable if a refactoring wraps by other means; such values are then not "recorded")
    table = dict(wraps)
    extra_seqs = []
    if res[0] == "ok" and res[1][1][0] == "ok":
        extra_seqs += [e[1] for e in res[1][1][1]]
    if tp[0] == "ok":
        extra_seqs += [e[1] for e in tp[1]]
    for s in extra_seqs:
        if s not in table:
            table[s] = textwrap.wrap(s)

    # contracts
    for dr in draws:
        _COUNTS["perm_values"] += 1
        if sorted(dr[1:]) != list(range(dr[0])):
            _CONTRACT_FAIL.append((f"np.random.permutation returned {dr[1:]} for arange({dr[0]})", c))
    for s, ls in wraps.items():
        _COUNTS["wrap_values"] += 1
        if seq_ok(s):
            if "".join(ls) != s or any(not (1 <= len(x) <= 70) for x in ls):
                _CONTRACT_FAIL.append((f"wrapped lines {ls!r} are not chunks of 1..70 whose concatenation is {s!r}", c))
            elif "-" not in s and ls != chunks70(s):
                _CONTRACT_FAIL.append((f"sequence {s!r} is not wrapped at exactly 70 columns: {ls!r}", c))
    r = {"res": res, "draws": [dr[1:] for dr in draws], "wraps": table, "case": c}
    _CACHE[k] = r
    return r


def seq_ok(s):
    return not any(ch in LB or ch in " \t>" for ch in s)


def name_ok(s):
    return not any(ch in LB or ch == " " for ch in s)


def chunks70(s):
    return [s[i:i + 70] for i in range(0, len(s), 70)]


def _parse_only(files):
    from mokapot.parsers import fasta as F
    d = _tmpdir()
    paths = []
    for i, txt in enumerate(files):
        p = os.path.join(d, f"p{i}.fasta")
        with open(p, "w", newline="", encoding="utf-8") as f:
            f.write(txt)
        paths.append(p)
    logging.disable(logging.CRITICAL)
    try:
        return [list(F._parse_protein(p)) for p in F._parse_fasta_files(paths)]
    finally:
        logging.disable(logging.NOTSET)


# ----------------------------------------------------------------------------- interface
def encode(c):
    fn = c["fn"]
    if fn == "parse":
        return "c18.parse " + lib.lst(c["files"], lib.s)
    if fn == "wrap70":
        return "c18.wrap70 " + lib.s(c["seq"])
    r = _run(c)
    cls = _case_cls(c)
    if cls is not None:
        enz = "0 " + lib.s(cls)
    else:
        # regex oracle: sites of every target sequence (known for structured inputs only)
        ents = struct_entries(c["struct"])
        sl = [_sites(c, e[1]) for e in ents]
        for e, ss in zip(ents, sl):
            _COUNTS["site_lists"] += 1
            if ss[0] != 0 or ss[-1] != len(e[1]) or any(a > b for a, b in zip(ss, ss[1:])):
                _CONTRACT_FAIL.append((f"regex sites {ss} of {e[1]!r} are not a non-decreasing chain from 0 to len", c))
        enz = "1 " + lib.lst(sl, lambda x: lib.lst(x, lib.z))
    return " ".join(["c18.make_decoys", lib.lst(c["files"], lib.s), lib.s(c["prefix"]), enz,
                     lib.b(c["reverse"]), lib.b(c["concatenate"]),
                     lib.lst(r["draws"], lambda p: lib.lst(p, lib.z)),
                     lib.lst(list(r["wraps"].items()), lib.pair(lib.s, lambda ls: lib.lst(ls, lib.s)))])


def decode(c, t):
    fn = c["fn"]
    ents = lambda: t.lst(lambda: [t.s(), t.s()])
    if fn == "parse":
        return t.result(ents)
    if fn == "wrap70":
        return t.lst(t.s)

    def body():
        txt = t.s()
        return [txt, list(t.result(ents))]
    return t.result(body)


def impl(c):
    fn = c["fn"]
    if fn == "parse":
        return call_impl(_parse_only, c["files"])
    if fn == "wrap70":
        return textwrap.wrap(c["seq"])
    return _run(c)["res"]


def same(c, m, i):
    return lib.jsonable(m) == lib.jsonable(i)


def nontrivial(c):
    if "malformed" in c.get("tags", []) or c.get("struct") is None and c["fn"] in ("make_decoys", "parse"):
        return any(len(t) > 1 for t in c["files"])       # something is left after the leading character is dropped
    if c["fn"] == "wrap70":
        return len(c["seq"]) > 70
    st = c.get("struct")
    for n, s in struct_entries(st):
        ss = _sites(c, s)
        if any(b - a >= 4 for a, b in zip(ss, ss[1:])):
            return True
    return False


# ----------------------------------------------------------------------------- the property itself
def check_property(c, res):
    """the property text, evaluated on what the real code wrote (well-formed structured inputs only)"""
    if res[0] != "ok":
        return f"make_decoys failed on a well-formed input: {res!r}"
    txt, rep = res[1]
    if rep[0] != "ok":
        return f"the written file cannot be re-read: {rep!r}"
    got = [list(e) for e in rep[1]]
    targets = struct_entries(c["struct"])
    n = len(targets)
    if c["concatenate"]:
        if got[:n] != targets:
            return f"targets are not reproduced unchanged ahead of the decoys: {got[:n]!r} vs {targets!r}"
        decoys = got[n:]
    else:
        decoys = got
    if len(decoys) != n:
        return f"{len(decoys)} decoys for {n} targets"
    cls = _case_cls(c)
    for (tn, ts), (dn, ds) in zip(targets, decoys):
        if dn != c["prefix"] + tn:
            return f"decoy name {dn!r} is not prefix + {tn!r}"
        if len(ds) != len(ts):
            return f"decoy of {ts!r} has length {len(ds)}"
        if sorted(ds) != sorted(ts):
            return f"decoy {ds!r} has another composition than {ts!r}"
        ss = _sites(c, ts)
        for a, b in zip(ss, ss[1:]):
            if a < b and (ds[a] != ts[a] or ds[b - 1] != ts[b - 1]):
                return f"terminus of peptide [{a},{b}) moved: {ts!r} -> {ds!r}"
            if sorted(ds[a:b]) != sorted(ts[a:b]):
                return f"peptide [{a},{b}) changed composition: {ts!r} -> {ds!r}"
            if c["reverse"] and b - a >= 2 and ds[a + 1:b - 1] != ts[a + 1:b - 1][::-1]:
                return f"interior of peptide [{a},{b}) is not reversed: {ts!r} -> {ds!r}"
        if cls is not None and _sites(c, ds) != ss:
            return f"cleavage sites differ: {ts!r} -> {ds!r}"
    # layout: header lines and sequence lines of at most 70 columns, full lines exactly 70
    for rec in ("\n" + txt).split("\n>")[1:]:
        ls = rec.split("\n")[1:]
        if any(len(x) > 70 for x in ls):
            return "a sequence line is longer than 70 columns"
        if all("-" not in x for x in ls) and any(len(x) != 70 for x in ls[:-1]):
            return "a non-final sequence line is not 70 columns wide"
    return None


def _wellformed(c):
    st = c.get("struct")
    if st is None or c["fn"] != "make_decoys":
        return False
    return (all(name_ok(n) and seq_ok(s) for n, s in struct_entries(st)) and name_ok(c["prefix"])
            and len(struct_entries(st)) > 0 and all(len(f) > 0 for f in st))


def oracle(c, i):
    if c["fn"] == "wrap70":
        s = c["seq"]
        if seq_ok(s) and "-" not in s and list(i) != chunks70(s):
            return f"textwrap.wrap does not cut {s!r} at 70 columns"
        return None
    if not _wellformed(c):
        return None
    return check_property(c, lib.jsonable(i))


def shrink(c):
    if c["fn"] == "wrap70":
        s = c["seq"]
        for k in range(len(s)):
            yield dict(c, seq=s[:k] + s[k + 1:])
        return
    how = c.get("how")
    if how:
        # the plain call first: whatever survives in the replay is needed for the failure
        plain = {"arg": "list", "out": "str", "pre": "absent", "call": "kw", "flags": "bool", "rel": False,
                 "out_name": "out.fasta"}
        for key, v in plain.items():
            if how.get(key, v) != v:
                yield dict(c, how=dict(how, **{key: v}))
        if how.get("paths") and how["paths"] != sorted(how["paths"]):
            yield dict(c, how=dict(how, paths=sorted(how["paths"])))

    def drop_file(fi):
        if not how or not how.get("paths") or len(how["paths"]) != len(c["files"]):
            return {}
        return {"how": dict(how, paths=how["paths"][:fi] + how["paths"][fi + 1:])}
    st = c.get("struct")
    if st is not None:
        for fi in range(len(st)):
            if len(st) > 1:
                s2 = st[:fi] + st[fi + 1:]
                yield dict(c, struct=s2, files=[render_file(f) for f in s2], **drop_file(fi))
            for ri in range(len(st[fi])):
                if len(st[fi]) > 1:
                    s2 = [list(f) for f in st]
                    del s2[fi][ri]
                    yield dict(c, struct=s2, files=[render_file(f) for f in s2])
        for fi in range(len(st)):
            for ri, r in enumerate(st[fi]):
                seq = r["seq"]
                cands = [seq[:len(seq) // 2], seq[len(seq) // 2:]] if len(seq) > 8 else \
                    [seq[:k] + seq[k + 1:] for k in range(len(seq))]
                for s in cands:
                    if s != seq:
                        s2 = [[dict(x) for x in f] for f in st]
                        s2[fi][ri]["seq"] = s
                        yield dict(c, struct=s2, files=[render_file(f) for f in s2])
                if r.get("desc") or r.get("blank") or r.get("nl", "\n") != "\n":
                    s2 = [[dict(x) for x in f] for f in st]
                    s2[fi][ri].update(desc="", blank=False, nl="\n")
                    yield dict(c, struct=s2, files=[render_file(f) for f in s2])
        return
    files = c["files"]
    for fi in range(len(files)):
        if len(files) > 1:
            yield dict(c, files=files[:fi] + files[fi + 1:], **drop_file(fi))
    for fi, txt in enumerate(files):
        step = max(1, len(txt) // 40)
        for k in range(0, len(txt), step):
            yield dict(c, files=files[:fi] + [txt[:k] + txt[k + step:]] + files[fi + 1:])


def finding_key(c, m, i):
    """structural key of a disagreement / property failure"""
    if c.get("fn") == "make_decoys" and c.get("struct") is not None and not _wellformed(c):
        if any(ch in " \t" for _, s in struct_entries(c["struct"]) for ch in s):
            return "C18-blank-in-sequence"
    return None


def _outside_guard():
    """behaviour on inputs whose sequences contain blanks: does the property text still hold?"""
    n = lost = 0
    example = None
    for r in _CACHE.values():
        c = r.get("case")
        if c is None or "blank-in-sequence" not in c.get("tags", []):
            continue
        n += 1
        msg = check_property(c, lib.jsonable(r["res"]))
        if msg:
            lost += 1
            if example is None or len(c["files"][0]) < len(example["files"][0]):
                example = {"files": c["files"], "failure": msg[:300]}
    return {"cases": n, "property_text_fails": lost, "example": example}


def extra_checks(ctx):
    fails = []
    seen = set()
    for what, c in _CONTRACT_FAIL:
        if what in seen:
            continue
        seen.add(what)
        fails.append({"what": "oracle contract: " + what, "failing_input": {k: v for k, v in c.items()}})
    return fails[:10], {"oracle_values_checked": dict(_COUNTS),
                        "outside_guard_blank_in_sequence": _outside_guard()}


# ----------------------------------------------------------------------------- generators
AA = "ACDEFGHIKLMNPQRSTVWY"
PREFIXES = ["decoy_", "rev_", "", "DECOY-", "XXX|", "d.e_c"]
CLASS_ENZ = ["[KR]", "K", "[KRH]", "[DE]", "[FWYL]", "[KRkr]", "[kr]", "[KRX]"]
REGEX_ENZ = ["[KR](?!P)", "(?<=[KR])", "(?<=K)(?!P)", "[KR](?=[^P])", "(?<=[FWYL])(?!P)", "(?<![DE])[KR]", "K*",
             "K|R", "([KR])", "[KR][^P]", "(?i)[kr]", "[KR](?!P)|[FWY]", "$", "^M", "KK?", "(?<=[KR])[^P]"]
SEQ_STYLES = ["std", "std", "std", "std", "lower", "mixed", "ambig", "gap", "stop"]


def _rand_seq(rng, n, density, style="std"):
    cut = "KR"
    other = "ACDEFGHILMNPQSTVWY" + ("XBZUOJ" if style == "ambig" else "")
    s = [rng.choice(cut) if rng.random() < density else rng.choice(other) for _ in range(n)]
    if style == "lower":
        s = [x.lower() for x in s]
    elif style == "mixed":
        s = [x.lower() if rng.random() < 0.5 else x for x in s]
    elif style in ("gap", "stop"):
        ch = "-" if style == "gap" else "*"
        s = [ch if rng.random() < 0.06 else x for x in s]
    return "".join(s)


def _rand_base_name(rng):
    body = "".join(rng.choice("abcXYZ0189|_.:-") for _ in range(rng.randint(1, 8)))
    return rng.choice(["sp|", "", "", "tr|", "P"]) + body


def _rand_name(rng, prefix="", earlier=()):
    """-> (name, tag or None).  Names that meet again (same name twice, with or without the same sequence), names that
    already carry the decoy prefix, names equal to the decoy name of an earlier target, names longer than a line,
    names with a tab / '>' / non-ASCII letter inside"""
    u = rng.random()
    base = _rand_base_name(rng)
    if earlier and u < 0.10:
        return rng.choice(earlier), "dup-name"
    if prefix and u < 0.18:
        return prefix + base, "name-has-prefix"
    if earlier and u < 0.22:
        return prefix + rng.choice(earlier), "name-is-a-decoy-name"
    if u < 0.27:
        return base + "|" + "".join(rng.choice("abcXYZ0189|_.:-") for _ in range(rng.randint(65, 110))), "long-name"
    if u < 0.30:
        return base + "\tOS=x", "tab-in-name"
    if u < 0.33:
        return base + ">" + rng.choice(["", "x"]), "gt-in-name"
    if UTF8 and u < 0.36:
        return base + rng.choice("\xe9\u03b2"), "non-ascii-name"
    return base, None


def _apply_omit(rng, how, prefix, enz, regex, rev, conc):
    """a call that leaves arguments out must meet the documented defaults often enough"""
    if how.get("call") != "omit":
        return prefix, enz, regex, rev, conc
    if rng.random() < 0.6:
        prefix = DEFAULTS["decoy_prefix"]
    if rng.random() < 0.6:
        enz, regex = DEFAULTS["enzyme"], False
    if rng.random() < 0.6:
        rev = DEFAULTS["reverse"]
    if rng.random() < 0.6:
        conc = DEFAULTS["concatenate"]
    return prefix, enz, regex, rev, conc


def gen(ctx):
    cases = []
    hrng = ctx.sub("how-exhaustive")
    # (1) exhaustive small scope -------------------------------------------------------------
    maxlen = 8 if ctx.thorough else 7
    k = 0
    for n in range(0, maxlen + 1):
        for tup in itertools.product("KAC", repeat=n):
            seq = "".join(tup)
            for rev in (False, True):
                k += 1
                st = [[{"name": "p", "desc": "", "seq": seq, "width": 60, "final": bool(k % 2)}]]
                how = _rand_how(hrng, 1) if k % 2 else None       # every other case: the plain call of the old harness
                enz = "[K]" if k % 3 else "K"
                conc = bool(k % 5)
                if how and how["call"] == "omit" and not conc:
                    how["call"] = "kw"      # the small scope keeps its parameters; defaults are met in the random stream
                cases.append(_mk(st, "decoy_", enz, rev, conc, {"mode": "numpy", "seed": k},
                                 ["exhaustive", "reverse" if rev else "shuffle"], single=bool(k % 2), how=how))
    if ctx.thorough:
        # two-residue class, alphabet {K,R,A,C}, up to length 6; and length 9 over {K,A,C}, shuffle only
        for n in range(0, 7):
            for tup in itertools.product("KRAC", repeat=n):
                k += 1
                st = [[{"name": "p", "desc": "", "seq": "".join(tup), "width": 60, "final": bool(k % 2)}]]
                how = _rand_how(hrng, 1) if k % 2 else None
                cases.append(_mk(st, "decoy_", "[KR]", bool(k % 2), bool(k % 3), {"mode": "numpy", "seed": k},
                                 ["exhaustive", "exhaustive-KRAC", "reverse" if k % 2 else "shuffle"], how=how))
        for tup in itertools.product("KAC", repeat=9):
            k += 1
            st = [[{"name": "p", "desc": "", "seq": "".join(tup), "width": 60}]]
            cases.append(_mk(st, "decoy_", "K", False, True, {"mode": "script", "seed": k},
                             ["exhaustive", "exhaustive-len9", "shuffle"]))
    # every permutation as oracle value, on distinct residues; two peptides of the same interior length
    # (the second must reuse the cached permutation) and one of another length
    maxk = 6 if ctx.thorough else 4
    letters = "ACDEFGHIL"
    for kk in range(2, maxk + 1):
        for p in itertools.permutations(range(kk)):
            seq = "L" + letters[:kk] + "K" + "M" + letters[:kk][::-1] + "K" + "NSTVWK"
            st = [[{"name": "q1", "desc": "x y", "seq": seq, "width": 7}], [{"name": "q2", "seq": "W" + letters[1:kk + 1] + "R"}]]
            cases.append(_mk(st, "d_", "[KR]", False, True, {"mode": "script", "seed": 1, "perms": {str(kk): list(p)}},
                             ["exhaustive-perm", f"k={kk}"], how=_rand_how(hrng, 2)))
    # retry loop boundaries: identity returned `ident` times first
    for ident in (0, 1, 2, 99, 100, 101, 150):
        st = [[{"name": "r", "seq": "AXYZK" + "GHIK" + "CDEFGK"}]]
        cases.append(_mk(st, "decoy_", "K", False, True, {"mode": "script", "seed": 7, "ident": ident},
                         ["retry", f"ident={ident}"]))
    # (1b) every way of calling, crossed with every state of out_file, on one two-file input with a repeated record,
    # a target that already carries the prefix and file names that are not in sorted order
    base_st = [[{"name": "sp|B", "desc": "second file name sorts first", "seq": "MACDEFGHIKLMNPQRSTVWYKAACDEKR", "width": 11},
                {"name": "d_sp|A", "seq": "GHILMKNPQSTR"}],
               [{"name": "sp|A", "seq": "WYVTSRQPNMLKIHGFEDCA" * 4, "width": 70},
                {"name": "sp|B", "desc": "", "seq": "MACDEFGHIKLMNPQRSTVWYKAACDEKR", "width": 60, "final": False}]]
    one_st = [base_st[0]]
    j = 0
    for arg in sorted(set(ARG_ONE + ARG_MANY)):
        for pre in ("absent", "longer", "shorter", "in-place"):
            for call in CALL_STYLES:
                j += 1
                many = arg in ARG_MANY and (arg not in ARG_ONE or j % 2)
                st = base_st if many else one_st
                how = {"paths": ["z/t.fasta", "a.fasta"][:len(st)], "arg": arg, "out": OUT_KINDS[j % 2],
                       "out_name": "o.fasta", "pre": pre, "inplace_idx": j % len(st), "call": call,
                       "flags": FLAG_KINDS[1 + j % 3], "rel": j % 7 == 0}
                rev, conc = bool(j % 2), bool((j // 2) % 2)
                prefix, enz = ("decoy_", "[KR]") if call == "omit" else ("d_", "[KR]")
                cases.append(_mk(st, prefix, enz, rev, conc, {"mode": "numpy", "seed": j},
                                 ["call-matrix", "reverse" if rev else "shuffle"], how=how))
    # the documented defaults, one argument left out at a time
    for j in range(16):
        rev, conc, dpre, denz = bool(j & 1), bool(j & 2), bool(j & 4), bool(j & 8)
        how = {"paths": ["t.fasta"], "arg": "str", "out": "str", "out_name": "o.fasta", "pre": "absent", "call": "omit",
               "flags": "bool"}
        cases.append(_mk(one_st, "decoy_" if dpre else "x_", "[KR]" if denz else "K", rev, conc, {"mode": "numpy", "seed": j},
                         ["defaults"], how=how))
    # the same list of files twice / no file at all
    for arg in ("list", "tuple"):
        cases.append({"fn": "make_decoys", "files": [], "prefix": "decoy_", "enzyme": "[KR]", "compiled": False,
                      "reverse": False, "concatenate": True, "perm": {"mode": "script", "seed": 0}, "single": False,
                      "how": {"arg": arg, "out": "str", "pre": "absent", "call": "kw", "flags": "bool"},
                      "tags": ["malformed", "no-files"]})
    # (2) random structured -----------------------------------------------------------------------
    rng = ctx.sub("structured")
    special = [0, 0, 1, 2, 3, 4, 5, 6, 69, 70, 71, 139, 140, 141, 210]
    nrand = 8000 if ctx.thorough else 600
    for j in range(nrand):
        nfiles = rng.choice([1, 1, 1, 2, 3])
        how = _rand_how(rng, nfiles)
        regex = rng.random() < 0.35
        enz = rng.choice(REGEX_ENZ) if regex else rng.choice(CLASS_ENZ)
        rev = rng.random() < 0.4
        conc = rng.random() < 0.6
        prefix = rng.choice(PREFIXES)
        prefix, enz, regex, rev, conc = _apply_omit(rng, how, prefix, enz, regex, rev, conc)
        st = []
        tags = []
        density = rng.choice([0.0, 0.0, 0.03, 0.1, 0.2, 0.5, 1.0])
        style = rng.choice(SEQ_STYLES)
        earlier = []
        for _ in range(nfiles):
            recs = []
            nl = rng.choice(["\n", "\n", "\n", "\r\n", "\r"])
            for _ in range(rng.randint(1, 6)):
                if ctx.thorough and rng.random() < 0.01:
                    n = rng.choice([700, 1400, 3500])
                else:
                    n = rng.choice(special) if rng.random() < 0.6 else rng.randint(0, 320)
                name, ntag = _rand_name(rng, prefix, earlier)
                seq = _rand_seq(rng, n, density, style) + rng.choice(["", "", "", "*"])
                if ntag == "dup-name" and rng.random() < 0.5:
                    seq = next(r["seq"] for f in st + [recs] for r in f if r["name"] == name)
                    ntag = "dup-record"
                if ntag:
                    tags.append(ntag)
                earlier.append(name)
                recs.append({"name": name, "desc": rng.choice(["", "", "desc", "a b  c", "OS=Homo sapiens", ">x", "\tt"]),
                             "seq": seq, "width": rng.choice([60, 60, 70, 80, 7, 1, 1000]), "nl": nl,
                             "blank": rng.random() < 0.15})
            recs[-1]["final"] = rng.random() < 0.7
            st.append(recs)
        if rng.random() < 0.08:
            st[0][0]["name"] = ""                       # ">" followed by nothing: empty name
        if nfiles > 1 and rng.random() < 0.12:
            st[-1] = [dict(r) for r in st[0]]            # the same file given twice
            how["paths"][-1] = how["paths"][0]
        reflags = "i" if (style in ("lower", "mixed") and rng.random() < 0.4) else ""
        u = rng.random()
        perm = {"mode": "numpy", "seed": rng.randrange(2 ** 32), "burn": rng.choice([0, 0, 1, 17, 1000])} if u < 0.6 else \
            {"mode": "script", "seed": rng.randrange(10 ** 6), "ident": rng.choice([0, 0, 1, 3])}
        tags = ["structured", "regex-enzyme" if (regex or reflags) else "class-enzyme", "reverse" if rev else "shuffle",
                f"files={nfiles}", perm["mode"], "seq-style=" + style] + sorted(set(tags))
        if reflags:
            tags.append("compiled-with-IGNORECASE")
        lens = {len(r["seq"]) for f in st for r in f}
        tags += [f"len={x}" for x in sorted(lens & {0, 69, 70, 71, 140})]
        if max(lens) >= 700:
            tags.append("len>=700")
        if density == 0.0:
            tags.append("no-site")
        tags.append("concatenate" if conc else "decoys-only")
        cases.append(_mk(st, prefix, enz, rev, conc, perm, tags, compiled=rng.random() < 0.3, how=how, reflags=reflags))
    # (3) malformed stream -----------------------------------------------------------------------
    rng = ctx.sub("malformed")
    toks = [">", ">", "\n", "\n", "\n", "\r", "\r\n", " ", " ", "\t", "K", "A", "AK", "name", "p1 d", "-", "*",
            "\x0b", "\x0c", "\x1c", "\x1e", "ACDEFGHIKL" * 8, "GGGGKGGGG", "\n>", "\n>", "A-C-D" * 5, ">>", ";c"]
    if UTF8:
        toks += ["\x85", "\u2028", "\u2029", "\xe9", "\ufeff"]
    nmal = 10000 if ctx.thorough else 500
    for j in range(nmal):
        files = []
        for _ in range(rng.choice([1, 1, 2, 3])):
            n = rng.choice([0, 1, 2, 3, 5, 8, 12, 20])
            txt = "".join(rng.choice(toks) for _ in range(n))
            if rng.random() < 0.6:
                txt = ">" + txt
            files.append(txt)
        c = {"fn": "make_decoys", "files": files, "prefix": rng.choice(PREFIXES + ["de coy", ">"]),
             "enzyme": rng.choice(CLASS_ENZ), "compiled": False, "reverse": rng.random() < 0.5,
             "concatenate": rng.random() < 0.7, "perm": {"mode": "script", "seed": j}, "single": rng.random() < 0.5,
             "tags": ["malformed"]}
        if rng.random() < 0.5:
            c["how"] = _rand_how(rng, len(files))
            c["tags"] += _how_tags(c["how"])
        cases.append(c)
        cases.append({"fn": "parse", "files": files, "tags": ["malformed", "parser-only"]})
    # (3b) sequences with blanks (outside the hypotheses of the round-trip theorem): trailing spaces on sequence
    # lines, blocks of ten residues separated by spaces.  Model and code must still agree (textwrap is recorded);
    # what happens to the property is reported in the evidence (extra_checks), not as a failure.
    rng = ctx.sub("blank")
    for j in range(400 if ctx.thorough else 60):
        recs = []
        for _ in range(rng.randint(1, 3)):
            n = rng.choice([5, 20, 69, 70, 71, 100, 150])
            seq = _rand_seq(rng, n, 0.1)
            style = rng.choice(["trail", "blocks", "tab"])
            if style == "blocks":
                seq = " ".join(seq[i:i + 10] for i in range(0, len(seq), 10))
                recs.append({"name": _rand_base_name(rng), "seq": seq, "width": 66})
            else:
                w = rng.choice([30, 60])
                pad = " " if style == "trail" else "\t"
                seq = "".join(seq[i:i + w] + pad for i in range(0, len(seq), w))
                recs.append({"name": _rand_base_name(rng), "seq": seq, "width": w + 1})
        cases.append(_mk([recs], "decoy_", "[KR]", rng.random() < 0.5, True, {"mode": "script", "seed": j},
                         ["blank-in-sequence"]))
    # (4) textwrap vs the model's 70-column chunking ---------------------------------------------
    rng = ctx.sub("wrap")
    for n in list(range(0, 6)) + [69, 70, 71, 139, 140, 141, 209, 210, 211, 700] + [rng.randint(0, 400) for _ in range(40)]:
        cases.append({"fn": "wrap70", "seq": "".join(rng.choice(AA + "*X") for _ in range(n)), "tags": ["oracle-wrap70"]})
    return cases
