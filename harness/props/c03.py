"""C03 — competition and rollup: real mokapot.assign_confidence result files against Model/Confidence.v."""
import os
import shutil
import tempfile
from fractions import Fraction
from pathlib import Path

from .. import lib, brewlib
from ..lib import Toks, call_impl
from .c01 import q_spec

PROP = "C03"
RULE = ("generated PSM tables (5-200 rows, spectra with 1-5 PSMs, peptides shared between spectra, optional "
        "ModifiedPeptide / Precursor / PeptideGroup columns, 1-3 collections with or without prefixes, text or Parquet) "
        "with a given score vector through the real read_pin + assign_confidence; deduplication on/off, rollup on/off, "
        "decoy output on/off, confidence / merge-sort chunk sizes 1..n+1; result files parsed and compared row by row "
        "(PSM id, q-value, order, target/decoy file) with the extracted model. Default stream: pairwise distinct scores; "
        "tie stream: only (entity, score) sets are compared. distinct = distinct case; non-trivial = some spectrum has "
        ">= 2 PSMs and some peptide is shared by >= 2 spectra")
ASSUMPTIONS = [
    "PEP estimation is replaced by a constant during these runs (oracle of C06); q-values are the TDC q-values",
    "pandas sort_values and the glob order of chunk files only matter among tied scores (excluded from the default stream)",
    "spectrum / level keys enter the model as integer ids of the distinct value tuples",
]
TRUSTED_EXTRA = ["pandas / pyarrow readers and writers of the intermediate and result files (oracle)"]

LEVEL_COLS = ["ModifiedPeptide", "Precursor", "PeptideGroup"]


def eff_scores(c):
    """the scores by which rows are ranked (higher = better): negated when descs is False"""
    if c.get("descs", True):
        return c["scores"]
    return [[-v for v in s] for s in c["scores"]]


def gen(ctx):
    cases = []
    rng = ctx.sub("conf")
    n_cases = 400 if ctx.thorough else 90
    for k in range(n_cases):
        ncoll = rng.choice([1, 1, 1, 2, 3])
        nkey = rng.choice([1, 2, 2, 4])
        levels = [l for l in LEVEL_COLS if rng.random() < 0.3]
        ties = rng.random() < 0.15
        files, scores = [], []
        for j in range(ncoll):
            n = rng.randint(5, 200 if ctx.thorough else 80) if k % 5 else rng.randint(2, 9)
            f = brewlib.gen_file(rng, n, nkey, file_idx=j, mult=(1, rng.choice([1, 3, 5])), levels=levels,
                                 npep=rng.choice([2, max(2, n // 4), n]), label_enc=rng.choice(["pm1", "01", "bool"]))
            files.append(f)
            if ties:
                scores.append([float(rng.randint(0, max(2, n // 3))) for _ in range(n)])
            else:
                scores.append([float(v) for v in rng.sample(range(-n, 3 * n), n)])
        nmax = max(len(f["targets"]) for f in files)
        chunks = {}
        if rng.random() < 0.75:
            chunks["confidence"] = max(1, rng.choice([1, 2, 3, 7, nmax - 1, nmax, nmax + 1]))
        if rng.random() < 0.4:
            chunks["mergesort"] = max(1, rng.choice([1, 2, 5, nmax + 1]))
        dedup = rng.random() < 0.6
        rollup = rng.random() < 0.75
        cases.append({"fn": "conf", "files": files, "scores": scores, "dedup": dedup, "rollup": rollup,
                      "decoys": rng.random() < 0.6, "prefixes": rng.random() < 0.5 or ncoll == 1 and rng.random() < 0.3,
                      "chunks": chunks, "fmt": rng.choice(["tsv", "tsv", "parquet"]), "workers": rng.choice([1, 1, 3]),
                      "levels": levels, "ties": ties,
                      "tags": ["conf", f"coll={ncoll}", "dedup" if dedup else "nodedup", "rollup" if rollup else "norollup",
                               "ties" if ties else "distinct", "levels=%d" % len(levels),
                               "chunk=" + str(chunks.get("confidence", "default"))]})
    return cases


# ----------------------------------------------------------------------------- implementation
def _const_peps(scores, targets, *a, **k):
    import numpy as np
    return np.zeros(len(scores))


def _run_impl(c):
    import numpy as np
    import mokapot
    import mokapot.confidence as conf
    d = tempfile.mkdtemp(prefix="c03_", dir=os.environ.get("VERIF_TMP", "/tmp"))
    old = conf.peps_from_scores
    conf.peps_from_scores = _const_peps
    try:
        paths = [brewlib.write_file(f, d, "coll%d" % i, c["fmt"]) for i, f in enumerate(c["files"])]
        out = Path(d) / "out"
        out.mkdir()
        with brewlib.Chunking(**c.get("chunks", {})):
            dss = mokapot.read_pin(paths, max_workers=1)
            prefixes = ["coll%d" % i for i in range(len(paths))] if c["prefixes"] else [None] * len(paths)
            mokapot.assign_confidence(
                dss, max_workers=c.get("workers", 1), scores=[np.array(s, dtype=float) for s in c["scores"]],
                descs=[bool(c.get("descs", True))] * len(paths),
                eval_fdr=0.5, dest_dir=out, prefixes=prefixes, decoys=c["decoys"],
                deduplication=c["dedup"], do_rollup=c["rollup"])
        res = {"files": {}, "leftovers": []}
        for fn in sorted(os.listdir(out)):
            parts = fn.split(".")
            if "targets" in parts or "decoys" in parts:
                res["files"][fn] = _parse(out / fn, c)
            else:
                res["leftovers"].append(fn)
        return res
    finally:
        conf.peps_from_scores = old
        shutil.rmtree(d, ignore_errors=True)


def _parse(path, c):
    import pandas as pd
    if path.suffix == ".parquet":
        df = pd.read_parquet(path)
    else:
        df = pd.read_csv(path, sep="\t", float_precision="round_trip")
    rows = []
    for _, r in df.iterrows():
        rows.append({"id": str(r["PSMId"]), "peptide": str(r["peptide"]), "proteins": str(r["proteinIds"]),
                     "score": float(r["score"]), "q": Fraction(float(r["q-value"])),
                     "extra": {lv: str(r[lv]) for lv in c["levels"] if lv in df.columns}})
    return rows


# ----------------------------------------------------------------------------- model
def _level_names(c):
    names = ["psms"]
    if c["rollup"]:
        names += ["peptides"] + [lv.lower() + "s" for lv in c["levels"]]
    return names


def _rows_for_model(f, scores, c):
    cols = [x for x in ("filename", "ScanNr", "ret_time", "ExpMass") if x in f["data"]]
    n = len(f["targets"])
    spec_ids, keymaps = {}, [{} for _ in range(1 + len(c["levels"]))]
    out = []
    from ..props.c01 import exact_ints
    sc = exact_ints(scores)
    for r in range(n):
        sk = tuple(f["data"][x][r] for x in cols)
        sp = spec_ids.setdefault(sk, len(spec_ids) + 1)
        ks = []
        for li, col in enumerate(["Peptide"] + c["levels"]):
            v = f["data"][col][r]
            ks.append(keymaps[li].setdefault(v, len(keymaps[li]) + 1))
        out.append("%s %s %s %s %s" % (lib.z(r), lib.z(sp), lib.lst(ks), lib.b(f["targets"][r]), lib.z(sc[r])))
    return "%d %s" % (n, " ".join(out))


def _model(c):
    nl = len(_level_names(c))
    lines = []
    for j, f in enumerate(c["files"]):
        cs = c.get("chunks", {}).get("confidence", 1000000)
        lines.append("c03.confidence %s %s %s %s" % (lib.z(cs), lib.b(c["dedup"]), lib.z(nl), _rows_for_model(f, eff_scores(c)[j], c)))
    per_coll = []
    for line in lib.run_driver(lines):
        t = Toks(line)
        lv = t.lst(lambda: (t.lst(lambda: (t.z(), t.q())), t.lst(lambda: (t.z(), t.q()))))
        per_coll.append(lv)
    files = {}
    names = _level_names(c)
    for j, lv in enumerate(per_coll):
        pre = ("coll%d." % j) if c["prefixes"] else ""
        for li, (tg, dc) in enumerate(lv):
            for kind, rows in (("targets", tg), ("decoys", dc)):
                if kind == "decoys" and not c["decoys"]:
                    continue
                fn = "%s%s.%s" % (pre, kind, names[li])
                files.setdefault(fn, []).extend(("f%d_psm%d" % (j, r), Fraction(float(q))) for r, q in rows)
    return files


def run_case(c):
    got = call_impl(_run_impl, c)
    model = ("ok", {k: [(i, q) for i, q in v] for k, v in _model(c).items()})
    if got[0] == "err":
        return model, got
    impl_files = got[1]["files"]
    if c["ties"]:
        # any tied winner is accepted: a tied target/decoy pair may swap files, so compare the union
        # of the target and decoy file of a level (only possible when decoys are written)
        def merge(d, ent, sc):
            out = {}
            for k, v in d.items():
                lvl = k.replace("targets.", "").replace("decoys.", "")
                out.setdefault(lvl, []).extend((ent(k, x), sc(x)) for x in v)
            # a different tied winner at PSM level legitimately changes the higher levels: compare PSM level only
            return {k: (sorted(v) if (c["decoys"] and k.endswith("psms")) else True) for k, v in out.items()}
        canon_i = merge(impl_files, lambda k, r: _entity(c, k, r["id"]), lambda r: r["score"])
        canon_m = merge(model[1], lambda k, x: _entity(c, k, x[0]), lambda x: _score(c, x[0]))
        return ("ok", {"tie-canonical": canon_m}), ("ok", {"tie-canonical": canon_i, "raw": got[1]})
    canon = {k: [(r["id"], r["q"]) for r in v] for k, v in impl_files.items()}
    return model, ("ok", {"files": canon, "raw": got[1]})


def _locate(pid):
    j, r = pid[1:].split("_psm")
    return int(j), int(r)


def _score(c, pid):
    j, r = _locate(pid)
    return float(eff_scores(c)[j][r])


def _entity(c, fn, pid):
    """the key of the row at the level of file fn"""
    j, r = _locate(pid)
    f = c["files"][j]
    level = fn.split(".")[-1]
    if level == "psms":
        cols = [x for x in ("filename", "ScanNr", "ret_time", "ExpMass") if x in f["data"]]
        return str((j,) + tuple(f["data"][x][r] for x in cols)) if c["dedup"] else pid
    names = {"peptides": "Peptide"}
    names.update({lv.lower() + "s": lv for lv in c["levels"]})
    return str((j, f["data"][names[level]][r]))


def same(c, m, i):
    if m[0] != i[0]:
        return False
    if i[0] == "err":
        return False
    if c["ties"]:
        return m[1]["tie-canonical"] == i[1]["tie-canonical"]
    a = {k: [(x, y) for x, y in v] for k, v in m[1].items()}
    b = {k: [(x, y) for x, y in v] for k, v in i[1]["files"].items()}
    return lib.jsonable(a) == lib.jsonable(b) and not i[1]["raw"]["leftovers"]


def nontrivial(c):
    for f in c["files"]:
        cols = [x for x in ("filename", "ScanNr", "ret_time", "ExpMass") if x in f["data"]]
        n = len(f["targets"])
        specs = [tuple(f["data"][x][r] for x in cols) for r in range(n)]
        if len(set(specs)) < n:
            pep_specs = {}
            for r in range(n):
                pep_specs.setdefault(f["data"]["Peptide"][r], set()).add(specs[r])
            if any(len(v) > 1 for v in pep_specs.values()):
                return True
    return False


# ----------------------------------------------------------------------------- the property itself
def oracle(c, i):
    if i[0] != "ok":
        return f"assign_confidence failed: {i[1]}"
    raw = i[1]["raw"]
    files = raw["files"]
    names = _level_names(c)
    ncoll = len(c["files"])
    if raw["leftovers"]:
        return f"intermediate files remain: {raw['leftovers']}"
    for j in range(ncoll) if c["prefixes"] else [None]:
        pre = ("coll%d." % j) if j is not None else ""
        colls = [j] if j is not None else list(range(ncoll))
        retained = None
        for li, level in enumerate(names):
            tg = files.get("%stargets.%s" % (pre, level))
            if tg is None:
                return f"missing result file {pre}targets.{level}"
            dc = files.get("%sdecoys.%s" % (pre, level), []) if c["decoys"] else None
            # split by collection (un-prefixed outputs are appended collection after collection)
            for jj in colls:
                f = c["files"][jj]
                t_rows = [r for r in tg if _locate(r["id"])[0] == jj]
                d_rows = [r for r in dc if _locate(r["id"])[0] == jj] if dc is not None else None
                for r in t_rows + (d_rows or []):
                    _, ri = _locate(r["id"])
                    if r["peptide"] != f["data"]["Peptide"][ri] or r["proteins"] != f["data"]["Proteins"][ri] \
                            or r["score"] not in (float(eff_scores(c)[jj][ri]), float(c["scores"][jj][ri])):
                        return f"row {r['id']} of {level} does not carry the peptide/proteins/score of one input PSM"
                if any(not f["targets"][_locate(r["id"])[1]] for r in t_rows):
                    return f"decoy in targets.{level}"
                if d_rows is not None and any(f["targets"][_locate(r["id"])[1]] for r in d_rows):
                    return f"target in decoys.{level}"
                for rows in (t_rows, d_rows or []):
                    sc = [eff_scores(c)[jj][_locate(r["id"])[1]] for r in rows]
                    if any(a < b for a, b in zip(sc, sc[1:])):
                        return f"{level}: rows are not ranked best first" + ("" if c.get("descs", True) else " (lower is better: low values must come first)")
                if d_rows is None:
                    continue          # cannot reconstruct the retained set without the decoy file
                ids = [_locate(r["id"])[1] for r in t_rows + d_rows]
                if len(set(ids)) != len(ids):
                    return f"{level}: a PSM appears twice"
                # expected retained set
                key_fn = "%stargets.%s" % (pre, level)
                if level == "psms":
                    universe = list(range(len(f["targets"])))
                else:
                    universe = retained[jj]
                groups = {}
                for ri in universe:
                    groups.setdefault(_entity(c, key_fn, "f%d_psm%d" % (jj, ri)), []).append(ri)
                if len(ids) != len(groups):
                    return f"{level}: {len(ids)} rows but {len(groups)} distinct entities among the retained PSMs"
                for ri in ids:
                    g = groups.get(_entity(c, key_fn, "f%d_psm%d" % (jj, ri)))
                    if g is None or ri not in g:
                        return f"{level}: row f{jj}_psm{ri} is not among the retained PSMs"
                    if eff_scores(c)[jj][ri] != max(eff_scores(c)[jj][x] for x in g):
                        return f"{level}: row f{jj}_psm{ri} is not a highest-scoring PSM of its entity"
                if level == "psms":
                    retained = retained or {}
                    retained[jj] = ids
                # q-values = C01 formula on exactly these rows
                from .c01 import exact_ints
                allr = sorted(t_rows + d_rows, key=lambda r: -eff_scores(c)[jj][_locate(r["id"])[1]])
                spec = q_spec(exact_ints([eff_scores(c)[jj][_locate(r["id"])[1]] for r in allr]), [f["targets"][_locate(r["id"])[1]] for r in allr], True)
                for r, q in zip(allr, spec):
                    if Fraction(float(q)) != r["q"]:
                        return f"{level}: q-value of {r['id']} is {float(r['q'])}, C01 formula on the retained rows gives {float(q)}"
    return None


def finding_key(c, m, i):
    return None
