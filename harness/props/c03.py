"""C03 — competition and rollup: real mokapot.assign_confidence result files against Model/Confidence.v, and the
files written by the stand-alone tool mokapot.brew_rollup.main against Model/Rollup.v."""
import os
import shutil
import tempfile
from fractions import Fraction
from pathlib import Path

from .. import lib, brewlib
from ..lib import Toks, call_impl
from .c01 import q_spec

PROP = "C03"
RULE = ("generated PSM tables (5-200 rows, spectra with 1-5 PSMs, peptides shared between spectra, optional "
        "ModifiedPeptide / Precursor / PeptideGroup columns, 1-3 collections with or without prefixes, text or Parquet) "
        "with a given score vector through the real read_pin + assign_confidence; deduplication on/off, rollup on/off, "
        "decoy output on/off, confidence / merge-sort chunk sizes 1..n+1; result files parsed and compared row by row "
        "(PSM id, q-value, order, target/decoy file) with the extracted model. Default stream: pairwise distinct scores; "
        "tie stream: only (entity, score) sets are compared. distinct = distinct case; non-trivial = some spectrum has "
        ">= 2 PSMs and some peptide is shared by >= 2 spectra. "
        "White-box stream (tag wb; same pipeline): tables of 1-4 / 5-40 / 41-300 rows; all-target, all-decoy and "
        "best-row-is-a-decoy tables; scan numbers beyond 2^54; score vectors of multiples of 1/256 with up to 30 significant "
        "bits (not float32 values, neighbours 1/256 apart), full-mantissa doubles of magnitude 1e-6..1e6, exact ties between "
        "rows of different groups only (xties: every file is compared as the set of its (PSM id, q-value) rows), ties inside "
        "groups, integers; the vector handed over as float64 / int64 / float32 / strided / negative-stride / read-only array; "
        "input columns in random order, required and optional column names in other letter cases, feature columns named "
        "score / PSMId / q-value / proteinIds; Parquet inputs with row groups of 1..n-1 rows, int8 / int32 / float64 labels, "
        "int32 scan numbers, dictionary-encoded (categorical) string columns; text inputs that print whole-number masses and "
        "retention times without '.0'; prefixes all / none / MIXED / containing dots; non-empty file_root; destination "
        "directories holding chunk files, level files and result files of an earlier run; an earlier call with other scores "
        "into the same directory; differing state of numpy's global generator; 1-3 workers. "
        "In EVERY assign_confidence case the verdict also requires the property oracle to hold on the files written: each row "
        "carries the peptide, proteins, level values and score of the input PSM named by its id, rows of a collection only in "
        "its own files, ranked best first, one row per entity and a best one, q-values = C01 formula on the retained rows "
        "(this is the only check of the cell contents, which the model does not have, and of the levels above the PSMs / the "
        "q-values in the tie stream). "
        "Rollup tool: generated source directories (1-4 collections of <name>.targets.<base>s / <name>.decoys.<base>s, base "
        "level psm / precursor / peptide / modifiedpeptide / peptidegroup, text or Parquet, level columns present or absent "
        "under their standard or alias names, a decoys or targets file missing, a stale result file of an earlier run, a "
        "collection whose name starts like the output root) written directly in the result-file layout, or produced by the "
        "real assign_confidence (prefixes a, b, c; do_rollup=True); brew_rollup.main is run on them and every "
        "<root>.targets.<level>s / <root>.decoys.<level>s is compared row by row (PSM id, order, q-value, file) with the "
        "extracted model; tie stream: (entity, score) sets per level; malformed stream: unsorted file, empty file, no file, "
        "both formats, differing schemas, no score column (error kinds compared). White-box dimensions of the tool cases: "
        "columns in random order, integer-valued level ids (0 included, equal numbers at different levels), scores k/2, k/256 "
        "with 30 significant bits, full-mantissa doubles (Parquet only), destination = source directory (the tool's default), "
        "the tool run twice, one source of 1100-1500 rows in both tiers (longer than the 1000-row write buffers) and one of "
        "24000 rows in the thorough tier (longer than the 10000-row reader chunks; too long for the extracted model: "
        "decided by the property oracle alone); the verdict also requires the "
        "property oracle (every cell of an output row equals the input row's cell, one best row per entity over all files, "
        "q-values). compute_rollup_levels is compared with "
        "the model on every base level with the default table and random tables. non-trivial (rollup) = some entity has rows "
        "in two different files")
ASSUMPTIONS = [
    "PEP estimation is replaced by a constant during these runs (oracle of C06); q-values are the TDC q-values",
    "pandas sort_values and the glob order of chunk files only matter among tied scores (streams with ties compare sets)",
    "spectrum / level keys enter the model as integer ids of the distinct value tuples (Python equality: 500 == 500.0)",
    "rollup tool: the schema (column names and dtypes) each reader reports for a source file is recorded with pandas / pyarrow "
    "and enters the model as an id (equal ids = equal schemas); Path.glob + sorted = the file names in string order",
    "known findings (known_findings.json; each input class is decided from the case alone, the rest of such a case is still "
    "compared): text input + full-mantissa scores -> result scores differ from the 13th digit on (everything else must agree); "
    "Parquet input with a dictionary column and row groups not aligned with the chunk size -> ValueError; text input printing "
    "whole numbers without '.0' with a spectrum split over an all-integer and a mixed chunk -> two rows for the spectrum",
    "not varied: per-collection descs (C07), proteins / sqlite output / qvalue_algorithm other than tdc, NaN / infinite scores, "
    "strings that pandas reads as missing values (NA, null ...) or as numbers, PSM ids repeated between collections, "
    "PYTHONHASHSEED (fixed by ./check), files beyond the default chunk sizes (the constants are lowered instead)",
]
TRUSTED_EXTRA = ["pandas / pyarrow readers and writers of the intermediate and result files (oracle)"]

LEVEL_COLS = ["ModifiedPeptide", "Precursor", "PeptideGroup"]


def eff_scores(c):
    """the scores by which rows are ranked (higher = better): negated when descs is False"""
    if c.get("descs", True):
        return c["scores"]
    return [[-v for v in s] for s in c["scores"]]


def gen(ctx):
    cases = []
    rng = ctx.sub("conf")
    n_cases = 400 if ctx.thorough else 90
    for k in range(n_cases):
        ncoll = rng.choice([1, 1, 1, 2, 3])
        nkey = rng.choice([1, 2, 2, 4])
        levels = [l for l in LEVEL_COLS if rng.random() < 0.3]
        ties = rng.random() < 0.15
        files, scores = [], []
        for j in range(ncoll):
            n = rng.randint(5, 200 if ctx.thorough else 80) if k % 5 else rng.randint(2, 9)
            f = brewlib.gen_file(rng, n, nkey, file_idx=j, mult=(1, rng.choice([1, 3, 5])), levels=levels,
                                 npep=rng.choice([2, max(2, n // 4), n]), label_enc=rng.choice(["pm1", "01", "bool"]))
            files.append(f)
            if ties:
                scores.append([float(rng.randint(0, max(2, n // 3))) for _ in range(n)])
            else:
                scores.append([float(v) for v in rng.sample(range(-n, 3 * n), n)])
        nmax = max(len(f["targets"]) for f in files)
        chunks = {}
        if rng.random() < 0.75:
            chunks["confidence"] = max(1, rng.choice([1, 2, 3, 7, nmax - 1, nmax, nmax + 1]))
        if rng.random() < 0.4:
            chunks["mergesort"] = max(1, rng.choice([1, 2, 5, nmax + 1]))
        dedup = rng.random() < 0.6
        rollup = rng.random() < 0.75
        cases.append({"fn": "conf", "files": files, "scores": scores, "dedup": dedup, "rollup": rollup,
                      "decoys": rng.random() < 0.6, "prefixes": rng.random() < 0.5 or ncoll == 1 and rng.random() < 0.3,
                      "chunks": chunks, "fmt": rng.choice(["tsv", "tsv", "parquet"]), "workers": rng.choice([1, 1, 3]),
                      "levels": levels, "ties": ties,
                      "tags": ["conf", f"coll={ncoll}", "dedup" if dedup else "nodedup", "rollup" if rollup else "norollup",
                               "ties" if ties else "distinct", "levels=%d" % len(levels),
                               "chunk=" + str(chunks.get("confidence", "default"))]})
    # white-box review stream (after the original stream: C07 re-uses the first cases of this list)
    cases.extend(gen_conf_wb(ctx))
    # the stand-alone rollup tool; appended AFTER the assign_confidence cases
    cases.extend(gen_rollup(ctx))
    return cases


# ----------------------------------------------------------------------------- white-box review stream
# Every dimension below is an OPTIONAL field of a "conf" case (absent = the behaviour of the original stream, so the cases
# that C05 / C07 build keep working): io (column order / names / dtypes / row groups / number formatting of the input file),
# score_mode + score_kind (value domain and container of the score vector), prefix_list, file_root, stale, prerun, npseed.
ALL_LEVELS = ["psms", "peptides"] + [lv.lower() + "s" for lv in LEVEL_COLS]
CASE_VARIANTS = {"SpecId": ["specid", "SPECID", "SpecID"], "Label": ["label", "LABEL"], "ScanNr": ["scannr", "SCANNR"],
                 "Peptide": ["peptide", "PEPTIDE"], "Proteins": ["proteins", "PROTEINS"],
                 "ModifiedPeptide": ["modifiedpeptide", "MODIFIEDPEPTIDE"], "Precursor": ["precursor", "PRECURSOR"],
                 "PeptideGroup": ["peptidegroup", "Peptidegroup"], "ExpMass": ["expmass", "EXPMASS"],
                 "filename": ["FileName", "FILENAME"], "ret_time": ["RET_TIME", "Ret_Time"],
                 # feature columns whose names collide with the names mokapot uses internally / in its result files
                 "feat0": ["score"], "feat1": ["PSMId"], "feat2": ["q-value"], "rid": ["proteinIds"]}
SCORE_MODES = ["dyadic"] * 6 + ["full"] * 4 + ["xties"] * 5 + ["ties"] * 3 + ["int"] * 2


def _spec_cols(f):
    return [x for x in ("filename", "ScanNr", "ret_time", "ExpMass") if x in f["data"]]


def _group_cols(f):
    """the columns (tuples of columns) whose value defines a group at some level"""
    return [tuple(_spec_cols(f)), ("Peptide",)] + [(lv,) for lv in LEVEL_COLS if lv in f["data"]]


def _wb_scores(rng, f, mode):
    n = len(f["targets"])
    if mode == "int":
        return [float(v) for v in rng.sample(range(-n, 3 * n), n)]
    if mode == "ties":
        return [rng.randint(0, max(2, n // 3)) / 4.0 for _ in range(n)]
    if mode == "full":
        # what a learner returns: doubles with a full mantissa, of any magnitude; pairwise distinct
        scale = rng.choice([1.0, 1.0, 1e-6, 1e6, 37.5])
        out = set()
        while len(out) < n:
            out.add((rng.random() * 4.0 - 1.0) * scale)
        out = list(out)
        rng.shuffle(out)
        return out
    # dyadic: m / 256 with up to 30 significant bits (not representable in float32, at most 15 significant decimal
    # digits: survives every text round trip exactly), many of them closer than 1e-2 to each other, 0.0 and negatives included
    base = rng.choice([0, 0, 1 << 20, -(1 << 22), (1 << 29) - 4 * n])
    ms = rng.sample(range(base - 2 * n, base + 2 * n + 1), n)
    sc = [m / 256.0 for m in ms]
    if mode == "xties":
        # exact ties, but never inside a group (spectrum, peptide, any level entity): the retained sets stay unique
        groups = _group_cols(f)
        member = [[tuple(f["data"][x][r] for x in g) for g in groups] for r in range(n)]
        used = [{} for _ in groups]
        for r in range(n):
            for gi, key in enumerate(member[r]):
                used[gi].setdefault(key, set()).add(sc[r])
        for _ in range(max(1, n // 2)):
            a, b = rng.randrange(n), rng.randrange(n)
            if a == b or sc[a] == sc[b]:
                continue
            if any(sc[a] in used[gi][key] for gi, key in enumerate(member[b])):
                continue
            for gi, key in enumerate(member[b]):
                used[gi][key].discard(sc[b])
                used[gi][key].add(sc[a])
            sc[b] = sc[a]
    return sc


def _wb_set_targets(f, tg, enc):
    f["targets"] = list(tg)
    if enc == "pm1":
        f["data"]["Label"] = [1 if t else -1 for t in tg]
    elif enc == "01":
        f["data"]["Label"] = [1 if t else 0 for t in tg]
    else:
        f["data"]["Label"] = [bool(t) for t in tg]


def gen_conf_wb(ctx):
    cases = []
    rng = ctx.sub("conf-whitebox")
    n_cases = 600 if ctx.thorough else 150
    for k in range(n_cases):
        ncoll = rng.choice([1, 1, 2, 3])
        nkey = rng.choice([1, 2, 2, 3, 4])
        levels = [l for l in LEVEL_COLS if rng.random() < 0.4]
        mode = SCORE_MODES[k % len(SCORE_MODES)] if k < 2 * len(SCORE_MODES) else rng.choice(SCORE_MODES)
        enc = rng.choice(["pm1", "01", "bool"])
        fmt = rng.choice(["tsv", "parquet"])
        mix = rng.choice(["mixed"] * 7 + ["all-targets", "all-decoys", "decoy-top"])
        size = rng.choice(["tiny", "small", "small", "medium"])
        force_gfmt = k % 55 == 3          # a few cases per tier are built to land in the known finding KEY_KEY_DTYPE
        if force_gfmt:
            fmt, nkey, size = "tsv", rng.choice([2, 4]), "small"
        files, scores = [], []
        for j in range(ncoll):
            n = {"tiny": rng.randint(1, 4), "small": rng.randint(5, 40),
                 "medium": rng.randint(41, 300 if ctx.thorough else 120)}[size]
            f = brewlib.gen_file(rng, n, nkey, file_idx=j, mult=(1, rng.choice([1, 3, 5])), levels=levels,
                                 npep=rng.choice([2, max(2, n // 4), n]), label_enc=enc)
            if mix == "all-targets":
                _wb_set_targets(f, [True] * n, enc)
            elif mix == "all-decoys":
                _wb_set_targets(f, [False] * n, enc)
            sc = _wb_scores(rng, f, mode)
            if mix == "decoy-top":
                tg = list(f["targets"])
                tg[max(range(n), key=lambda r: sc[r])] = False
                _wb_set_targets(f, tg, enc)
            if k % 9 == 4:
                # scan numbers beyond 2^31 (and beyond 2^53 when they are read as floats)
                f["data"]["ScanNr"] = [v + 2 ** 40 + 2 ** 54 * (k % 2) for v in f["data"]["ScanNr"]]
            files.append(f)
            scores.append(sc)
        nmax = max(len(f["targets"]) for f in files)
        chunks = {}
        if rng.random() < 0.75:
            # (one chunk file per row is quadratic in the merge: only for tables of up to 100 rows)
            chunks["confidence"] = max(1, rng.choice(([1, 2, 3] if nmax <= 100 else [11, 17, 40]) + [7, nmax // 2, nmax - 1, nmax, nmax + 1]))
        if rng.random() < 0.4:
            chunks["mergesort"] = max(1, rng.choice([1, 2, 5, nmax + 1]))
        # ---- the input file
        io = {}
        cols = list(files[0]["columns"])
        if rng.random() < 0.5:
            rng.shuffle(cols)
            io["order"] = cols
        if rng.random() < 0.45:
            io["rename"] = {c: rng.choice(v) for c, v in CASE_VARIANTS.items() if c in cols and rng.random() < 0.5}
        if fmt == "parquet":
            if rng.random() < 0.6:
                io["row_group"] = max(1, rng.choice([1, 3, 7, nmax // 2, nmax - 1]))
            if enc != "bool" and rng.random() < 0.4:
                io["label_dtype"] = rng.choice(["int8", "int32", "float64"])
            if rng.random() < 0.3:
                io["categorical"] = [c for c in ["Peptide", "Proteins"] + levels if rng.random() < 0.6]
            if rng.random() < 0.3 and k % 9 != 4:
                io["int32"] = ["ScanNr"]
        elif nkey >= 2 and (force_gfmt or rng.random() < 0.2):
            # a writer that prints whole numbers without ".0" (C printf("%g")): 500 and 500.25 in one column
            io["gfmt"] = True
        # ---- the call
        pl = None
        pk = rng.choice(["none", "all", "mixed", "dotted"])
        if pk == "all":
            pl = rng.sample(["coll0", "coll1", "coll2", "x"], ncoll)
        elif pk == "dotted":
            pl = rng.sample(["run.1", "run.2", "a.b.c"], ncoll)
        elif pk == "mixed" and ncoll >= 2:
            pl = [rng.choice([None, "p%d" % j]) for j in range(ncoll)]
            if all(p is None for p in pl) or all(p is not None for p in pl):
                pl[rng.randrange(ncoll)] = None if pl[0] is not None else "q"
        else:
            pk = "none"
            pl = [None] * ncoll
        kind = rng.choice(["f8", "f8", "strided", "negstride", "readonly", "i8", "f4"])
        flat = [v for sc in scores for v in sc]
        if kind == "i8" and not all(float(v).is_integer() for v in flat):
            kind = "f8"
        if kind == "f4":
            import struct
            if not all(struct.unpack("f", struct.pack("f", v))[0] == v for v in flat):
                kind = "negstride"
        dedup = rng.random() < 0.6 or force_gfmt
        rollup = rng.random() < 0.75
        decoys = rng.random() < (0.85 if mode == "ties" else 0.6)
        if force_gfmt:
            chunks["confidence"] = rng.choice([2, 3, 5])
        c = {"fn": "conf", "files": files, "scores": scores, "dedup": dedup, "rollup": rollup, "decoys": decoys,
             "prefixes": pk != "none", "prefix_list": pl, "chunks": chunks, "fmt": fmt, "workers": rng.choice([1, 1, 2, 3]),
             "levels": levels, "ties": mode == "ties", "score_mode": mode, "score_kind": kind, "io": io,
             "file_root": rng.choice(["", "", "", "exp.", "r_"]), "npseed": rng.randrange(2 ** 31)}
        if _pq_short_batches(c) and rng.random() < 0.75:
            del io["row_group"]       # (known finding: such a call fails outright; most of these cases keep one row group)
        if rng.random() < 0.2:
            c["stale"] = rng.sample(["chunk", "level", "result", "chunk-far"], rng.randint(1, 3))
        if rng.random() < 0.15:
            c["prerun"] = True
        c["tags"] = ["conf", "wb", f"coll={ncoll}", "dedup" if dedup else "nodedup", "rollup" if rollup else "norollup",
                     "scores=" + mode, "levels=%d" % len(levels), "mix=" + mix, "size=" + size, "in=" + fmt,
                     "container=" + kind, "prefix=" + pk, "keycols=%d" % nkey,
                     "chunk=" + ("default" if "confidence" not in chunks else "small")] + ["bigscan"] * (k % 9 == 4)
        c["tags"] += ["io-" + x for x in sorted(io)] + ["stale"] * ("stale" in c) + ["prerun"] * ("prerun" in c)
        c["tags"] += ["file_root"] * bool(c["file_root"])
        if finding_key(c, None, None):
            c["tags"].append("finding:" + finding_key(c, None, None))
        cases.append(c)
    return cases


# ----------------------------------------------------------------------------- implementation
def _const_peps(scores, targets, *a, **k):
    import numpy as np
    return np.zeros(len(scores))


def _prefix_list(c):
    if c.get("prefix_list") is not None:
        return list(c["prefix_list"])
    n = len(c["files"])
    return ["coll%d" % i for i in range(n)] if c["prefixes"] else [None] * n


def _pre(c, j):
    """what precedes targets.<level> / decoys.<level> in the names of the result files of collection j"""
    p = _prefix_list(c)[j]
    return c.get("file_root", "") + (p + "." if p else "")


def _groups(c):
    """collections that share their result files (no prefix: appended in the order of the call)"""
    out = {}
    for j in range(len(c["files"])):
        out.setdefault(_pre(c, j), []).append(j)
    return out


def _is_result_file(fn):
    return any(fn.endswith(kind + lv) for kind in ("targets.", "decoys.") for lv in ALL_LEVELS)


def _write_input(c, f, d, name):
    io = c.get("io")
    if not io:
        return brewlib.write_file(f, d, name, c["fmt"])
    import pandas as pd
    cols = io.get("order") or f["columns"]
    df = pd.DataFrame({k: f["data"][k] for k in cols}, columns=cols)
    ren = io.get("rename") or {}
    if c["fmt"] == "parquet":
        if io.get("label_dtype"):
            df["Label"] = df["Label"].astype(io["label_dtype"])
        for col in io.get("categorical", []):
            df[col] = df[col].astype("category")
        for col in io.get("int32", []):
            df[col] = df[col].astype("int32")
        p = Path(d) / (name + ".parquet")
        df.rename(columns=ren).to_parquet(p, index=False, row_group_size=io.get("row_group") or max(1, len(df)))
    else:
        if io.get("gfmt"):
            for col in ("ExpMass", "ret_time"):
                if col in df.columns:
                    df[col] = [("%d" % v) if float(v).is_integer() else repr(float(v)) for v in f["data"][col]]
        p = Path(d) / (name + ".pin")
        df.rename(columns=ren).to_csv(p, sep="\t", index=False)
    return p


def _score_array(c, s):
    """the container in which the score vector is handed over (values unchanged)"""
    import numpy as np
    kind = c.get("score_kind", "f8")
    if kind == "i8":
        return np.array([int(v) for v in s], dtype=np.int64)
    if kind == "f4":
        return np.array(s, dtype=np.float32)
    if kind == "strided":
        base = np.zeros(2 * len(s) + 1, dtype=float)
        base[1::2] = s
        return base[1::2]
    if kind == "negstride":
        return np.array(s[::-1], dtype=float)[::-1]
    a = np.array(s, dtype=float)
    if kind == "readonly":
        a.setflags(write=False)
    return a


def _stale_files(c, out, ext):
    """files an earlier (interrupted or completed) run left in the destination directory"""
    made = []
    root = c.get("file_root", "")
    garbage = b"\x00garbage\tof an earlier run\n\x00\n"
    old_result = "PSMId\tpeptide\tscore\tq-value\tposterior_error_prob\tproteinIds\nOLD\tX\t1e9\t0.0\t0.0\tP\n"
    for what in c.get("stale", []):
        for pre in _groups(c):
            if what == "chunk":
                names = [pre + "scores_metadata_0" + ext]
            elif what == "chunk-far":
                names = [pre + "scores_metadata_%d%s" % (k, ext) for k in (len(c["files"][0]["targets"]) + 5, 10 ** 6)]
            elif what == "level":
                names = [root + lv + ext for lv in _level_names(c)]
            else:
                # only names this call writes itself (other files in the directory are none of its business)
                names = [pre + kind + lv for kind in ["targets."] + ["decoys."] * bool(c["decoys"]) for lv in _level_names(c)]
            for nm in names:
                (out / nm).write_bytes(old_result.encode() if what == "result" else garbage)
                made.append(nm)
    return made


def _run_impl(c):
    import numpy as np
    import mokapot
    import mokapot.confidence as conf
    d = tempfile.mkdtemp(prefix="c03_", dir=os.environ.get("VERIF_TMP", "/tmp"))
    old = conf.peps_from_scores
    conf.peps_from_scores = _const_peps
    rstate = np.random.get_state()
    try:
        paths = [_write_input(c, f, d, "coll%d" % i) for i, f in enumerate(c["files"])]
        out = Path(d) / "out"
        out.mkdir()
        stale = _stale_files(c, out, paths[0].suffix)
        if c.get("npseed") is not None:
            np.random.seed(c["npseed"])       # the state of the global generator is the caller's business
        with brewlib.Chunking(**c.get("chunks", {})):
            dss = mokapot.read_pin(paths, max_workers=1)
            kw = dict(max_workers=c.get("workers", 1), descs=[bool(c.get("descs", True))] * len(paths),
                      eval_fdr=0.5, dest_dir=out, prefixes=_prefix_list(c), decoys=c["decoys"],
                      deduplication=c["dedup"], do_rollup=c["rollup"])
            if c.get("file_root"):
                kw["file_root"] = c["file_root"]
            if c.get("prerun"):
                # an earlier call with other scores into the same directory: everything it wrote must be replaced
                mokapot.assign_confidence(dss, scores=[-_score_array(c, s) for s in c["scores"]], **kw)
            mokapot.assign_confidence(dss, scores=[_score_array(c, s) for s in c["scores"]], **kw)
        res = {"files": {}, "leftovers": []}
        for fn in sorted(os.listdir(out)):
            if _is_result_file(fn):
                res["files"][fn] = _parse(out / fn, c)
            elif fn not in stale:
                res["leftovers"].append(fn)
        return res
    finally:
        np.random.set_state(rstate)
        conf.peps_from_scores = old
        shutil.rmtree(d, ignore_errors=True)


def _parse(path, c):
    import pandas as pd
    if path.suffix == ".parquet":
        df = pd.read_parquet(path)
    else:
        df = pd.read_csv(path, sep="\t", float_precision="round_trip", keep_default_na=False)
    ren = (c.get("io") or {}).get("rename") or {}
    rows = []
    for _, r in df.iterrows():
        rows.append({"id": str(r["PSMId"]), "peptide": str(r["peptide"]), "proteins": str(r["proteinIds"]),
                     "score": float(r["score"]), "q": Fraction(float(r["q-value"])),
                     "extra": {lv: str(r[ren.get(lv, lv)]) if ren.get(lv, lv) in df.columns else None for lv in c["levels"]}})
    return rows


# ----------------------------------------------------------------------------- model
def _level_names(c):
    names = ["psms"]
    if c["rollup"]:
        names += ["peptides"] + [lv.lower() + "s" for lv in c["levels"]]
    return names


def _rows_for_model(f, scores, c):
    cols = [x for x in ("filename", "ScanNr", "ret_time", "ExpMass") if x in f["data"]]
    n = len(f["targets"])
    spec_ids, keymaps = {}, [{} for _ in range(1 + len(c["levels"]))]
    out = []
    from ..props.c01 import exact_ints
    sc = exact_ints(scores)
    for r in range(n):
        sk = tuple(f["data"][x][r] for x in cols)
        sp = spec_ids.setdefault(sk, len(spec_ids) + 1)
        ks = []
        for li, col in enumerate(["Peptide"] + c["levels"]):
            v = f["data"][col][r]
            ks.append(keymaps[li].setdefault(v, len(keymaps[li]) + 1))
        out.append("%s %s %s %s %s" % (lib.z(r), lib.z(sp), lib.lst(ks), lib.b(f["targets"][r]), lib.z(sc[r])))
    return "%d %s" % (n, " ".join(out))


def _model(c):
    nl = len(_level_names(c))
    lines = []
    for j, f in enumerate(c["files"]):
        cs = c.get("chunks", {}).get("confidence", 1000000)
        lines.append("c03.confidence %s %s %s %s" % (lib.z(cs), lib.b(c["dedup"]), lib.z(nl), _rows_for_model(f, eff_scores(c)[j], c)))
    per_coll = []
    for line in lib.run_driver(lines):
        t = Toks(line)
        lv = t.lst(lambda: (t.lst(lambda: (t.z(), t.q())), t.lst(lambda: (t.z(), t.q()))))
        per_coll.append(lv)
    files = {}
    names = _level_names(c)
    for j, lv in enumerate(per_coll):
        pre = _pre(c, j)
        for li, (tg, dc) in enumerate(lv):
            for kind, rows in (("targets", tg), ("decoys", dc)):
                if kind == "decoys" and not c["decoys"]:
                    continue
                fn = "%s%s.%s" % (pre, kind, names[li])
                files.setdefault(fn, []).extend(("f%d_psm%d" % (j, r), Fraction(float(q))) for r, q in rows)
    return files


def _by_score_then_id(c, rows):
    """canonical order of the rows of a result file when equal scores are allowed (their mutual order is free)"""
    return sorted(rows, key=lambda x: (-_score(c, x[0]), x[0]))


def run_case(c):
    if c["fn"] in RU_FNS:
        return ru_run_case(c)
    got = call_impl(_run_impl, c)
    model = ("ok", {k: [(i, q) for i, q in v] for k, v in _model(c).items()})
    if got[0] == "err":
        return model, got
    impl_files = got[1]["files"]
    # the property itself, evaluated on the files the implementation wrote: covers what the model has no notion of (the
    # peptide / proteins / score / level cells of a row) and, in the tie streams, the levels that cannot be compared row by row
    prop = oracle(c, ("ok", {"raw": got[1]}))
    if c["ties"]:
        # any tied winner is accepted: a tied target/decoy pair may swap files, so compare the union
        # of the target and decoy file of a level (only possible when decoys are written)
        def merge(d, ent, sc):
            out = {}
            for k, v in d.items():
                lvl = k.replace("targets.", "").replace("decoys.", "")
                out.setdefault(lvl, []).extend((ent(k, x), sc(x)) for x in v)
            # a different tied winner at PSM level legitimately changes the higher levels: compare PSM level only
            return {k: (sorted(v) if (c["decoys"] and k.endswith("psms")) else True) for k, v in out.items()}
        canon_i = merge(impl_files, lambda k, r: _entity(c, k, r["id"]), lambda r: r["score"])
        canon_m = merge(model[1], lambda k, x: _entity(c, k, x[0]), lambda x: _score(c, x[0]))
        return ("ok", {"tie-canonical": canon_m}), ("ok", {"tie-canonical": canon_i, "raw": got[1], "property": prop})
    canon = {k: [(r["id"], r["q"]) for r in v] for k, v in impl_files.items()}
    if c.get("score_mode") == "xties":
        # equal scores only between rows of different groups: every file holds a unique set of rows, the order among
        # equal scores is free (that the file is ranked best first is checked by the property oracle)
        model = ("ok", {k: _by_score_then_id(c, v) for k, v in model[1].items()})
        canon = {k: _by_score_then_id(c, v) for k, v in canon.items()}
    return model, ("ok", {"files": canon, "raw": got[1], "property": prop})


def _locate(pid):
    j, r = pid[1:].split("_psm")
    return int(j), int(r)


def _score(c, pid):
    j, r = _locate(pid)
    return float(eff_scores(c)[j][r])


def _entity(c, fn, pid):
    """the key of the row at the level of file fn"""
    j, r = _locate(pid)
    f = c["files"][j]
    level = fn.split(".")[-1]
    if level == "psms":
        cols = [x for x in ("filename", "ScanNr", "ret_time", "ExpMass") if x in f["data"]]
        return str((j,) + tuple(f["data"][x][r] for x in cols)) if c["dedup"] else pid
    names = {"peptides": "Peptide"}
    names.update({lv.lower() + "s": lv for lv in c["levels"]})
    return str((j, f["data"][names[level]][r]))


def _files_equal(m, i):
    a = {k: [(x, y) for x, y in v] for k, v in m[1].items()}
    b = {k: [(x, y) for x, y in v] for k, v in i[1]["files"].items()}
    return lib.jsonable(a) == lib.jsonable(b)


def same(c, m, i):
    if c["fn"] in RU_FNS:
        return ru_same(c, m, i)
    if m[0] != i[0]:
        return False
    if i[0] == "err":
        return False
    prop_msg = i[1].get("property")
    if prop_msg is not None and c.get("score_mode") == "full" and c["fmt"] == "tsv" and _only_ulp(i):
        # text files: a full-mantissa score goes through decimal text twice (chunk file, result file) and pandas' default
        # float parser is not correctly rounding: the score of a row may differ from the input from the 13th digit on
        # (observed <= 7e-13 relative).  The property speaks about WHICH PSM's score a row carries, not about the last
        # bits of a decimal round trip: accepted up to 1e-10 relative (a float32 cast is off by 6e-8); Parquet is exact.
        prop_msg = None
    if prop_msg is not None or i[1]["raw"]["leftovers"]:
        return False
    if c["ties"]:
        return m[1]["tie-canonical"] == i[1]["tie-canonical"]
    return _files_equal(m, i)


def nontrivial(c):
    if c["fn"] in RU_FNS:
        return ru_nontrivial(c)
    for f in c["files"]:
        cols = [x for x in ("filename", "ScanNr", "ret_time", "ExpMass") if x in f["data"]]
        n = len(f["targets"])
        specs = [tuple(f["data"][x][r] for x in cols) for r in range(n)]
        if len(set(specs)) < n:
            pep_specs = {}
            for r in range(n):
                pep_specs.setdefault(f["data"]["Peptide"][r], set()).add(specs[r])
            if any(len(v) > 1 for v in pep_specs.values()):
                return True
    return False


# ----------------------------------------------------------------------------- the property itself
ULP_MSG = "differs from the score of the input PSM in the last digits only"
KEY_TEXT_SCORE = "confidence:score-text-roundtrip"
KEY_KEY_DTYPE = "confidence:spectrum-key-dtype-per-chunk"
KEY_PQ_DICT = "confidence:parquet-dictionary-columns-row-groups"


def _close(a, b):
    """equal up to the 10th significant digit (observed: up to 7e-13 relative): what two decimal round trips through pandas' default (fast, not correctly
    rounding) float parser can do to a double; a float32 cast or a %.6g format is off by 1e-8 or more"""
    return abs(a - b) <= 1e-10 * max(abs(a), abs(b))


def oracle(c, i):
    if c["fn"] in RU_FNS:
        return ru_oracle(c, i)
    if i[0] != "ok":
        return f"assign_confidence failed: {i[1]}"
    raw = i[1]["raw"]
    files = raw["files"]
    names = _level_names(c)
    if raw["leftovers"]:
        return f"intermediate files remain: {raw['leftovers']}"
    from .c01 import exact_ints
    es = eff_scores(c)
    ulp = None
    expected = set()
    for pre, colls in _groups(c).items():
        retained = None
        for li, level in enumerate(names):
            expected.add("%stargets.%s" % (pre, level))
            tg = files.get("%stargets.%s" % (pre, level))
            if tg is None:
                return f"missing result file {pre}targets.{level}"
            dc = None
            if c["decoys"]:
                expected.add("%sdecoys.%s" % (pre, level))
                dc = files.get("%sdecoys.%s" % (pre, level))
                if dc is None:
                    return f"missing result file {pre}decoys.{level}"
            for r in tg + (dc or []):
                try:
                    jj, ri = _locate(r["id"])
                    ok = jj in colls and 0 <= ri < len(c["files"][jj]["targets"])
                except Exception:
                    ok = False
                if not ok:
                    return f"{pre}*.{level}: row {r['id']} is not a PSM of the collection(s) written to this file"
            # split by collection (un-prefixed outputs are appended collection after collection)
            for jj in colls:
                f = c["files"][jj]
                t_rows = [r for r in tg if _locate(r["id"])[0] == jj]
                d_rows = [r for r in dc if _locate(r["id"])[0] == jj] if dc is not None else None
                for r in t_rows + (d_rows or []):
                    _, ri = _locate(r["id"])
                    if r["peptide"] != f["data"]["Peptide"][ri] or r["proteins"] != f["data"]["Proteins"][ri]:
                        return f"row {r['id']} of {level} does not carry the peptide/proteins of this input PSM"
                    for lv, v in r["extra"].items():
                        if v is None and not c["rollup"]:
                            continue          # the level columns are only carried along when the levels are computed
                        if v != str(f["data"][lv][ri]):
                            return f"row {r['id']} of {level}: column {lv} is {v!r}, the input PSM has {f['data'][lv][ri]!r}"
                    want = (float(es[jj][ri]), float(c["scores"][jj][ri]))
                    got_sc = r["score"]
                    if c.get("score_kind") == "f4":
                        # a float32 vector is printed with the (shorter) digits that identify a float32: same number
                        import struct
                        got_sc = struct.unpack("f", struct.pack("f", got_sc))[0]
                    if got_sc not in want:
                        if not any(_close(r["score"], w) for w in want):
                            return f"row {r['id']} of {level} does not carry the score of this input PSM ({r['score']!r}, input {want[0]!r})"
                        ulp = ulp or f"row {r['id']} of {level}: score {r['score']!r} {ULP_MSG} ({want[0]!r})"
                if any(not f["targets"][_locate(r["id"])[1]] for r in t_rows):
                    return f"decoy in targets.{level}"
                if d_rows is not None and any(f["targets"][_locate(r["id"])[1]] for r in d_rows):
                    return f"target in decoys.{level}"
                for rows in (t_rows, d_rows or []):
                    sc = [es[jj][_locate(r["id"])[1]] for r in rows]
                    if any(a < b for a, b in zip(sc, sc[1:])):
                        return f"{level}: rows are not ranked best first" + ("" if c.get("descs", True) else " (lower is better: low values must come first)")
                ids_t = [_locate(r["id"])[1] for r in t_rows]
                if len(set(ids_t)) != len(ids_t):
                    return f"{level}: a PSM appears twice"
                key_fn = "%stargets.%s" % (pre, level)
                if d_rows is None:
                    # without the decoy file the retained set cannot be reconstructed; what can be said of the targets alone:
                    # one row per entity, and (PSM level, where the universe is the input) a best row of its group
                    ents = [_entity(c, key_fn, r["id"]) for r in t_rows]
                    if len(set(ents)) != len(ents):
                        return f"{level}: two target rows of the same entity"
                    if level == "psms":
                        best = {}
                        for ri in range(len(f["targets"])):
                            e = _entity(c, key_fn, "f%d_psm%d" % (jj, ri))
                            best[e] = max(best.get(e, es[jj][ri]), es[jj][ri])
                        for r in t_rows:
                            if es[jj][_locate(r["id"])[1]] != best[_entity(c, key_fn, r["id"])]:
                                return f"{level}: row {r['id']} is not a highest-scoring PSM of its entity"
                    continue
                ids = [_locate(r["id"])[1] for r in t_rows + d_rows]
                if len(set(ids)) != len(ids):
                    return f"{level}: a PSM appears twice"
                # expected retained set
                if level == "psms":
                    universe = list(range(len(f["targets"])))
                else:
                    universe = retained[jj]
                groups = {}
                for ri in universe:
                    groups.setdefault(_entity(c, key_fn, "f%d_psm%d" % (jj, ri)), []).append(ri)
                if len(ids) != len(groups):
                    return f"{level}: {len(ids)} rows but {len(groups)} distinct entities among the retained PSMs"
                for ri in ids:
                    g = groups.get(_entity(c, key_fn, "f%d_psm%d" % (jj, ri)))
                    if g is None or ri not in g:
                        return f"{level}: row f{jj}_psm{ri} is not among the retained PSMs"
                    if es[jj][ri] != max(es[jj][x] for x in g):
                        return f"{level}: row f{jj}_psm{ri} is not a highest-scoring PSM of its entity"
                if level == "psms":
                    retained = retained or {}
                    retained[jj] = ids
                # q-values = C01 formula on exactly these rows
                allr = sorted(t_rows + d_rows, key=lambda r: -es[jj][_locate(r["id"])[1]])
                spec = q_spec(exact_ints([es[jj][_locate(r["id"])[1]] for r in allr]), [f["targets"][_locate(r["id"])[1]] for r in allr], True)
                for r, q in zip(allr, spec):
                    if Fraction(float(q)) != r["q"]:
                        return f"{level}: q-value of {r['id']} is {float(r['q'])}, C01 formula on the retained rows gives {float(q)}"
    if set(files) - expected:
        return f"unexpected result files {sorted(set(files) - expected)}"
    return ulp


def _dtype_split_spectrum(c):
    """some spectrum has PSMs in two confidence chunks of which one holds only whole numbers in a float-valued key column
    printed %g-style (pandas reads that chunk's column as integers) and the other does not"""
    if not (c.get("io") or {}).get("gfmt") or not c["dedup"]:
        return False
    cs = c.get("chunks", {}).get("confidence")
    if not cs:
        return False
    for f in c["files"]:
        n = len(f["targets"])
        cols = _spec_cols(f)
        for col in ("ExpMass", "ret_time"):
            if col not in f["data"]:
                continue
            kinds = {}
            for r in range(n):
                kinds.setdefault(r // cs, []).append(float(f["data"][col][r]).is_integer())
            as_int = {ch: all(v) for ch, v in kinds.items()}
            seen = {}
            for r in range(n):
                key = tuple(f["data"][x][r] for x in cols)
                if float(f["data"][col][r]).is_integer():
                    if seen.setdefault(key, as_int[r // cs]) != as_int[r // cs]:
                        return True
    return False


def _pq_short_batches(c):
    """Parquet input with a dictionary-encoded (pandas categorical) metadata column: pyarrow's iter_batches then does not
    continue a batch across a row-group boundary, so the chunks of the file no longer line up with the CONFIDENCE_CHUNK_SIZE
    slices of the score vector"""
    io = c.get("io") or {}
    if c["fmt"] != "parquet" or not io.get("categorical"):
        return False
    cs = c.get("chunks", {}).get("confidence", 1000000)
    for f in c["files"]:
        n = len(f["targets"])
        rg = io.get("row_group") or max(1, n)
        batches = [min(cs, g + min(rg, n - g) - b) for g in range(0, n, rg) for b in range(g, g + min(rg, n - g), cs)]
        slices = [min(cs, n - b) for b in range(0, n, cs)]
        if batches != slices:
            return True
    return False


def finding_key(c, m, i):
    if c["fn"] != "conf":
        return None
    if _pq_short_batches(c):
        return KEY_PQ_DICT if i is None or tuple(i) == ("err", "ValueError") else None
    if _dtype_split_spectrum(c):
        return KEY_KEY_DTYPE
    return None


def _only_ulp(i):
    return i[0] == "ok" and isinstance(i[1].get("property"), str) and ULP_MSG in i[1]["property"]


# ============================================================================= the stand-alone rollup tool
RU_FNS = ("rollup", "rollup_ac", "rollup_levels")
RU_BASES = ["psm", "precursor", "peptide", "modifiedpeptide", "peptidegroup"]
# vocabulary of the property, used by generators and by the oracle only (the model has its own tables,
# Model/Rollup.v ru_default_parents / ru_column_map, compared with mokapot's in extra_checks)
RU_PARENT = {"precursor": "psm", "modified_peptide": "precursor", "peptide": "modified_peptide", "peptide_group": "precursor"}
RU_ALIASES = {"psm_id": ["PSMId", "SpecId", "psm_id"], "peptide": ["peptide", "Peptide"],
              "precursor": ["Precursor", "pcm", "PCM", "precursor"],
              "modified_peptide": ["ModifiedPeptide", "modifiedpeptide", "modified_peptide"],
              "peptide_group": ["PeptideGroup", "peptidegroup", "peptide_group"], "q_value": ["q-value", "q_value"]}
RU_STD = {a: k for k, v in RU_ALIASES.items() for a in v}
RU_TAIL = ["score", "q-value", "posterior_error_prob", "proteinIds"]


def _ru_rows(rng, n, columns, ties, id0=0, npep=None, score_mode="half", intids=False):
    npep = npep or rng.choice([2, max(2, n // 4), n])
    # an unmodified peptide, its modified form and its group often are the same string: the levels must not share state
    shared = rng.random() < 0.35
    if ties:
        scores = [rng.randint(0, max(2, n // 3)) * 0.5 for _ in range(n)]
    elif score_mode == "dyadic":
        # m / 256, up to 30 significant bits, neighbours 1/256 apart (exact through every text round trip)
        base = rng.choice([0, 1 << 20, -(1 << 22), (1 << 29) - 4 * n])
        scores = [m / 256.0 for m in rng.sample(range(base - 2 * n, base + 2 * n + 1), n)]
    elif score_mode == "full":
        scale = rng.choice([1.0, 1e-6, 1e6])
        scores = set()
        while len(scores) < n:
            scores.add((rng.random() * 4.0 - 1.0) * scale)
        scores = list(scores)
        rng.shuffle(scores)
    else:
        scores = [v * 0.5 for v in rng.sample(range(-n, 3 * n + 2), n)]
    rows = []
    for k in range(n):
        r = []
        for col in columns:
            std = RU_STD.get(col, col)
            if std == "psm_id":
                r.append("p%d" % (id0 + k))
            elif std == "peptide":
                r.append("PEP%d" % rng.randint(0, npep))
            elif std in ("precursor", "modified_peptide", "peptide_group"):
                if intids:
                    # database ids (PCM_ID, PEPTIDE_ID ...): integers, the same numbers at different levels
                    r.append(rng.randint(0, max(1, npep // 2)) + (0 if shared else 1000 * len(std)))
                else:
                    r.append("%s%d" % ("PEP" if shared else std[:2], rng.randint(0, max(1, npep // 2))))
            elif std == "score":
                r.append(scores[k])
            elif std in ("q_value", "posterior_error_prob"):
                r.append(rng.randint(0, 8) / 8.0)
            else:
                r.append("prot%d" % rng.randint(0, 5))
        rows.append(r)
    return rows


def _ru_sorted(rows, si):
    return sorted(rows, key=lambda r: -r[si])


RU_MALFORMED = ["unsorted", "empty", "unsorted", "only_empty", "unsorted", "nofiles", "unsorted", "both", "empty", "schema",
                "unsorted", "noscore"]


def _ru_gen_direct(rng, stream, big=False, malform=None, ncoll=None):
    base = rng.choice(["psm"] * 5 + ["precursor"] * 2 + ["peptide"] * 2 + ["modifiedpeptide", "peptidegroup"])
    fmt = rng.choice(["tsv", "tsv", "parquet"])
    root = rng.choice(["rollup", "rollup", "rollup", "r", "out.x"])
    columns = [rng.choice(RU_ALIASES["psm_id"][:2] * 2 + ["psm_id"])]
    if rng.random() < 0.9:
        columns.append(rng.choice(["peptide", "peptide", "Peptide"]))
    lv = [rng.choice(RU_ALIASES[k]) for k in ("precursor", "modified_peptide", "peptide_group") if rng.random() < 0.55]
    rng.shuffle(lv)
    columns += lv + RU_TAIL
    wb = random_wb(rng, stream, fmt, big)
    if wb["colshuffle"]:
        rest = columns[1:]
        rng.shuffle(rest)
        columns = columns[:1] + rest
    si = columns.index("score")
    ncoll = ncoll or rng.choice([1, 2, 2, 3, 4])
    names = rng.sample(["a", "b", "c", "d", "run1", "x.y"], ncoll)
    variant = []
    if rng.random() < 0.1:
        names[0] = root + "x"              # starts like the output root but is not a result file of an earlier run
        variant.append("rootlike")
    slots = [(nm, kind) for nm in names for kind in ("targets", "decoys")]
    if len(slots) > 1 and rng.random() < 0.15:
        slots.remove(rng.choice([s for s in slots if s[1] == "decoys"]))
        variant.append("nodecoys")
    if len(slots) > 1 and rng.random() < 0.07:
        slots.remove(rng.choice([s for s in slots if s[1] == "targets"]))
        variant.append("notargets")
    n = rng.randint(len(slots), 60) if not big else (rng.randint(1100, 1500) if big is True else big)
    if rng.random() < 0.15 and not big:
        n = rng.randint(len(slots), len(slots) + 3)
    ties = stream == "ties"
    rows = _ru_rows(rng, n, columns, ties, score_mode=wb["score_mode"], intids=wb["intids"])
    per = {s: [] for s in slots}
    order = list(range(n))
    rng.shuffle(order)
    for j, k in enumerate(order):
        s = slots[j] if j < len(slots) else rng.choice(slots)
        per[s].append(rows[k])
    files = [{"name": "%s.%s.%ss" % (nm, kind, base), "rows": _ru_sorted(per[(nm, kind)], si)} for nm, kind in slots]
    if rng.random() < 0.2:
        # result files of an earlier run in the source directory: must be ignored
        hi = max(r[si] for r in rows) + 1.0
        for kind in rng.choice([["targets"], ["decoys"], ["targets", "decoys"]]):
            st = [list(rng.choice(rows)) for _ in range(rng.randint(1, 2))]
            for j, r in enumerate(st):
                r[0] = "stale%d%s" % (j, kind[0])
                r[si] = hi + (1 - j) + (0.25 if kind == "decoys" else 0.0)
            files.append({"name": "%s.%s.%ss" % (root, kind, base), "rows": _ru_sorted(st, si)})
        variant.append("stale")
    c = {"fn": "rollup", "base": base, "fmt": fmt, "root": root, "columns": columns, "files": files, "stream": stream,
         "ties": ties, "variant": variant, "inplace": wb["inplace"], "rerun": wb["rerun"]}
    if stream == "malformed":
        _ru_malform(rng, c, si, malform)
    c["tags"] = ["rollup_tool", "ru-" + stream, "ru-base=" + base, "ru-" + fmt, "ru-coll=%d" % ncoll,
                 "ru-levelcols=%d" % len(lv), "ru-scores=" + ("ties" if ties else wb["score_mode"])] + ["ru-" + v for v in c["variant"]]
    c["tags"] += ["ru-" + k for k in ("colshuffle", "intids", "inplace", "rerun") if wb[k]] + ["ru-big"] * bool(big)
    return c


def random_wb(rng, stream, fmt, big):
    """white-box review dimensions of a rollup-tool case (drawn for every case, so that the streams stay aligned)"""
    wb = {"colshuffle": rng.random() < 0.5, "intids": rng.random() < 0.3,
          "score_mode": rng.choice(["half", "half", "dyadic", "dyadic", "full"]),
          "inplace": rng.random() < 0.3, "rerun": rng.random() < 0.2}
    if wb["score_mode"] == "full" and fmt != "parquet":
        # a text source file IS its decimal digits; which double they denote is the reader's business (pandas' default
        # parser is not exact in the last digit), so full-mantissa scores are only given in the binary format
        wb["score_mode"] = "dyadic"
    return wb


def _ru_malform(rng, c, si, kind):
    files = [f for f in c["files"] if not f["name"].startswith(c["root"] + ".")]
    kind = kind or rng.choice(RU_MALFORMED)
    if kind == "schema" and len(files) < 2:
        kind = "unsorted"
    if kind == "unsorted":
        cand = [f for f in files if len({r[si] for r in f["rows"]}) >= 2]
        if not cand:
            kind = "empty"
        else:
            f = rng.choice(cand)
            rows = f["rows"]
            while all(a[si] >= b[si] for a, b in zip(rows, rows[1:])):
                i, j = rng.sample(range(len(rows)), 2)
                rows[i], rows[j] = rows[j], rows[i]
    if kind == "empty":
        rng.choice(files)["rows"] = []
    elif kind == "only_empty":
        f = rng.choice(files)
        f["rows"] = []
        c["files"] = [f]
    elif kind == "nofiles":
        if rng.random() < 0.5:
            c["files"] = []
        else:
            for f in c["files"]:
                f["name"] = f["name"][:-1] + "x"          # *.targets.psmx: matched by no pattern
    elif kind == "both":
        f = dict(rng.choice(files))
        f["fmt"] = "parquet" if c["fmt"] == "tsv" else "tsv"
        c["files"].append(f)
    elif kind == "schema":
        f = rng.choice(files)
        drop = rng.choice([k for k, col in enumerate(c["columns"]) if col != "score" and k != 0])
        f["columns"] = [col for k, col in enumerate(c["columns"]) if k != drop]
        f["rows"] = [[v for k, v in enumerate(r) if k != drop] for r in f["rows"]]
    elif kind == "noscore":
        for f in c["files"]:
            f["rows"] = [[v for k, v in enumerate(r) if k != si] for r in f["rows"]]
        c["columns"] = [col for col in c["columns"] if col != "score"]
    c["variant"].append(kind)


def _ru_gen_ac(rng):
    ncoll = rng.choice([1, 2, 2, 3])
    levels = [l for l in LEVEL_COLS if rng.random() < 0.5]
    files, scores = [], []
    nkey = rng.choice([1, 2, 4])
    for j in range(ncoll):
        n = rng.randint(15, 60)
        files.append(brewlib.gen_file(rng, n, nkey, file_idx=j, mult=(1, rng.choice([1, 3])), levels=levels,
                                      npep=rng.choice([3, max(2, n // 4)]), label_enc="pm1"))
        scores.append([float(v) for v in rng.sample(range(-n, 3 * n), n)])
    # distinct scores over ALL collections (the merged stream of the rollup tool pools them)
    seen = set()
    for sc in scores:
        for k, v in enumerate(sc):
            while v in seen:
                v += 0.25
            seen.add(v)
            sc[k] = v
    bases = ["psm", "psm", "peptide"] + (["precursor", "precursor"] if "Precursor" in levels else [])
    base = rng.choice(bases)
    return {"fn": "rollup_ac", "files": files, "scores": scores, "levels": levels, "dedup": rng.random() < 0.6,
            "decoys": rng.random() < 0.85, "pin_fmt": rng.choice(["tsv", "parquet"]), "base": base, "root": "rollup",
            "stream": "default", "ties": False, "variant": [],
            "tags": ["rollup_ac", "ru-base=" + base, "ru-coll=%d" % ncoll, "ru-levelcols=%d" % len(levels)]}


def _ru_gen_levels(rng, thorough):
    cases = []
    names = ["psm", "precursor", "modified_peptide", "peptide", "peptide_group", "a", "b", "c", "d", "e"]
    for base in RU_BASES + ["modified_peptide", "peptide_group", "protein", ""]:
        cases.append({"fn": "rollup_levels", "parents": None, "base": base, "tags": ["rollup_levels", "ru-default-table"]})
    for k in range(300 if thorough else 120):
        pool = names if rng.random() < 0.5 else names[5:]
        m = rng.randint(0, 8)
        if k % 4 == 0 and m >= 2:
            # a chain listed child-before-parent: one level per sweep
            chain = rng.sample(pool, min(len(pool), m + 1))
            parents = [[chain[i + 1], chain[i]] for i in range(len(chain) - 1)][::-1]
            base = chain[0] if rng.random() < 0.8 else rng.choice(pool)
        else:
            children = rng.sample(pool, min(m, len(pool)))
            parents = [[ch, rng.choice(pool)] for ch in children]       # cycles and self-parents included
            base = rng.choice(pool)
        cases.append({"fn": "rollup_levels", "parents": parents, "base": base,
                      "tags": ["rollup_levels", "ru-random-table", "ru-table=%d" % len(parents)]})
    return cases


def gen_rollup(ctx):
    cases = []
    rng = ctx.sub("rollup")
    for k in range(260 if ctx.thorough else 90):
        cases.append(_ru_gen_direct(rng, "default"))
    for k in range(80 if ctx.thorough else 30):
        cases.append(_ru_gen_direct(rng, "ties"))
    for k in range(140 if ctx.thorough else 50):
        cases.append(_ru_gen_direct(rng, "malformed", malform=RU_MALFORMED[k % len(RU_MALFORMED)]))
    # longer than the 1000-row write buffers of the tool (both tiers); thorough: also longer than the 10000-row
    # chunks in which the merged reader pulls rows from each source file
    cases.append(_ru_gen_direct(ctx.sub("rollup-big"), "default", big=True))
    if ctx.thorough:
        cases.append(_ru_gen_direct(ctx.sub("rollup-big2"), "default", big=True))
        huge = _ru_gen_direct(ctx.sub("rollup-huge"), "default", big=24000, ncoll=1)
        huge["oracle_only"] = True
        huge["tags"].append("ru-oracle-only")
        cases.append(huge)
    rng = ctx.sub("rollup_ac")
    for k in range(60 if ctx.thorough else 18):
        cases.append(_ru_gen_ac(rng))
    cases.extend(_ru_gen_levels(ctx.sub("rollup_levels"), ctx.thorough))
    return cases


# ----------------------------------------------------------------------------- running the real tool
def _ru_write_file(path, columns, rows, fmt):
    import pandas as pd
    if rows:
        df = pd.DataFrame(rows, columns=columns)
    else:
        # same column types as a file with rows (what a typed writer produces)
        dummy = [0.5 if RU_STD.get(col, col) in ("score", "q_value", "posterior_error_prob") else "x" for col in columns]
        df = pd.DataFrame([dummy], columns=columns).iloc[0:0]
    if fmt == "parquet":
        df.to_parquet(path, index=False)
    else:
        df.to_csv(path, sep="\t", index=False)


def _ru_read_file(path):
    """columns and cells of a result file (strings and floats)"""
    import pandas as pd
    if str(path).endswith(".parquet"):
        df = pd.read_parquet(path)
    else:
        df = pd.read_csv(path, sep="\t", float_precision="round_trip", index_col=False)
    cols = [str(x) for x in df.columns]
    rows = []
    for rec in df.itertuples(index=False, name=None):
        rows.append([_ru_num(v) if isinstance(v, (int, float)) and not isinstance(v, bool) else str(v) for v in rec])
    return cols, rows


def _ru_num(v):
    """numbers of a result file: whole numbers of an integer column stay integers (database ids), the rest are floats"""
    return int(v) if isinstance(v, int) else float(v)


def _ru_schema(path):
    """what the tool's readers report as column names / column types of the file (oracle: pandas / pyarrow)"""
    if str(path).endswith(".parquet"):
        import pyarrow.parquet as pq
        sch = pq.ParquetFile(path).schema.to_arrow_schema()
        return repr([(n, str(t)) for n, t in zip(sch.names, sch.types)])
    import pandas as pd
    df = pd.read_csv(path, sep="\t", index_col=False, nrows=2)
    return repr([(str(n), str(t)) for n, t in df.dtypes.items()])


def _ru_make_src(c, src):
    """write / produce the source directory; returns its description {name: {columns, rows, schema}}"""
    import numpy as np
    desc = {}
    if c["fn"] == "rollup":
        for f in c["files"]:
            fmt = f.get("fmt", c["fmt"])
            name = f["name"] + (".parquet" if fmt == "parquet" else "")
            cols = f.get("columns", c["columns"])
            _ru_write_file(src / name, cols, f["rows"], fmt)
            desc[name] = {"columns": cols, "rows": f["rows"]}
    else:
        import mokapot
        import mokapot.confidence as conf
        pins = src.parent / "pins"
        pins.mkdir()
        old = conf.peps_from_scores
        conf.peps_from_scores = _const_peps
        try:
            paths = [brewlib.write_file(f, pins, "coll%d" % i, c["pin_fmt"]) for i, f in enumerate(c["files"])]
            dss = mokapot.read_pin(paths, max_workers=1)
            mokapot.assign_confidence(dss, max_workers=1, scores=[np.array(s, dtype=float) for s in c["scores"]],
                                      eval_fdr=0.5, dest_dir=src, prefixes=["abc"[i] for i in range(len(paths))],
                                      decoys=c["decoys"], deduplication=c["dedup"], do_rollup=True)
        finally:
            conf.peps_from_scores = old
        for name in sorted(os.listdir(src)):
            cols, rows = _ru_read_file(src / name)
            desc[name] = {"columns": cols, "rows": rows}
    for name in desc:
        desc[name]["schema"] = _ru_schema(src / name)
    return desc


def _ru_listing(desc, base):
    """the file selection of do_rollup up to the root filter (which is the model's): names in sorted order"""
    import fnmatch
    names = sorted(desc)
    has_parquet = any(fnmatch.fnmatchcase(n, "*.%ss.parquet" % base) for n in names)
    has_text = any(fnmatch.fnmatchcase(n, "*.%ss" % base) for n in names)
    suffix = ".parquet" if has_parquet else ""
    tf = [n for n in names if fnmatch.fnmatchcase(n, "*.targets.%ss%s" % (base, suffix))]
    df = [n for n in names if fnmatch.fnmatchcase(n, "*.decoys.%ss%s" % (base, suffix))]
    return has_parquet, has_text, suffix, tf, df


def _ru_impl(c):
    import mokapot.brew_rollup as br
    d = Path(tempfile.mkdtemp(prefix="c03ru_", dir=os.environ.get("VERIF_TMP", "/tmp")))
    old = br.peps_from_scores
    br.peps_from_scores = _const_peps
    try:
        src = d / "src"
        # the tool's defaults are src_dir = dest_dir = "./": rolling up inside the source directory is the normal use
        dest = src if c.get("inplace") else d / "dest"
        src.mkdir()
        dest.mkdir(exist_ok=True)
        desc = _ru_make_src(c, src)
        before = {name: (src / name).read_bytes() for name in os.listdir(src)} if c.get("inplace") else {}

        def run():
            for _ in range(2 if c.get("rerun") else 1):
                br.main(["--level", c["base"], "--src_dir", str(src), "--dest_dir", str(dest), "--file_root", c["root"],
                         "--verbosity", "0"])
            raw = {}
            for name in sorted(os.listdir(dest)):
                if ".temp." in name or (name in before and (dest / name).read_bytes() == before[name]):
                    continue          # (in place: a source file the tool did not touch)
                cols, rows = _ru_read_file(dest / name)
                raw[name] = {"columns": cols, "rows": rows}
            return raw
        return desc, call_impl(run)
    finally:
        br.peps_from_scores = old
        shutil.rmtree(d, ignore_errors=True)


# ----------------------------------------------------------------------------- model
_RU_CONSTS = []


def _ru_model_consts():
    if not _RU_CONSTS:
        t = Toks(lib.run_driver(["c03.rollup_consts"])[0])
        _RU_CONSTS.append((t.lst(lambda: (t.s(), t.s())), t.lst(lambda: (t.s(), t.s()))))
    return _RU_CONSTS[0]


def _ru_model(c, desc):
    """-> ('ok', [(level, [(row, q)], [(row, q)])]) | ('err', kind); rows = (file name, row index)"""
    from .c01 import exact_ints
    has_parquet, has_text, suffix, tf, df = _ru_listing(desc, c["base"])
    order = tf + df
    allsc, where = [], []
    for name in order:
        cols = desc[name]["columns"]
        si = cols.index("score") if "score" in cols else None
        for k, r in enumerate(desc[name]["rows"]):
            allsc.append(r[si] if si is not None else 0.0)
            where.append((name, k))
    exact = exact_ints(allsc) if allsc else []
    vid, sid = {}, {}
    gid = 0
    enc = {}
    for name in order:
        cols = desc[name]["columns"]
        rows = []
        for r in desc[name]["rows"]:
            keys = [vid.setdefault((col, v), len(vid) + 1) for col, v in zip(cols, r)]
            rows.append("%s %s %s %s %s" % (lib.z(gid), lib.z(0), lib.lst(keys), lib.b(False), lib.z(exact[gid])))
            gid += 1
        schema = sid.setdefault(desc[name]["schema"], len(sid) + 1)
        enc[name] = "%s %s %d %s" % (lib.s(name), lib.z(schema), len(rows), " ".join(rows))
    raw_cols = desc[order[0]]["columns"] if order else []
    line = "c03.rollup %s %s %s %s %s %s %s" % (
        lib.b(has_parquet), lib.b(has_text), lib.s(c["root"]), lib.s(c["base"]), lib.lst(raw_cols, lib.s),
        " ".join([str(len(tf))] + [enc[n] for n in tf]), " ".join([str(len(df))] + [enc[n] for n in df]))
    t = Toks(lib.run_driver([line])[0])
    res = t.result(lambda: t.lst(lambda: (t.s(), t.lst(lambda: (t.z(), t.q())), t.lst(lambda: (t.z(), t.q())))))
    if res[0] == "err":
        return res, suffix
    return ("ok", [(lv, [(where[g], q) for g, q in tg], [(where[g], q) for g, q in dc]) for lv, tg, dc in res[1]]), suffix


def _ru_cell(desc, w, std):
    """the cell of input row w = (file, index) in the column whose standard name is std"""
    cols = desc[w[0]]["columns"]
    for k, col in enumerate(cols):
        if RU_STD.get(col, col) == std:
            return desc[w[0]]["rows"][w[1]][k]
    return None


def _ru_levels_impl(c):
    import mokapot.brew_rollup as br
    if c["parents"] is None:
        return br.compute_rollup_levels(c["base"])
    return br.compute_rollup_levels(c["base"], {ch: p for ch, p in c["parents"]})


def ru_run_case(c):
    if c["fn"] == "rollup_levels":
        parents = c["parents"] if c["parents"] is not None else _ru_model_consts()[0]
        line = "c03.rollup_levels %s %s" % (lib.lst(parents, lambda cp: lib.s(cp[0]) + " " + lib.s(cp[1])), lib.s(c["base"]))
        t = Toks(lib.run_driver([line])[0])
        return t.result(lambda: t.lst(t.s)), call_impl(_ru_levels_impl, c)
    desc, got = _ru_impl(c)
    if c.get("oracle_only"):
        # too long for the extracted model (its lists make the run cubic): the property oracle alone decides
        if got[0] == "err":
            return ("ok", {"oracle-only": True}), got
        return ("ok", {"oracle-only": True}), ("ok", {"raw": got[1], "desc": desc, "oracle-only": True,
                                                      "property": ru_oracle(c, ("ok", {"raw": got[1], "desc": desc}))})
    m, suffix = _ru_model(c, desc)
    if got[0] == "err":
        return m, got
    if m[0] == "err":
        return m, ("ok", {"raw": got[1], "desc": desc})
    raw = got[1]
    root = c["root"]
    # the property itself on the files the tool wrote (every cell of a row is the input row's; with ties: some best row)
    prop = ru_oracle(c, ("ok", {"raw": raw, "desc": desc}))
    if c["ties"]:
        # any tied winner is accepted (a tied target / decoy pair may even swap files): per level the
        # (entity, score) pairs of the target and decoy file together
        cm, ci = {}, {}
        for lv, tg, dc in m[1]:
            cm[lv] = sorted((str(_ru_cell(desc, w, lv)), float(_ru_cell(desc, w, "score"))) for w, _ in tg + dc)
        for name, f in raw.items():
            lv = name[len(root) + 1:].split(".", 1)[1]
            lv = lv[:-len(suffix)] if suffix else lv
            lv = lv[:-1]
            for r in f["rows"]:
                rec = dict(zip(f["columns"], r))
                ci.setdefault(lv, []).append((str(rec.get(lv)), float(rec.get("score"))))
        ci = {k: sorted(v) for k, v in ci.items()}
        names_m = sorted("%s.%s.%ss%s" % (root, kind, lv, suffix) for lv, _, _ in m[1] for kind in ("targets", "decoys"))
        return (("ok", {"tie-canonical": cm, "names": names_m}),
                ("ok", {"tie-canonical": ci, "names": sorted(raw), "raw": raw, "desc": desc, "property": prop}))
    files_m = {}
    for lv, tg, dc in m[1]:
        for kind, rows in (("targets", tg), ("decoys", dc)):
            files_m["%s.%s.%ss%s" % (root, kind, lv, suffix)] = [(str(_ru_cell(desc, w, "psm_id")), Fraction(float(q))) for w, q in rows]
    files_i = {}
    for name, f in raw.items():
        recs = [dict(zip(f["columns"], r)) for r in f["rows"]]
        files_i[name] = [(str(rec.get("psm_id")), Fraction(rec["q_value"]) if "q_value" in rec else None) for rec in recs]
    return ("ok", {"files": files_m}), ("ok", {"files": files_i, "raw": raw, "desc": desc, "property": prop})


def ru_same(c, m, i):
    if c["fn"] == "rollup_levels":
        return lib.jsonable(m) == lib.jsonable(i)
    if m[0] != i[0]:
        return False
    if m[0] == "err":
        return m[1] == i[1]
    if i[1].get("property") is not None:
        return False
    if c.get("oracle_only"):
        return bool(i[1].get("oracle-only")) and bool(i[1]["raw"])
    if c["ties"]:
        return lib.jsonable(m[1]["tie-canonical"]) == lib.jsonable(i[1]["tie-canonical"]) and m[1]["names"] == i[1]["names"]
    return lib.jsonable(m[1]["files"]) == lib.jsonable(i[1]["files"])


def ru_nontrivial(c):
    if c["fn"] == "rollup_levels":
        return c["parents"] is not None and len(c["parents"]) >= 2
    if c["fn"] == "rollup_ac":
        return len(c["files"]) >= 2
    # some entity of some level column has rows in two different files
    for k, col in enumerate(c["columns"]):
        if RU_STD.get(col, col) in ("peptide", "precursor", "modified_peptide", "peptide_group"):
            owner = {}
            for f in c["files"]:
                if "columns" in f:
                    continue
                for r in f["rows"]:
                    if owner.setdefault(r[k], f["name"]) != f["name"]:
                        return True
    return False


# ----------------------------------------------------------------------------- the property itself (rollup tool)
def _ru_descendants(base, parent):
    out = [base]
    changed = True
    while changed:
        changed = False
        for ch, p in parent.items():
            if p in out and ch not in out:
                out.append(ch)
                changed = True
    return out


def _q_sorted(scores_exact, targets):
    """q_spec(scores, targets, True) in O(n log n) (long files only; compared with q_spec in extra_checks)"""
    order = sorted(range(len(scores_exact)), key=lambda j: -scores_exact[j])
    fdr, t, d, k = {}, 0, 0, 0
    while k < len(order):
        s = scores_exact[order[k]]
        while k < len(order) and scores_exact[order[k]] == s:
            t, d, k = t + bool(targets[order[k]]), d + (not targets[order[k]]), k + 1
        fdr[s] = Fraction(1) if t == 0 else Fraction(d + 1, t)
    cur, best = Fraction(1), {}
    for s in sorted(fdr):
        cur = min(cur, fdr[s])
        best[s] = cur
    return [best[s] for s in scores_exact]


def ru_oracle(c, i):
    if c["fn"] == "rollup_levels":
        if i[0] != "ok":
            return f"compute_rollup_levels failed: {i[1]}"
        lv = list(i[1])
        parent = RU_PARENT if c["parents"] is None else {ch: p for ch, p in c["parents"]}
        want = _ru_descendants(c["base"], parent)
        if not lv or lv[0] != c["base"]:
            return "the result does not start with the base level"
        if len(set(lv)) != len(lv):
            return "a level is listed twice"
        if set(lv) != set(want):
            return f"levels {lv} are not the descendants {sorted(want)} of the base level"
        return None
    if i[0] != "ok":
        if c["fn"] == "rollup" and c["stream"] in ("default", "ties"):
            return f"brew_rollup failed ({i[1]}) on sorted, non-empty result files with equal columns"
        return None
    desc, raw = i[1]["desc"], i[1]["raw"]
    base, root = c["base"], c["root"]
    has_parquet, has_text, suffix, tf, df = _ru_listing(desc, base)
    sel = [(n, True) for n in tf if not n.startswith(root + ".")] + [(n, False) for n in df if not n.startswith(root + ".")]
    pool = []
    for name, is_t in sel:
        cols = desc[name]["columns"]
        if "score" not in cols:
            return None
        si = cols.index("score")
        sc = [r[si] for r in desc[name]["rows"]]
        if any(a < b for a, b in zip(sc, sc[1:])):
            return f"{name} is not in descending score order but the tool produced result files"
        for k in range(len(sc)):
            pool.append(((name, k), is_t))
    if not sel or any(not desc[n]["rows"] for n, _ in sel) or len({desc[n]["schema"] for n, _ in sel}) > 1:
        return None
    std_cols = [RU_STD.get(col, col) for col in desc[sel[0][0]]["columns"]]
    levels = [lv for lv in _ru_descendants(base, RU_PARENT) if lv in std_cols]
    want_names = sorted("%s.%s.%ss%s" % (root, kind, lv, suffix) for lv in levels for kind in ("targets", "decoys"))
    if sorted(raw) != want_names:
        return f"result files {sorted(raw)}; expected {want_names}"
    from .c01 import exact_ints
    by_id = {str(_ru_cell(desc, w, "psm_id")): (w, is_t) for w, is_t in pool}
    for lv in levels:
        got = []
        for kind in ("targets", "decoys"):
            f = raw["%s.%s.%ss%s" % (root, kind, lv, suffix)]
            recs = [dict(zip(f["columns"], r)) for r in f["rows"]]
            sc = [rec["score"] for rec in recs]
            if any(a < b for a, b in zip(sc, sc[1:])):
                return f"{kind}.{lv}s: rows are not ranked best first"
            for rec in recs:
                hit = by_id.get(str(rec.get("psm_id")))
                if hit is None:
                    return f"{kind}.{lv}s: row {rec.get('psm_id')} is not a row of a selected input file"
                w, is_t = hit
                if is_t != (kind == "targets"):
                    return f"{kind}.{lv}s: row {rec.get('psm_id')} comes from a {'targets' if is_t else 'decoys'} file"
                for col, v in zip(desc[w[0]]["columns"], desc[w[0]]["rows"][w[1]]):
                    std = RU_STD.get(col, col)
                    if std in ("q_value", "posterior_error_prob"):
                        continue
                    if rec.get(std) != v:
                        return f"{kind}.{lv}s: row {rec.get('psm_id')} column {std} is {rec.get(std)!r}, input has {v!r}"
                got.append((w, is_t, rec))
        ids = [w for w, _, _ in got]
        if len(set(ids)) != len(ids):
            return f"{lv}s: a row appears twice"
        groups = {}
        for w, _ in pool:
            groups.setdefault(_ru_cell(desc, w, lv), []).append(w)
        if len(got) != len(groups):
            return f"{lv}s: {len(got)} rows but {len(groups)} distinct entities among all input rows"
        for w, _, _ in got:
            g = groups[_ru_cell(desc, w, lv)]
            if _ru_cell(desc, w, "score") != max(_ru_cell(desc, x, "score") for x in g):
                return f"{lv}s: row {_ru_cell(desc, w, 'psm_id')} is not a highest-scoring row of its entity over all input files"
        spec = (q_spec if len(got) < 3000 else lambda a, b, _: _q_sorted(a, b))(
            exact_ints([_ru_cell(desc, w, "score") for w, _, _ in got]), [t for _, t, _ in got], True)
        for (w, _, rec), q in zip(got, spec):
            if Fraction(float(q)) != Fraction(rec["q_value"]):
                return f"{lv}s: q-value of {rec.get('psm_id')} is {rec['q_value']}, C01 formula on the retained rows gives {float(q)}"
    return None


def extra_checks(ctx):
    """the model's copies of DEFAULT_PARENT_LEVELS and STANDARD_COLUMN_NAME_MAP are mokapot's"""
    import mokapot.brew_rollup as br
    fails = []
    parents, cmap = _ru_model_consts()
    if [list(x) for x in parents] != [list(x) for x in br.DEFAULT_PARENT_LEVELS.items()]:
        fails.append({"what": "DEFAULT_PARENT_LEVELS differs from Model/Rollup.v ru_default_parents: %r" % (list(br.DEFAULT_PARENT_LEVELS.items()),),
                      "failing_input": None})
    if [list(x) for x in cmap] != [list(x) for x in br.STANDARD_COLUMN_NAME_MAP.items()]:
        fails.append({"what": "STANDARD_COLUMN_NAME_MAP differs from Model/Rollup.v ru_column_map: %r" % (list(br.STANDARD_COLUMN_NAME_MAP.items()),),
                      "failing_input": None})
    rng = ctx.sub("q-sorted")
    for k in range(200):
        n = rng.randint(0, 40)
        sc = [rng.randint(-5, 12) for _ in range(n)]
        tg = [rng.random() < 0.6 for _ in range(n)]
        if _q_sorted(sc, tg) != q_spec(sc, tg, True):
            fails.append({"what": "harness self-test: _q_sorted differs from c01.q_spec on %r %r" % (sc, tg), "failing_input": None})
            break
    return fails, {"rollup_tables_compared": 2}
