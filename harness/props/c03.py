"""C03 — competition and rollup: real mokapot.assign_confidence result files against Model/Confidence.v, and the
files written by the stand-alone tool mokapot.brew_rollup.main against Model/Rollup.v."""
import os
import shutil
import tempfile
from fractions import Fraction
from pathlib import Path

from .. import lib, brewlib
from ..lib import Toks, call_impl
from .c01 import q_spec

PROP = "C03"
RULE = ("generated PSM tables (5-200 rows, spectra with 1-5 PSMs, peptides shared between spectra, optional "
        "ModifiedPeptide / Precursor / PeptideGroup columns, 1-3 collections with or without prefixes, text or Parquet) "
        "with a given score vector through the real read_pin + assign_confidence; deduplication on/off, rollup on/off, "
        "decoy output on/off, confidence / merge-sort chunk sizes 1..n+1; result files parsed and compared row by row "
        "(PSM id, q-value, order, target/decoy file) with the extracted model. Default stream: pairwise distinct scores; "
        "tie stream: only (entity, score) sets are compared. distinct = distinct case; non-trivial = some spectrum has "
        ">= 2 PSMs and some peptide is shared by >= 2 spectra. "
        "Rollup tool: generated source directories (1-4 collections of <name>.targets.<base>s / <name>.decoys.<base>s, base "
        "level psm / precursor / peptide / modifiedpeptide / peptidegroup, text or Parquet, level columns present or absent "
        "under their standard or alias names, a decoys or targets file missing, a stale result file of an earlier run, a "
        "collection whose name starts like the output root) written directly in the result-file layout, or produced by the "
        "real assign_confidence (prefixes a, b, c; do_rollup=True); brew_rollup.main is run on them and every "
        "<root>.targets.<level>s / <root>.decoys.<level>s is compared row by row (PSM id, order, q-value, file) with the "
        "extracted model; tie stream: (entity, score) sets per level; malformed stream: unsorted file, empty file, no file, "
        "both formats, differing schemas, no score column (error kinds compared). compute_rollup_levels is compared with "
        "the model on every base level with the default table and random tables. non-trivial (rollup) = some entity has rows "
        "in two different files")
ASSUMPTIONS = [
    "PEP estimation is replaced by a constant during these runs (oracle of C06); q-values are the TDC q-values",
    "pandas sort_values and the glob order of chunk files only matter among tied scores (excluded from the default stream)",
    "spectrum / level keys enter the model as integer ids of the distinct value tuples",
    "rollup tool: the schema (column names and dtypes) each reader reports for a source file is recorded with pandas / pyarrow "
    "and enters the model as an id (equal ids = equal schemas); Path.glob + sorted = the file names in string order",
]
TRUSTED_EXTRA = ["pandas / pyarrow readers and writers of the intermediate and result files (oracle)"]

LEVEL_COLS = ["ModifiedPeptide", "Precursor", "PeptideGroup"]


def eff_scores(c):
    """the scores by which rows are ranked (higher = better): negated when descs is False"""
    if c.get("descs", True):
        return c["scores"]
    return [[-v for v in s] for s in c["scores"]]


def gen(ctx):
    cases = []
    rng = ctx.sub("conf")
    n_cases = 400 if ctx.thorough else 90
    for k in range(n_cases):
        ncoll = rng.choice([1, 1, 1, 2, 3])
        nkey = rng.choice([1, 2, 2, 4])
        levels = [l for l in LEVEL_COLS if rng.random() < 0.3]
        ties = rng.random() < 0.15
        files, scores = [], []
        for j in range(ncoll):
            n = rng.randint(5, 200 if ctx.thorough else 80) if k % 5 else rng.randint(2, 9)
            f = brewlib.gen_file(rng, n, nkey, file_idx=j, mult=(1, rng.choice([1, 3, 5])), levels=levels,
                                 npep=rng.choice([2, max(2, n // 4), n]), label_enc=rng.choice(["pm1", "01", "bool"]))
            files.append(f)
            if ties:
                scores.append([float(rng.randint(0, max(2, n // 3))) for _ in range(n)])
            else:
                scores.append([float(v) for v in rng.sample(range(-n, 3 * n), n)])
        nmax = max(len(f["targets"]) for f in files)
        chunks = {}
        if rng.random() < 0.75:
            chunks["confidence"] = max(1, rng.choice([1, 2, 3, 7, nmax - 1, nmax, nmax + 1]))
        if rng.random() < 0.4:
            chunks["mergesort"] = max(1, rng.choice([1, 2, 5, nmax + 1]))
        dedup = rng.random() < 0.6
        rollup = rng.random() < 0.75
        cases.append({"fn": "conf", "files": files, "scores": scores, "dedup": dedup, "rollup": rollup,
                      "decoys": rng.random() < 0.6, "prefixes": rng.random() < 0.5 or ncoll == 1 and rng.random() < 0.3,
                      "chunks": chunks, "fmt": rng.choice(["tsv", "tsv", "parquet"]), "workers": rng.choice([1, 1, 3]),
                      "levels": levels, "ties": ties,
                      "tags": ["conf", f"coll={ncoll}", "dedup" if dedup else "nodedup", "rollup" if rollup else "norollup",
                               "ties" if ties else "distinct", "levels=%d" % len(levels),
                               "chunk=" + str(chunks.get("confidence", "default"))]})
    # the stand-alone rollup tool; appended AFTER the assign_confidence cases (C07 re-uses the first cases of this list)
    cases.extend(gen_rollup(ctx))
    return cases


# ----------------------------------------------------------------------------- implementation
def _const_peps(scores, targets, *a, **k):
    import numpy as np
    return np.zeros(len(scores))


def _run_impl(c):
    import numpy as np
    import mokapot
    import mokapot.confidence as conf
    d = tempfile.mkdtemp(prefix="c03_", dir=os.environ.get("VERIF_TMP", "/tmp"))
    old = conf.peps_from_scores
    conf.peps_from_scores = _const_peps
    try:
        paths = [brewlib.write_file(f, d, "coll%d" % i, c["fmt"]) for i, f in enumerate(c["files"])]
        out = Path(d) / "out"
        out.mkdir()
        with brewlib.Chunking(**c.get("chunks", {})):
            dss = mokapot.read_pin(paths, max_workers=1)
            prefixes = ["coll%d" % i for i in range(len(paths))] if c["prefixes"] else [None] * len(paths)
            mokapot.assign_confidence(
                dss, max_workers=c.get("workers", 1), scores=[np.array(s, dtype=float) for s in c["scores"]],
                descs=[bool(c.get("descs", True))] * len(paths),
                eval_fdr=0.5, dest_dir=out, prefixes=prefixes, decoys=c["decoys"],
                deduplication=c["dedup"], do_rollup=c["rollup"])
        res = {"files": {}, "leftovers": []}
        for fn in sorted(os.listdir(out)):
            parts = fn.split(".")
            if "targets" in parts or "decoys" in parts:
                res["files"][fn] = _parse(out / fn, c)
            else:
                res["leftovers"].append(fn)
        return res
    finally:
        conf.peps_from_scores = old
        shutil.rmtree(d, ignore_errors=True)


def _parse(path, c):
    import pandas as pd
    if path.suffix == ".parquet":
        df = pd.read_parquet(path)
    else:
        df = pd.read_csv(path, sep="\t", float_precision="round_trip")
    rows = []
    for _, r in df.iterrows():
        rows.append({"id": str(r["PSMId"]), "peptide": str(r["peptide"]), "proteins": str(r["proteinIds"]),
                     "score": float(r["score"]), "q": Fraction(float(r["q-value"])),
                     "extra": {lv: str(r[lv]) for lv in c["levels"] if lv in df.columns}})
    return rows


# ----------------------------------------------------------------------------- model
def _level_names(c):
    names = ["psms"]
    if c["rollup"]:
        names += ["peptides"] + [lv.lower() + "s" for lv in c["levels"]]
    return names


def _rows_for_model(f, scores, c):
    cols = [x for x in ("filename", "ScanNr", "ret_time", "ExpMass") if x in f["data"]]
    n = len(f["targets"])
    spec_ids, keymaps = {}, [{} for _ in range(1 + len(c["levels"]))]
    out = []
    from ..props.c01 import exact_ints
    sc = exact_ints(scores)
    for r in range(n):
        sk = tuple(f["data"][x][r] for x in cols)
        sp = spec_ids.setdefault(sk, len(spec_ids) + 1)
        ks = []
        for li, col in enumerate(["Peptide"] + c["levels"]):
            v = f["data"][col][r]
            ks.append(keymaps[li].setdefault(v, len(keymaps[li]) + 1))
        out.append("%s %s %s %s %s" % (lib.z(r), lib.z(sp), lib.lst(ks), lib.b(f["targets"][r]), lib.z(sc[r])))
    return "%d %s" % (n, " ".join(out))


def _model(c):
    nl = len(_level_names(c))
    lines = []
    for j, f in enumerate(c["files"]):
        cs = c.get("chunks", {}).get("confidence", 1000000)
        lines.append("c03.confidence %s %s %s %s" % (lib.z(cs), lib.b(c["dedup"]), lib.z(nl), _rows_for_model(f, eff_scores(c)[j], c)))
    per_coll = []
    for line in lib.run_driver(lines):
        t = Toks(line)
        lv = t.lst(lambda: (t.lst(lambda: (t.z(), t.q())), t.lst(lambda: (t.z(), t.q()))))
        per_coll.append(lv)
    files = {}
    names = _level_names(c)
    for j, lv in enumerate(per_coll):
        pre = ("coll%d." % j) if c["prefixes"] else ""
        for li, (tg, dc) in enumerate(lv):
            for kind, rows in (("targets", tg), ("decoys", dc)):
                if kind == "decoys" and not c["decoys"]:
                    continue
                fn = "%s%s.%s" % (pre, kind, names[li])
                files.setdefault(fn, []).extend(("f%d_psm%d" % (j, r), Fraction(float(q))) for r, q in rows)
    return files


def run_case(c):
    if c["fn"] in RU_FNS:
        return ru_run_case(c)
    got = call_impl(_run_impl, c)
    model = ("ok", {k: [(i, q) for i, q in v] for k, v in _model(c).items()})
    if got[0] == "err":
        return model, got
    impl_files = got[1]["files"]
    if c["ties"]:
        # any tied winner is accepted: a tied target/decoy pair may swap files, so compare the union
        # of the target and decoy file of a level (only possible when decoys are written)
        def merge(d, ent, sc):
            out = {}
            for k, v in d.items():
                lvl = k.replace("targets.", "").replace("decoys.", "")
                out.setdefault(lvl, []).extend((ent(k, x), sc(x)) for x in v)
            # a different tied winner at PSM level legitimately changes the higher levels: compare PSM level only
            return {k: (sorted(v) if (c["decoys"] and k.endswith("psms")) else True) for k, v in out.items()}
        canon_i = merge(impl_files, lambda k, r: _entity(c, k, r["id"]), lambda r: r["score"])
        canon_m = merge(model[1], lambda k, x: _entity(c, k, x[0]), lambda x: _score(c, x[0]))
        return ("ok", {"tie-canonical": canon_m}), ("ok", {"tie-canonical": canon_i, "raw": got[1]})
    canon = {k: [(r["id"], r["q"]) for r in v] for k, v in impl_files.items()}
    return model, ("ok", {"files": canon, "raw": got[1]})


def _locate(pid):
    j, r = pid[1:].split("_psm")
    return int(j), int(r)


def _score(c, pid):
    j, r = _locate(pid)
    return float(eff_scores(c)[j][r])


def _entity(c, fn, pid):
    """the key of the row at the level of file fn"""
    j, r = _locate(pid)
    f = c["files"][j]
    level = fn.split(".")[-1]
    if level == "psms":
        cols = [x for x in ("filename", "ScanNr", "ret_time", "ExpMass") if x in f["data"]]
        return str((j,) + tuple(f["data"][x][r] for x in cols)) if c["dedup"] else pid
    names = {"peptides": "Peptide"}
    names.update({lv.lower() + "s": lv for lv in c["levels"]})
    return str((j, f["data"][names[level]][r]))


def same(c, m, i):
    if c["fn"] in RU_FNS:
        return ru_same(c, m, i)
    if m[0] != i[0]:
        return False
    if i[0] == "err":
        return False
    if c["ties"]:
        return m[1]["tie-canonical"] == i[1]["tie-canonical"]
    a = {k: [(x, y) for x, y in v] for k, v in m[1].items()}
    b = {k: [(x, y) for x, y in v] for k, v in i[1]["files"].items()}
    return lib.jsonable(a) == lib.jsonable(b) and not i[1]["raw"]["leftovers"]


def nontrivial(c):
    if c["fn"] in RU_FNS:
        return ru_nontrivial(c)
    for f in c["files"]:
        cols = [x for x in ("filename", "ScanNr", "ret_time", "ExpMass") if x in f["data"]]
        n = len(f["targets"])
        specs = [tuple(f["data"][x][r] for x in cols) for r in range(n)]
        if len(set(specs)) < n:
            pep_specs = {}
            for r in range(n):
                pep_specs.setdefault(f["data"]["Peptide"][r], set()).add(specs[r])
            if any(len(v) > 1 for v in pep_specs.values()):
                return True
    return False


# ----------------------------------------------------------------------------- the property itself
def oracle(c, i):
    if c["fn"] in RU_FNS:
        return ru_oracle(c, i)
    if i[0] != "ok":
        return f"assign_confidence failed: {i[1]}"
    raw = i[1]["raw"]
    files = raw["files"]
    names = _level_names(c)
    ncoll = len(c["files"])
    if raw["leftovers"]:
        return f"intermediate files remain: {raw['leftovers']}"
    for j in range(ncoll) if c["prefixes"] else [None]:
        pre = ("coll%d." % j) if j is not None else ""
        colls = [j] if j is not None else list(range(ncoll))
        retained = None
        for li, level in enumerate(names):
            tg = files.get("%stargets.%s" % (pre, level))
            if tg is None:
                return f"missing result file {pre}targets.{level}"
            dc = files.get("%sdecoys.%s" % (pre, level), []) if c["decoys"] else None
            # split by collection (un-prefixed outputs are appended collection after collection)
            for jj in colls:
                f = c["files"][jj]
                t_rows = [r for r in tg if _locate(r["id"])[0] == jj]
                d_rows = [r for r in dc if _locate(r["id"])[0] == jj] if dc is not None else None
                for r in t_rows + (d_rows or []):
                    _, ri = _locate(r["id"])
                    if r["peptide"] != f["data"]["Peptide"][ri] or r["proteins"] != f["data"]["Proteins"][ri] \
                            or r["score"] not in (float(eff_scores(c)[jj][ri]), float(c["scores"][jj][ri])):
                        return f"row {r['id']} of {level} does not carry the peptide/proteins/score of one input PSM"
                if any(not f["targets"][_locate(r["id"])[1]] for r in t_rows):
                    return f"decoy in targets.{level}"
                if d_rows is not None and any(f["targets"][_locate(r["id"])[1]] for r in d_rows):
                    return f"target in decoys.{level}"
                for rows in (t_rows, d_rows or []):
                    sc = [eff_scores(c)[jj][_locate(r["id"])[1]] for r in rows]
                    if any(a < b for a, b in zip(sc, sc[1:])):
                        return f"{level}: rows are not ranked best first" + ("" if c.get("descs", True) else " (lower is better: low values must come first)")
                if d_rows is None:
                    continue          # cannot reconstruct the retained set without the decoy file
                ids = [_locate(r["id"])[1] for r in t_rows + d_rows]
                if len(set(ids)) != len(ids):
                    return f"{level}: a PSM appears twice"
                # expected retained set
                key_fn = "%stargets.%s" % (pre, level)
                if level == "psms":
                    universe = list(range(len(f["targets"])))
                else:
                    universe = retained[jj]
                groups = {}
                for ri in universe:
                    groups.setdefault(_entity(c, key_fn, "f%d_psm%d" % (jj, ri)), []).append(ri)
                if len(ids) != len(groups):
                    return f"{level}: {len(ids)} rows but {len(groups)} distinct entities among the retained PSMs"
                for ri in ids:
                    g = groups.get(_entity(c, key_fn, "f%d_psm%d" % (jj, ri)))
                    if g is None or ri not in g:
                        return f"{level}: row f{jj}_psm{ri} is not among the retained PSMs"
                    if eff_scores(c)[jj][ri] != max(eff_scores(c)[jj][x] for x in g):
                        return f"{level}: row f{jj}_psm{ri} is not a highest-scoring PSM of its entity"
                if level == "psms":
                    retained = retained or {}
                    retained[jj] = ids
                # q-values = C01 formula on exactly these rows
                from .c01 import exact_ints
                allr = sorted(t_rows + d_rows, key=lambda r: -eff_scores(c)[jj][_locate(r["id"])[1]])
                spec = q_spec(exact_ints([eff_scores(c)[jj][_locate(r["id"])[1]] for r in allr]), [f["targets"][_locate(r["id"])[1]] for r in allr], True)
                for r, q in zip(allr, spec):
                    if Fraction(float(q)) != r["q"]:
                        return f"{level}: q-value of {r['id']} is {float(r['q'])}, C01 formula on the retained rows gives {float(q)}"
    return None


def finding_key(c, m, i):
    return None


# ============================================================================= the stand-alone rollup tool
RU_FNS = ("rollup", "rollup_ac", "rollup_levels")
RU_BASES = ["psm", "precursor", "peptide", "modifiedpeptide", "peptidegroup"]
# vocabulary of the property, used by generators and by the oracle only (the model has its own tables,
# Model/Rollup.v ru_default_parents / ru_column_map, compared with mokapot's in extra_checks)
RU_PARENT = {"precursor": "psm", "modified_peptide": "precursor", "peptide": "modified_peptide", "peptide_group": "precursor"}
RU_ALIASES = {"psm_id": ["PSMId", "SpecId", "psm_id"], "peptide": ["peptide", "Peptide"],
              "precursor": ["Precursor", "pcm", "PCM", "precursor"],
              "modified_peptide": ["ModifiedPeptide", "modifiedpeptide", "modified_peptide"],
              "peptide_group": ["PeptideGroup", "peptidegroup", "peptide_group"], "q_value": ["q-value", "q_value"]}
RU_STD = {a: k for k, v in RU_ALIASES.items() for a in v}
RU_TAIL = ["score", "q-value", "posterior_error_prob", "proteinIds"]


def _ru_rows(rng, n, columns, ties, id0=0, npep=None):
    npep = npep or rng.choice([2, max(2, n // 4), n])
    # an unmodified peptide, its modified form and its group often are the same string: the levels must not share state
    shared = rng.random() < 0.35
    if ties:
        scores = [rng.randint(0, max(2, n // 3)) * 0.5 for _ in range(n)]
    else:
        scores = [v * 0.5 for v in rng.sample(range(-n, 3 * n + 2), n)]
    rows = []
    for k in range(n):
        r = []
        for col in columns:
            std = RU_STD.get(col, col)
            if std == "psm_id":
                r.append("p%d" % (id0 + k))
            elif std == "peptide":
                r.append("PEP%d" % rng.randint(0, npep))
            elif std in ("precursor", "modified_peptide", "peptide_group"):
                r.append("%s%d" % ("PEP" if shared else std[:2], rng.randint(0, max(1, npep // 2))))
            elif std == "score":
                r.append(scores[k])
            elif std in ("q_value", "posterior_error_prob"):
                r.append(rng.randint(0, 8) / 8.0)
            else:
                r.append("prot%d" % rng.randint(0, 5))
        rows.append(r)
    return rows


def _ru_sorted(rows, si):
    return sorted(rows, key=lambda r: -r[si])


RU_MALFORMED = ["unsorted", "empty", "unsorted", "only_empty", "unsorted", "nofiles", "unsorted", "both", "empty", "schema",
                "unsorted", "noscore"]


def _ru_gen_direct(rng, stream, big=False, malform=None):
    base = rng.choice(["psm"] * 5 + ["precursor"] * 2 + ["peptide"] * 2 + ["modifiedpeptide", "peptidegroup"])
    fmt = rng.choice(["tsv", "tsv", "parquet"])
    root = rng.choice(["rollup", "rollup", "rollup", "r", "out.x"])
    columns = [rng.choice(RU_ALIASES["psm_id"][:2] * 2 + ["psm_id"])]
    if rng.random() < 0.9:
        columns.append(rng.choice(["peptide", "peptide", "Peptide"]))
    lv = [rng.choice(RU_ALIASES[k]) for k in ("precursor", "modified_peptide", "peptide_group") if rng.random() < 0.55]
    rng.shuffle(lv)
    columns += lv + RU_TAIL
    si = columns.index("score")
    ncoll = rng.choice([1, 2, 2, 3, 4])
    names = rng.sample(["a", "b", "c", "d", "run1", "x.y"], ncoll)
    variant = []
    if rng.random() < 0.1:
        names[0] = root + "x"              # starts like the output root but is not a result file of an earlier run
        variant.append("rootlike")
    slots = [(nm, kind) for nm in names for kind in ("targets", "decoys")]
    if len(slots) > 1 and rng.random() < 0.15:
        slots.remove(rng.choice([s for s in slots if s[1] == "decoys"]))
        variant.append("nodecoys")
    if len(slots) > 1 and rng.random() < 0.07:
        slots.remove(rng.choice([s for s in slots if s[1] == "targets"]))
        variant.append("notargets")
    n = rng.randint(len(slots), 60) if not big else rng.randint(1100, 1500)
    if rng.random() < 0.15 and not big:
        n = rng.randint(len(slots), len(slots) + 3)
    ties = stream == "ties"
    rows = _ru_rows(rng, n, columns, ties)
    per = {s: [] for s in slots}
    order = list(range(n))
    rng.shuffle(order)
    for j, k in enumerate(order):
        s = slots[j] if j < len(slots) else rng.choice(slots)
        per[s].append(rows[k])
    files = [{"name": "%s.%s.%ss" % (nm, kind, base), "rows": _ru_sorted(per[(nm, kind)], si)} for nm, kind in slots]
    if rng.random() < 0.2:
        # result files of an earlier run in the source directory: must be ignored
        hi = max(r[si] for r in rows) + 1.0
        for kind in rng.choice([["targets"], ["decoys"], ["targets", "decoys"]]):
            st = [list(rng.choice(rows)) for _ in range(rng.randint(1, 2))]
            for j, r in enumerate(st):
                r[0] = "stale%d%s" % (j, kind[0])
                r[si] = hi + (1 - j) + (0.25 if kind == "decoys" else 0.0)
            files.append({"name": "%s.%s.%ss" % (root, kind, base), "rows": _ru_sorted(st, si)})
        variant.append("stale")
    c = {"fn": "rollup", "base": base, "fmt": fmt, "root": root, "columns": columns, "files": files, "stream": stream,
         "ties": ties, "variant": variant}
    if stream == "malformed":
        _ru_malform(rng, c, si, malform)
    c["tags"] = ["rollup_tool", "ru-" + stream, "ru-base=" + base, "ru-" + fmt, "ru-coll=%d" % ncoll,
                 "ru-levelcols=%d" % len(lv)] + ["ru-" + v for v in c["variant"]]
    return c


def _ru_malform(rng, c, si, kind):
    files = [f for f in c["files"] if not f["name"].startswith(c["root"] + ".")]
    kind = kind or rng.choice(RU_MALFORMED)
    if kind == "schema" and len(files) < 2:
        kind = "unsorted"
    if kind == "unsorted":
        cand = [f for f in files if len({r[si] for r in f["rows"]}) >= 2]
        if not cand:
            kind = "empty"
        else:
            f = rng.choice(cand)
            rows = f["rows"]
            while all(a[si] >= b[si] for a, b in zip(rows, rows[1:])):
                i, j = rng.sample(range(len(rows)), 2)
                rows[i], rows[j] = rows[j], rows[i]
    if kind == "empty":
        rng.choice(files)["rows"] = []
    elif kind == "only_empty":
        f = rng.choice(files)
        f["rows"] = []
        c["files"] = [f]
    elif kind == "nofiles":
        if rng.random() < 0.5:
            c["files"] = []
        else:
            for f in c["files"]:
                f["name"] = f["name"][:-1] + "x"          # *.targets.psmx: matched by no pattern
    elif kind == "both":
        f = dict(rng.choice(files))
        f["fmt"] = "parquet" if c["fmt"] == "tsv" else "tsv"
        c["files"].append(f)
    elif kind == "schema":
        f = rng.choice(files)
        drop = rng.choice([k for k, col in enumerate(c["columns"]) if col != "score" and k != 0])
        f["columns"] = [col for k, col in enumerate(c["columns"]) if k != drop]
        f["rows"] = [[v for k, v in enumerate(r) if k != drop] for r in f["rows"]]
    elif kind == "noscore":
        for f in c["files"]:
            f["rows"] = [[v for k, v in enumerate(r) if k != si] for r in f["rows"]]
        c["columns"] = [col for col in c["columns"] if col != "score"]
    c["variant"].append(kind)


def _ru_gen_ac(rng):
    ncoll = rng.choice([1, 2, 2, 3])
    levels = [l for l in LEVEL_COLS if rng.random() < 0.5]
    files, scores = [], []
    nkey = rng.choice([1, 2, 4])
    for j in range(ncoll):
        n = rng.randint(15, 60)
        files.append(brewlib.gen_file(rng, n, nkey, file_idx=j, mult=(1, rng.choice([1, 3])), levels=levels,
                                      npep=rng.choice([3, max(2, n // 4)]), label_enc="pm1"))
        scores.append([float(v) for v in rng.sample(range(-n, 3 * n), n)])
    # distinct scores over ALL collections (the merged stream of the rollup tool pools them)
    seen = set()
    for sc in scores:
        for k, v in enumerate(sc):
            while v in seen:
                v += 0.25
            seen.add(v)
            sc[k] = v
    bases = ["psm", "psm", "peptide"] + (["precursor", "precursor"] if "Precursor" in levels else [])
    base = rng.choice(bases)
    return {"fn": "rollup_ac", "files": files, "scores": scores, "levels": levels, "dedup": rng.random() < 0.6,
            "decoys": rng.random() < 0.85, "pin_fmt": rng.choice(["tsv", "parquet"]), "base": base, "root": "rollup",
            "stream": "default", "ties": False, "variant": [],
            "tags": ["rollup_ac", "ru-base=" + base, "ru-coll=%d" % ncoll, "ru-levelcols=%d" % len(levels)]}


def _ru_gen_levels(rng, thorough):
    cases = []
    names = ["psm", "precursor", "modified_peptide", "peptide", "peptide_group", "a", "b", "c", "d", "e"]
    for base in RU_BASES + ["modified_peptide", "peptide_group", "protein", ""]:
        cases.append({"fn": "rollup_levels", "parents": None, "base": base, "tags": ["rollup_levels", "ru-default-table"]})
    for k in range(300 if thorough else 120):
        pool = names if rng.random() < 0.5 else names[5:]
        m = rng.randint(0, 8)
        if k % 4 == 0 and m >= 2:
            # a chain listed child-before-parent: one level per sweep
            chain = rng.sample(pool, min(len(pool), m + 1))
            parents = [[chain[i + 1], chain[i]] for i in range(len(chain) - 1)][::-1]
            base = chain[0] if rng.random() < 0.8 else rng.choice(pool)
        else:
            children = rng.sample(pool, min(m, len(pool)))
            parents = [[ch, rng.choice(pool)] for ch in children]       # cycles and self-parents included
            base = rng.choice(pool)
        cases.append({"fn": "rollup_levels", "parents": parents, "base": base,
                      "tags": ["rollup_levels", "ru-random-table", "ru-table=%d" % len(parents)]})
    return cases


def gen_rollup(ctx):
    cases = []
    rng = ctx.sub("rollup")
    for k in range(260 if ctx.thorough else 90):
        cases.append(_ru_gen_direct(rng, "default"))
    for k in range(80 if ctx.thorough else 30):
        cases.append(_ru_gen_direct(rng, "ties"))
    for k in range(140 if ctx.thorough else 50):
        cases.append(_ru_gen_direct(rng, "malformed", malform=RU_MALFORMED[k % len(RU_MALFORMED)]))
    if ctx.thorough:
        for k in range(2):     # longer than the 1000-row write buffers of the tool
            cases.append(_ru_gen_direct(rng, "default", big=True))
    rng = ctx.sub("rollup_ac")
    for k in range(60 if ctx.thorough else 18):
        cases.append(_ru_gen_ac(rng))
    cases.extend(_ru_gen_levels(ctx.sub("rollup_levels"), ctx.thorough))
    return cases


# ----------------------------------------------------------------------------- running the real tool
def _ru_write_file(path, columns, rows, fmt):
    import pandas as pd
    if rows:
        df = pd.DataFrame(rows, columns=columns)
    else:
        # same column types as a file with rows (what a typed writer produces)
        dummy = [0.5 if RU_STD.get(col, col) in ("score", "q_value", "posterior_error_prob") else "x" for col in columns]
        df = pd.DataFrame([dummy], columns=columns).iloc[0:0]
    if fmt == "parquet":
        df.to_parquet(path, index=False)
    else:
        df.to_csv(path, sep="\t", index=False)


def _ru_read_file(path):
    """columns and cells of a result file (strings and floats)"""
    import pandas as pd
    if str(path).endswith(".parquet"):
        df = pd.read_parquet(path)
    else:
        df = pd.read_csv(path, sep="\t", float_precision="round_trip", index_col=False)
    cols = [str(x) for x in df.columns]
    rows = []
    for rec in df.itertuples(index=False, name=None):
        rows.append([float(v) if isinstance(v, (int, float)) and not isinstance(v, bool) else str(v) for v in rec])
    return cols, rows


def _ru_schema(path):
    """what the tool's readers report as column names / column types of the file (oracle: pandas / pyarrow)"""
    if str(path).endswith(".parquet"):
        import pyarrow.parquet as pq
        sch = pq.ParquetFile(path).schema.to_arrow_schema()
        return repr([(n, str(t)) for n, t in zip(sch.names, sch.types)])
    import pandas as pd
    df = pd.read_csv(path, sep="\t", index_col=False, nrows=2)
    return repr([(str(n), str(t)) for n, t in df.dtypes.items()])


def _ru_make_src(c, src):
    """write / produce the source directory; returns its description {name: {columns, rows, schema}}"""
    import numpy as np
    desc = {}
    if c["fn"] == "rollup":
        for f in c["files"]:
            fmt = f.get("fmt", c["fmt"])
            name = f["name"] + (".parquet" if fmt == "parquet" else "")
            cols = f.get("columns", c["columns"])
            _ru_write_file(src / name, cols, f["rows"], fmt)
            desc[name] = {"columns": cols, "rows": f["rows"]}
    else:
        import mokapot
        import mokapot.confidence as conf
        pins = src.parent / "pins"
        pins.mkdir()
        old = conf.peps_from_scores
        conf.peps_from_scores = _const_peps
        try:
            paths = [brewlib.write_file(f, pins, "coll%d" % i, c["pin_fmt"]) for i, f in enumerate(c["files"])]
            dss = mokapot.read_pin(paths, max_workers=1)
            mokapot.assign_confidence(dss, max_workers=1, scores=[np.array(s, dtype=float) for s in c["scores"]],
                                      eval_fdr=0.5, dest_dir=src, prefixes=["abc"[i] for i in range(len(paths))],
                                      decoys=c["decoys"], deduplication=c["dedup"], do_rollup=True)
        finally:
            conf.peps_from_scores = old
        for name in sorted(os.listdir(src)):
            cols, rows = _ru_read_file(src / name)
            desc[name] = {"columns": cols, "rows": rows}
    for name in desc:
        desc[name]["schema"] = _ru_schema(src / name)
    return desc


def _ru_listing(desc, base):
    """the file selection of do_rollup up to the root filter (which is the model's): names in sorted order"""
    import fnmatch
    names = sorted(desc)
    has_parquet = any(fnmatch.fnmatchcase(n, "*.%ss.parquet" % base) for n in names)
    has_text = any(fnmatch.fnmatchcase(n, "*.%ss" % base) for n in names)
    suffix = ".parquet" if has_parquet else ""
    tf = [n for n in names if fnmatch.fnmatchcase(n, "*.targets.%ss%s" % (base, suffix))]
    df = [n for n in names if fnmatch.fnmatchcase(n, "*.decoys.%ss%s" % (base, suffix))]
    return has_parquet, has_text, suffix, tf, df


def _ru_impl(c):
    import mokapot.brew_rollup as br
    d = Path(tempfile.mkdtemp(prefix="c03ru_", dir=os.environ.get("VERIF_TMP", "/tmp")))
    old = br.peps_from_scores
    br.peps_from_scores = _const_peps
    try:
        src, dest = d / "src", d / "dest"
        src.mkdir()
        dest.mkdir()
        desc = _ru_make_src(c, src)

        def run():
            br.main(["--level", c["base"], "--src_dir", str(src), "--dest_dir", str(dest), "--file_root", c["root"],
                     "--verbosity", "0"])
            raw = {}
            for name in sorted(os.listdir(dest)):
                if ".temp." in name:
                    continue
                cols, rows = _ru_read_file(dest / name)
                raw[name] = {"columns": cols, "rows": rows}
            return raw
        return desc, call_impl(run)
    finally:
        br.peps_from_scores = old
        shutil.rmtree(d, ignore_errors=True)


# ----------------------------------------------------------------------------- model
_RU_CONSTS = []


def _ru_model_consts():
    if not _RU_CONSTS:
        t = Toks(lib.run_driver(["c03.rollup_consts"])[0])
        _RU_CONSTS.append((t.lst(lambda: (t.s(), t.s())), t.lst(lambda: (t.s(), t.s()))))
    return _RU_CONSTS[0]


def _ru_model(c, desc):
    """-> ('ok', [(level, [(row, q)], [(row, q)])]) | ('err', kind); rows = (file name, row index)"""
    from .c01 import exact_ints
    has_parquet, has_text, suffix, tf, df = _ru_listing(desc, c["base"])
    order = tf + df
    allsc, where = [], []
    for name in order:
        cols = desc[name]["columns"]
        si = cols.index("score") if "score" in cols else None
        for k, r in enumerate(desc[name]["rows"]):
            allsc.append(r[si] if si is not None else 0.0)
            where.append((name, k))
    exact = exact_ints(allsc) if allsc else []
    vid, sid = {}, {}
    gid = 0
    enc = {}
    for name in order:
        cols = desc[name]["columns"]
        rows = []
        for r in desc[name]["rows"]:
            keys = [vid.setdefault((col, v), len(vid) + 1) for col, v in zip(cols, r)]
            rows.append("%s %s %s %s %s" % (lib.z(gid), lib.z(0), lib.lst(keys), lib.b(False), lib.z(exact[gid])))
            gid += 1
        schema = sid.setdefault(desc[name]["schema"], len(sid) + 1)
        enc[name] = "%s %s %d %s" % (lib.s(name), lib.z(schema), len(rows), " ".join(rows))
    raw_cols = desc[order[0]]["columns"] if order else []
    line = "c03.rollup %s %s %s %s %s %s %s" % (
        lib.b(has_parquet), lib.b(has_text), lib.s(c["root"]), lib.s(c["base"]), lib.lst(raw_cols, lib.s),
        " ".join([str(len(tf))] + [enc[n] for n in tf]), " ".join([str(len(df))] + [enc[n] for n in df]))
    t = Toks(lib.run_driver([line])[0])
    res = t.result(lambda: t.lst(lambda: (t.s(), t.lst(lambda: (t.z(), t.q())), t.lst(lambda: (t.z(), t.q())))))
    if res[0] == "err":
        return res, suffix
    return ("ok", [(lv, [(where[g], q) for g, q in tg], [(where[g], q) for g, q in dc]) for lv, tg, dc in res[1]]), suffix


def _ru_cell(desc, w, std):
    """the cell of input row w = (file, index) in the column whose standard name is std"""
    cols = desc[w[0]]["columns"]
    for k, col in enumerate(cols):
        if RU_STD.get(col, col) == std:
            return desc[w[0]]["rows"][w[1]][k]
    return None


def _ru_levels_impl(c):
    import mokapot.brew_rollup as br
    if c["parents"] is None:
        return br.compute_rollup_levels(c["base"])
    return br.compute_rollup_levels(c["base"], {ch: p for ch, p in c["parents"]})


def ru_run_case(c):
    if c["fn"] == "rollup_levels":
        parents = c["parents"] if c["parents"] is not None else _ru_model_consts()[0]
        line = "c03.rollup_levels %s %s" % (lib.lst(parents, lambda cp: lib.s(cp[0]) + " " + lib.s(cp[1])), lib.s(c["base"]))
        t = Toks(lib.run_driver([line])[0])
        return t.result(lambda: t.lst(t.s)), call_impl(_ru_levels_impl, c)
    desc, got = _ru_impl(c)
    m, suffix = _ru_model(c, desc)
    if got[0] == "err":
        return m, got
    if m[0] == "err":
        return m, ("ok", {"raw": got[1], "desc": desc})
    raw = got[1]
    root = c["root"]
    if c["ties"]:
        # any tied winner is accepted (a tied target / decoy pair may even swap files): per level the
        # (entity, score) pairs of the target and decoy file together
        cm, ci = {}, {}
        for lv, tg, dc in m[1]:
            cm[lv] = sorted((str(_ru_cell(desc, w, lv)), float(_ru_cell(desc, w, "score"))) for w, _ in tg + dc)
        for name, f in raw.items():
            lv = name[len(root) + 1:].split(".", 1)[1]
            lv = lv[:-len(suffix)] if suffix else lv
            lv = lv[:-1]
            for r in f["rows"]:
                rec = dict(zip(f["columns"], r))
                ci.setdefault(lv, []).append((str(rec.get(lv)), float(rec.get("score"))))
        ci = {k: sorted(v) for k, v in ci.items()}
        names_m = sorted("%s.%s.%ss%s" % (root, kind, lv, suffix) for lv, _, _ in m[1] for kind in ("targets", "decoys"))
        return (("ok", {"tie-canonical": cm, "names": names_m}),
                ("ok", {"tie-canonical": ci, "names": sorted(raw), "raw": raw, "desc": desc}))
    files_m = {}
    for lv, tg, dc in m[1]:
        for kind, rows in (("targets", tg), ("decoys", dc)):
            files_m["%s.%s.%ss%s" % (root, kind, lv, suffix)] = [(str(_ru_cell(desc, w, "psm_id")), Fraction(float(q))) for w, q in rows]
    files_i = {}
    for name, f in raw.items():
        recs = [dict(zip(f["columns"], r)) for r in f["rows"]]
        files_i[name] = [(str(rec.get("psm_id")), Fraction(rec["q_value"]) if "q_value" in rec else None) for rec in recs]
    return ("ok", {"files": files_m}), ("ok", {"files": files_i, "raw": raw, "desc": desc})


def ru_same(c, m, i):
    if c["fn"] == "rollup_levels":
        return lib.jsonable(m) == lib.jsonable(i)
    if m[0] != i[0]:
        return False
    if m[0] == "err":
        return m[1] == i[1]
    if c["ties"]:
        return lib.jsonable(m[1]["tie-canonical"]) == lib.jsonable(i[1]["tie-canonical"]) and m[1]["names"] == i[1]["names"]
    return lib.jsonable(m[1]["files"]) == lib.jsonable(i[1]["files"])


def ru_nontrivial(c):
    if c["fn"] == "rollup_levels":
        return c["parents"] is not None and len(c["parents"]) >= 2
    if c["fn"] == "rollup_ac":
        return len(c["files"]) >= 2
    # some entity of some level column has rows in two different files
    for k, col in enumerate(c["columns"]):
        if RU_STD.get(col, col) in ("peptide", "precursor", "modified_peptide", "peptide_group"):
            owner = {}
            for f in c["files"]:
                if "columns" in f:
                    continue
                for r in f["rows"]:
                    if owner.setdefault(r[k], f["name"]) != f["name"]:
                        return True
    return False


# ----------------------------------------------------------------------------- the property itself (rollup tool)
def _ru_descendants(base, parent):
    out = [base]
    changed = True
    while changed:
        changed = False
        for ch, p in parent.items():
            if p in out and ch not in out:
                out.append(ch)
                changed = True
    return out


def ru_oracle(c, i):
    if c["fn"] == "rollup_levels":
        if i[0] != "ok":
            return f"compute_rollup_levels failed: {i[1]}"
        lv = list(i[1])
        parent = RU_PARENT if c["parents"] is None else {ch: p for ch, p in c["parents"]}
        want = _ru_descendants(c["base"], parent)
        if not lv or lv[0] != c["base"]:
            return "the result does not start with the base level"
        if len(set(lv)) != len(lv):
            return "a level is listed twice"
        if set(lv) != set(want):
            return f"levels {lv} are not the descendants {sorted(want)} of the base level"
        return None
    if i[0] != "ok":
        if c["fn"] == "rollup" and c["stream"] in ("default", "ties"):
            return f"brew_rollup failed ({i[1]}) on sorted, non-empty result files with equal columns"
        return None
    desc, raw = i[1]["desc"], i[1]["raw"]
    base, root = c["base"], c["root"]
    has_parquet, has_text, suffix, tf, df = _ru_listing(desc, base)
    sel = [(n, True) for n in tf if not n.startswith(root + ".")] + [(n, False) for n in df if not n.startswith(root + ".")]
    pool = []
    for name, is_t in sel:
        cols = desc[name]["columns"]
        if "score" not in cols:
            return None
        si = cols.index("score")
        sc = [r[si] for r in desc[name]["rows"]]
        if any(a < b for a, b in zip(sc, sc[1:])):
            return f"{name} is not in descending score order but the tool produced result files"
        for k in range(len(sc)):
            pool.append(((name, k), is_t))
    if not sel or any(not desc[n]["rows"] for n, _ in sel) or len({desc[n]["schema"] for n, _ in sel}) > 1:
        return None
    std_cols = [RU_STD.get(col, col) for col in desc[sel[0][0]]["columns"]]
    levels = [lv for lv in _ru_descendants(base, RU_PARENT) if lv in std_cols]
    want_names = sorted("%s.%s.%ss%s" % (root, kind, lv, suffix) for lv in levels for kind in ("targets", "decoys"))
    if sorted(raw) != want_names:
        return f"result files {sorted(raw)}; expected {want_names}"
    from .c01 import exact_ints
    by_id = {str(_ru_cell(desc, w, "psm_id")): (w, is_t) for w, is_t in pool}
    for lv in levels:
        got = []
        for kind in ("targets", "decoys"):
            f = raw["%s.%s.%ss%s" % (root, kind, lv, suffix)]
            recs = [dict(zip(f["columns"], r)) for r in f["rows"]]
            sc = [rec["score"] for rec in recs]
            if any(a < b for a, b in zip(sc, sc[1:])):
                return f"{kind}.{lv}s: rows are not ranked best first"
            for rec in recs:
                hit = by_id.get(str(rec.get("psm_id")))
                if hit is None:
                    return f"{kind}.{lv}s: row {rec.get('psm_id')} is not a row of a selected input file"
                w, is_t = hit
                if is_t != (kind == "targets"):
                    return f"{kind}.{lv}s: row {rec.get('psm_id')} comes from a {'targets' if is_t else 'decoys'} file"
                for col, v in zip(desc[w[0]]["columns"], desc[w[0]]["rows"][w[1]]):
                    std = RU_STD.get(col, col)
                    if std in ("q_value", "posterior_error_prob"):
                        continue
                    if rec.get(std) != v:
                        return f"{kind}.{lv}s: row {rec.get('psm_id')} column {std} is {rec.get(std)!r}, input has {v!r}"
                got.append((w, is_t, rec))
        ids = [w for w, _, _ in got]
        if len(set(ids)) != len(ids):
            return f"{lv}s: a row appears twice"
        groups = {}
        for w, _ in pool:
            groups.setdefault(_ru_cell(desc, w, lv), []).append(w)
        if len(got) != len(groups):
            return f"{lv}s: {len(got)} rows but {len(groups)} distinct entities among all input rows"
        for w, _, _ in got:
            g = groups[_ru_cell(desc, w, lv)]
            if _ru_cell(desc, w, "score") != max(_ru_cell(desc, x, "score") for x in g):
                return f"{lv}s: row {_ru_cell(desc, w, 'psm_id')} is not a highest-scoring row of its entity over all input files"
        spec = q_spec(exact_ints([_ru_cell(desc, w, "score") for w, _, _ in got]), [t for _, t, _ in got], True)
        for (w, _, rec), q in zip(got, spec):
            if Fraction(float(q)) != Fraction(rec["q_value"]):
                return f"{lv}s: q-value of {rec.get('psm_id')} is {rec['q_value']}, C01 formula on the retained rows gives {float(q)}"
    return None


def extra_checks(ctx):
    """the model's copies of DEFAULT_PARENT_LEVELS and STANDARD_COLUMN_NAME_MAP are mokapot's"""
    import mokapot.brew_rollup as br
    fails = []
    parents, cmap = _ru_model_consts()
    if [list(x) for x in parents] != [list(x) for x in br.DEFAULT_PARENT_LEVELS.items()]:
        fails.append({"what": "DEFAULT_PARENT_LEVELS differs from Model/Rollup.v ru_default_parents: %r" % (list(br.DEFAULT_PARENT_LEVELS.items()),),
                      "failing_input": None})
    if [list(x) for x in cmap] != [list(x) for x in br.STANDARD_COLUMN_NAME_MAP.items()]:
        fails.append({"what": "STANDARD_COLUMN_NAME_MAP differs from Model/Rollup.v ru_column_map: %r" % (list(br.STANDARD_COLUMN_NAME_MAP.items()),),
                      "failing_input": None})
    return fails, {"rollup_tables_compared": 2}
