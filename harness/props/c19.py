"""C19 — PIN -> TSV conversion: correspondence of Model/PinTsv.v with mokapot.parsers.pin_to_tsv."""
import io
import itertools
import os
import tempfile

from .. import lib
from ..lib import call_impl

PROP = "C19"
RULE = ("cases: (1) exhaustive structured PINs over n_pre<=2, n_post<=1, DefaultDirection on/off, "
        "<=2 (quick) / <=3 (thorough) rows x 1..3 proteins, final newline on/off; (2) random structured PINs "
        "(fields with inner spaces, '|', ':'); (3) malformed stream: random texts over a token alphabet with "
        "ragged rows, empty fields/lines, missing Proteins, \\r, edge whitespace; each text goes to "
        "pin_to_valid_tsv and is_valid_tsv (StringIO and, for a share, real files). distinct = distinct "
        "(entry, text); non-trivial = a row with >=2 proteins or a protein column that is not last or a malformed text")
ASSUMPTIONS = [
    "str.strip() is modelled for ASCII whitespace (9-13, 28-32) only; generated texts are ASCII",
    "text-mode universal newline translation is exercised (real-file cases) but not modelled: those cases contain no \\r",
]
TRUSTED_EXTRA = ["io.StringIO / open() line iteration (oracle: lines end at \\n)"]

DD = "DefaultDirection"


def render(struct):
    hdr = struct["hdr_pre"] + ["Proteins"] + struct["hdr_post"]
    lines = ["\t".join(hdr)]
    if struct["dd"] is not None:
        lines.append(struct["dd"])
    for r in struct["rows"]:
        lines.append("\t".join(r["pre"] + r["prots"] + r["post"]))
    txt = "\n".join(lines)
    if struct["final_nl"]:
        txt += "\n"
    return txt


def expected_tsv(struct):
    hdr = struct["hdr_pre"] + ["Proteins"] + struct["hdr_post"]
    lines = ["\t".join(hdr)]
    for r in struct["rows"]:
        lines.append("\t".join(r["pre"] + [":".join(r["prots"])] + r["post"]))
    return "".join(l + "\n" for l in lines)


def _mk(struct, via="stringio"):
    txt = render(struct)
    tags = ["structured", f"rows={len(struct['rows'])}", f"npre={len(struct['hdr_pre'])}",
            f"npost={len(struct['hdr_post'])}", "dd" if struct["dd"] is not None else "nodd", via]
    return [
        {"fn": "convert_file", "text": txt, "struct": struct, "via": via, "tags": tags},
        {"fn": "is_valid", "text": txt, "struct": struct, "via": via, "tags": tags},
        {"fn": "is_valid", "text": expected_tsv(struct), "via": via, "tags": ["tsv-of-structured"]},
        {"fn": "convert_file", "text": expected_tsv(struct), "via": via, "tags": ["tsv-of-structured"]},
    ]


def gen(ctx):
    cases = []
    # (1) exhaustive small scope
    maxrows = 3 if ctx.thorough else 2
    for npre, npost, dd, fnl in itertools.product(range(3), range(2), (False, True), (False, True)):
        for nrows in range(1, maxrows + 1):
            for pc in itertools.product((1, 2, 3), repeat=nrows):
                rows = []
                for ri, k in enumerate(pc):
                    rows.append({"pre": [f"a{ri}{j}" for j in range(npre)],
                                 "prots": [f"P{ri}{j}" for j in range(k)],
                                 "post": [f"z{ri}{j}" for j in range(npost)]})
                st = {"hdr_pre": [f"h{j}" for j in range(npre)], "hdr_post": [f"t{j}" for j in range(npost)],
                      "dd": (DD + "\t-" * (npre + npost)) if dd else None, "rows": rows, "final_nl": fnl}
                cases.extend(_mk(st))
    # (2) random structured
    rng = ctx.sub("structured")
    alpha = "abXYZ019|.-_:+ "
    def field(edge=False):
        n = rng.randint(1, 6)
        sx = "".join(rng.choice(alpha) for _ in range(n))
        if edge:
            sx = sx.strip() or "x"
        return sx
    nrand = 400 if ctx.thorough else 120
    for k in range(nrand):
        npre, npost = rng.randint(0, 5), rng.randint(0, 4)
        rows = []
        for _ in range(rng.randint(1, 6)):
            pre = [field() for _ in range(npre)]
            prots = [field() for _ in range(rng.choice([1, 1, 2, 3, 5]))]
            post = [field() for _ in range(npost)]
            allf = pre + prots + post
            # first / last field of the line must survive strip()
            if pre:
                pre[0] = field(True)
            else:
                prots[0] = field(True)
            if post:
                post[-1] = field(True)
            else:
                prots[-1] = (prots[-1].strip() or "y")
            if not pre and len(prots) == 1:
                prots[0] = prots[0].strip() or "w"
            rows.append({"pre": pre, "prots": prots, "post": post})
        hp = [f"c{j}" for j in range(npre)]
        ht = [f"d{j}" for j in range(npost)]
        if hp and rng.random() < 0.3:
            hp[rng.randrange(len(hp))] = "proteins"   # different case: not the protein column
        st = {"hdr_pre": hp, "hdr_post": ht,
              "dd": (DD + "\t-" * (npre + npost)) if rng.random() < 0.4 else None,
              "rows": rows, "final_nl": rng.random() < 0.6}
        via = "file" if k % 4 == 0 else "stringio"
        cases.extend(_mk(st, via))
    # (3) malformed / free-form stream
    rng = ctx.sub("malformed")
    toks = ["a", "b", "Proteins", "\t", "\t", "\t", "\n", "\n", " ", ":", DD, "\r", "x y", "", "\x0b", "\x1c"]
    nmal = 1500 if ctx.thorough else 400
    for k in range(nmal):
        n = rng.randint(0, 14)
        txt = "".join(rng.choice(toks) for _ in range(n))
        if rng.random() < 0.5:
            # make it header-like so that deeper branches are reached
            w = rng.randint(1, 4)
            pos = rng.randrange(w)
            hdr = ["h%d" % j for j in range(w)]
            hdr[pos] = "Proteins"
            body = []
            for _ in range(rng.randint(0, 4)):
                nf = max(0, w + rng.choice([-2, -1, 0, 0, 0, 1, 2, 3]))
                fs = [rng.choice(["a", "b", "", " ", "p q", DD, ":", "\r"]) for _ in range(nf)]
                body.append("\t".join(fs))
            txt = "\n".join(["\t".join(hdr)] + body) + rng.choice(["", "\n", "\n\n", " \n"])
        for fn in ("convert_file", "is_valid"):
            cases.append({"fn": fn, "text": txt, "via": "stringio", "tags": ["malformed"]})
    return cases


def encode(c):
    return f"c19.{c['fn']} " + lib.s(c["text"])


def decode(c, t):
    if c["fn"] == "convert_file":
        return t.result(t.s)
    return t.result(t.b)


def _convert(text, via):
    from mokapot.parsers.pin_to_tsv import pin_to_valid_tsv
    if via == "file":
        with tempfile.TemporaryDirectory() as d:
            pi, po = os.path.join(d, "in.pin"), os.path.join(d, "out.tsv")
            with open(pi, "w", newline="") as f:
                f.write(text)
            with open(pi, "r") as fi, open(po, "w", newline="") as fo:
                pin_to_valid_tsv(fi, fo)
            with open(po, "r", newline="") as f:
                return f.read()
    out = io.StringIO()
    pin_to_valid_tsv(io.StringIO(text), out)
    return out.getvalue()


def _valid(text, via):
    from mokapot.parsers.pin_to_tsv import is_valid_tsv
    if via == "file":
        with tempfile.TemporaryDirectory() as d:
            pi = os.path.join(d, "in.pin")
            with open(pi, "w", newline="") as f:
                f.write(text)
            with open(pi, "r") as fi:
                return bool(is_valid_tsv(fi))
    return bool(is_valid_tsv(io.StringIO(text)))


def impl(c):
    if c["fn"] == "convert_file":
        return call_impl(_convert, c["text"], c.get("via", "stringio"))
    return call_impl(_valid, c["text"], c.get("via", "stringio"))


def same(c, m, i):
    return tuple(m) == tuple(i)


def nontrivial(c):
    st = c.get("struct")
    if st is None:
        return "malformed" in c.get("tags", [])
    return any(len(r["prots"]) >= 2 for r in st["rows"]) or len(st["hdr_post"]) > 0


def _spec_valid(text):
    """the property's own definition of validity (independent of the code)"""
    lines = text.split("\n")
    if lines and lines[-1] == "":
        lines.pop()
    else:
        pass
    if len(lines) < 2:
        return None
    if lines[1].startswith(DD):
        return False
    n = lines[0].count("\t")
    return all(l.count("\t") == n for l in lines[1:])


def oracle(c, i):
    """property predicate evaluated on the implementation's output"""
    st = c.get("struct")
    if c["fn"] == "convert_file" and st is not None:
        exp = expected_tsv(st)
        if tuple(i) != ("ok", exp):
            return f"conversion of a well-formed PIN is not the expected rectangular table: got {i!r}, expected {exp!r}"
        v = call_impl(_valid, exp, "stringio")
        if v != ("ok", True):
            return f"converted output is not recognised as valid: {v!r}"
        again = call_impl(_convert, exp, "stringio")
        if again != ("ok", exp):
            return f"conversion is not idempotent: {again!r}"
        return None
    if c["fn"] == "is_valid" and "\r" not in c["text"] and "\x0b" not in c["text"] and "\x1c" not in c["text"]:
        sv = _spec_valid(c["text"])
        if sv is not None and i[0] == "ok" and bool(i[1]) != sv:
            return f"is_valid_tsv returned {i[1]} but the text is {'valid' if sv else 'invalid'} by definition"
    return None


def shrink(c):
    txt = c["text"]
    st = c.get("struct")
    if st is not None:
        # drop rows / proteins / columns
        for k in range(len(st["rows"])):
            if len(st["rows"]) > 1:
                s2 = dict(st, rows=st["rows"][:k] + st["rows"][k + 1:])
                yield dict(c, struct=s2, text=render(s2))
        if st["dd"] is not None:
            s2 = dict(st, dd=None)
            yield dict(c, struct=s2, text=render(s2))
        return
    for k in range(len(txt)):
        yield dict(c, text=txt[:k] + txt[k + 1:])
