"""C19 — PIN -> TSV conversion: correspondence of Model/PinTsv.v (+ Model/PinVerify.v) with
mokapot.parsers.pin_to_tsv and the verify step of mokapot.main.

Every case carries the two separators of the real API: "sc" = sep_column (one character) and
"sp" = sep_protein (any string, also empty / several characters), and "call" = how they are handed
to the real function: "kw" (keywords), "pos" (positionally) or "default" (not passed at all: only
for "\\t" / ":"; the model side then runs the default instances used by Model/Fs.v).

"via" = the kind of text stream the real function gets (all are TextIO): "stringio", "file" (real file, text
mode: universal newlines), "wrapper" (io.TextIOWrapper over BytesIO), "gzip" (gzip.open(.., "rt")), "spooled"
(tempfile.SpooledTemporaryFile), "main" / "main-emptyout" / "main-leftover" (the module's own command line
mokapot.parsers.pin_to_tsv.main() with a fresh / an empty / a non-empty output path).  fn == "cli" runs
mokapot.main's verify step (read_pin replaced by a stub that stops the run) on 1..3 PIN files."""
import gzip
import io
import itertools
import json
import locale
import os
import sys
import tempfile

from .. import lib
from ..lib import call_impl

PROP = "C19"
RULE = ("cases: (1) exhaustive structured PINs over n_pre<=2, n_post<=1, DefaultDirection on/off, "
        "<=2 (quick) / <=3 (thorough) rows x 1..3 proteins (so the FIRST PSM has 1..3 proteins with and without a "
        "DefaultDirection line), final newline on/off, x separator pairs (sep_column, sep_protein) in "
        "{TAB}x{':' passed by default / by keyword, ';', '|||', '', '::'} + {','}x{':', '|||', ''}; "
        "(2) random structured PINs (fields with inner spaces, '|', ':'; first PSM forced to >=2 proteins in 2/3 of them) "
        "with sep_column in {TAB , ; | space} and sep_protein in {: ; ||| '' :: ' ' TAB / -}; "
        "(2w) 'wide' random structured PINs: 0..60 feature columns before and 0..10 after the protein column, header names "
        "that contain 'Proteins' as a substring / in another case, a second 'Proteins' column after the first, a UTF-8 BOM, "
        "1..40 proteins per PSM, the same protein twice in one PSM, empty fields, later PSMs whose id starts with "
        "'DefaultDirection', fields with quotes, backslashes, brackets, '%', '$' and (1/3) non-ASCII characters (2-4 byte UTF-8, "
        "zero-width), DefaultDirection lines with numeric weights, CRLF line ends, sep_protein with regex / format / quote "
        "characters, a non-ASCII sep_column; every text stream kind (StringIO, file, TextIOWrapper, gzip, SpooledTemporaryFile, "
        "the module's main() with a fresh / empty / non-empty output path: the non-empty one (old text, an old table, text "
        "without newline, a blank line) in 4 (quick) / 12 (thorough) wide cases and in (2z)); "
        "(2z) PINs with ZERO PSMs, in both tiers: header only and header + DefaultDirection line x final newline on/off x "
        "{0,2} columns before / {0,1} after the protein column x 2 separator pairs x EVERY stream kind (main() onto a fresh, "
        "an empty and a non-empty output path included), header-only with CRLF / CR line ends and with blanks around the "
        "header; since /repo acb0557 these are ordinary well-formed PINs (Proofs/PinTsvP.v: wf has no clause on the number of "
        "rows): converted to the header line, which is valid and a fixed point; header-only is reported valid; only the text "
        "without any line raises (StopIteration); "
        "(2b) large files (10-60 KiB) whose only irregular line comes late; (2c) larger files: 1001-4000 (quick) / up to 30000 "
        "(thorough) PSMs = 0.1-2 MB, the irregular line (several proteins / missing field / surplus field) in the last third, on "
        "the very last line without newline, or nowhere; one PSM line of 9-10 KiB (longer than the 8 KiB stream buffer); "
        "(3) malformed stream: random texts over a token alphabet with ragged rows, empty fields/lines, missing Proteins, "
        "\\r, edge whitespace, for several separator pairs; each text goes to pin_to_valid_tsv and is_valid_tsv (StringIO and, "
        "for a share, real files where \\r / \\r\\n are line ends); (3e) an enumerated list of edge texts (variants of the second "
        "line around 'DefaultDirection': exact, longer, shorter, other case, leading blank / separator, on line 3, twice, nothing "
        "after it; blank lines; tiny files; edge separators; duplicate / near-miss protein columns; BOM; \\r\\n, \\r, \\n\\r line "
        "ends) x 3 separator pairs x StringIO / file (/ gzip); (4) convert_line_pin_to_tsv on rows of structured PINs and "
        "on random lines with arbitrary idx_protein_col / n_col (negative slice ends included); (5) parse_pin_header_columns on "
        "header-like strings; (6) cli: mokapot.main's verify step on 1..3 files (already rectangular / ragged / ragged only on "
        "the last line / with DefaultDirection line / CRLF / non-ASCII / short line / ZERO PSMs: header only with and without "
        "final newline, header + DefaultDirection line, forced into every 5th command line in both tiers / no Proteins column / "
        "empty file, in every order, file names with spaces, equal base names in different directories, no extension), every "
        "file compared with Model/PinVerify.v (pin_verify_text); "
        "(7) WITHOUT the model, by the property oracle alone (extra_checks): PSM lines of 70-300 KiB (3000-12000 proteins; the "
        "extracted model reverses lines with a quadratic list function, by theorem C19_file its answer on these well-formed "
        "PINs is the table the oracle expects), multi-character sep_column ('||', ', ', '<>'; the model's sep_column is one "
        "character); in addition the property oracle is evaluated on every structured / cli / is_valid case of the run. "
        "distinct = distinct (entry, separators, call form, stream kind, text); non-trivial = a PSM with >=2 proteins or a "
        "DefaultDirection line (for a converted table: its source had one; header + DefaultDirection line without PSMs counts), a "
        "malformed text of >=2 lines, a random line of >=2 fields, a non-empty header string; PINs that are already rectangular "
        "(header-only ones included) and non-default separators on single-protein rows count as trivial")
ASSUMPTIONS = [
    "str.strip() is modelled for ASCII whitespace (9-13, 28-32) only; generated texts contain no non-ASCII character c with "
    "c.isspace() (\\x85, \\xa0, \\u2000-\\u200a, \\u2028, \\u2029, \\u3000 ...); other non-ASCII characters are generated",
    "universal newline translation of text-mode files (\\r\\n and \\r become \\n; real files, TextIOWrapper, gzip, main(), the "
    "CLI) is not modelled in Coq: the harness hands the model the translated text (str.replace) for those stream kinds",
    "sep_column is ONE character (the model's sepc : Z); a multi-character sep_column is checked by the property oracle only "
    "(extra_checks), an empty one (str.split raises ValueError) not at all; sep_protein is an arbitrary string",
    "files are written and read back by the harness in the encoding the interpreter uses for open() (UTF-8 under ./check); "
    "non-ASCII characters are generated only if that encoding can represent them",
    "the CLI cases replace mokapot.mokapot.read_pin by a stub that raises, so that main() stops after its verify step; a file "
    "that makes the step raise (no Proteins column, no line at all) is only ever the last file of a command line",
    "/repo is at or after acb0557 (a PIN without PSMs is valid / converts to its header) and 2fc2141 (pin_to_tsv.main() opens "
    "its output with mode 'w'); the model and the oracle follow the repaired code, so on an older tree the zero-PSM cases "
    "(StopIteration) and the main-leftover cases (old content kept in front of the table) are reported as violations",
]
TRUSTED_EXTRA = ["io.StringIO / open() / TextIOWrapper / gzip / SpooledTemporaryFile line iteration (oracle: lines end at \\n)",
                 "argparse of pin_to_tsv.main() and of mokapot.Config (arguments are passed as --opt=value / as paths)"]

DD = "DefaultDirection"
TAB = "\t"
SEP_PROTS = [":", ";", "|||", "", "::"]

# stream kinds whose reader translates \r\n and \r to \n (newline=None)
TRANSLATING = ("file", "wrapper", "gzip", "main", "main-emptyout", "main-leftover")

# non-ASCII characters used in fields: 2-, 3- and 4-byte UTF-8, soft hyphen, zero-width space, BOM; none is whitespace
NONASCII = "\u00e9\u00df\u03b2\u0416\u4e2d\u65e5\U0001f600\U0001d518\u00ad\u200b\ufeff"
assert not any(ch.isspace() for ch in NONASCII)
LINE_BOUNDARY_ASCII = "\x0b\x0c\x1c\x1d\x1e"
LINE_BOUNDARY_WIDE = "\x85\u2028\u2029"


def _nonascii_ok():
    """can the encoding that open() uses by default (the one mokapot's own open() calls use) represent them?"""
    try:
        (NONASCII + "\u00a6\u00b7").encode(locale.getpreferredencoding(False))
        return True
    except (UnicodeError, LookupError):
        return False


def _universal(text):
    return text.replace("\r\n", "\n").replace("\r", "\n")


def _model_text(c):
    """the text as the real function's line iteration sees it"""
    if c.get("via", "stringio") in TRANSLATING:
        return _universal(c["text"])
    return c["text"]


def _seps(c):
    return c.get("sc", TAB), c.get("sp", ":"), c.get("call", "kw")


def render(struct, sc=TAB):
    hdr = struct["hdr_pre"] + ["Proteins"] + struct["hdr_post"]
    lines = [sc.join(hdr)]
    if struct["dd"] is not None:
        lines.append(struct["dd"])
    for r in struct["rows"]:
        lines.append(sc.join(r["pre"] + r["prots"] + r["post"]))
    txt = "\n".join(lines)
    if struct["final_nl"]:
        txt += "\n"
    return txt


def expected_tsv(struct, sc=TAB, sp=":"):
    """the property's own description of the output: header, one line per PSM in order, the proteins of
    EVERY PSM joined by the requested protein separator"""
    hdr = struct["hdr_pre"] + ["Proteins"] + struct["hdr_post"]
    lines = [sc.join(hdr)]
    for r in struct["rows"]:
        lines.append(sc.join(r["pre"] + [sp.join(r["prots"])] + r["post"]))
    return "".join(l + "\n" for l in lines)


def _septag(sc, sp, call):
    return [f"sc={sc!r}", f"sp={sp!r}", f"call={call}"]


def _bucket(name, n, exact):
    return f"{name}={n}" if n <= exact else f"{name}>{exact}"


def _multi(struct):
    return any(len(r["prots"]) >= 2 for r in struct["rows"])


def _mk(struct, sc=TAB, sp=":", call="kw", via="stringio", crlf=False, leftover=None):
    txt = render(struct, sc)
    if crlf:
        txt = txt.replace("\n", "\r\n")
    rows = struct["rows"]
    ddtag = "dd" if struct["dd"] is not None else "nodd"
    if rows:
        firsttag = ("first-multi-" if len(rows[0]["prots"]) >= 2 else "first-single-") + ddtag
    else:
        firsttag = "zero-psm-" + ddtag
    tags = ["structured", _bucket("rows", len(rows), 8) if len(rows) < 100 else f"rows={len(rows)}",
            _bucket("npre", len(struct["hdr_pre"]), 5), _bucket("npost", len(struct["hdr_post"]), 4), ddtag, via, firsttag,
            ] + (["crlf"] if crlf else []) + _septag(sc, sp, call)
    via_valid = "file" if via.startswith("main") else via
    base = {"sc": sc, "sp": sp, "call": call, "via": via}
    basev = dict(base, via=via_valid)
    exp = expected_tsv(struct, sc, sp)
    src = {"src_multi": _multi(struct), "src_rows": len(rows)}
    conv = dict(base, fn="convert_file", text=txt, struct=struct, tags=tags)
    if leftover is not None:
        conv["leftover"] = leftover
    out = [
        conv,
        dict(basev, fn="is_valid", text=txt, struct=struct, tags=tags),
        dict(basev, fn="is_valid", text=exp, tags=["tsv-of-structured"] + _septag(sc, sp, call), **src),
        dict(base, fn="convert_file", text=exp, tags=["tsv-of-structured"] + _septag(sc, sp, call), **src),
    ]
    if via == "main-leftover":
        out[3]["via"] = "main"
    return out


def _line_cases(struct, sc, sp, call):
    """convert_line_pin_to_tsv on every row of a structured PIN, with the header's idx / n_col"""
    idx = len(struct["hdr_pre"])
    ncol = idx + 1 + len(struct["hdr_post"])
    out = []
    for r in struct["rows"]:
        out.append({"fn": "convert_line", "sc": sc, "sp": sp, "call": call,
                    "line": sc.join(r["pre"] + r["prots"] + r["post"]), "idx": idx, "ncol": ncol, "row": r,
                    "tags": ["line-structured", _bucket("nprot", len(r["prots"]), 5)] + _septag(sc, sp, call)})
    return out


# ------------------------------------------------------------------------------------------------ generators
def _gen_exhaustive(ctx, cases):
    # (1) exhaustive small scope x separator pairs
    maxrows = 3 if ctx.thorough else 2
    pairs = [(TAB, ":", "default"), (TAB, ":", "kw"), (TAB, ";", "kw"), (TAB, "|||", "kw"), (TAB, "", "kw"),
             (TAB, "::", "pos"), (",", ":", "kw"), (",", "|||", "pos"), (",", "", "kw")]
    for npre, npost, dd, fnl in itertools.product(range(3), range(2), (False, True), (False, True)):
        for nrows in range(1, maxrows + 1):
            for pc in itertools.product((1, 2, 3), repeat=nrows):
                rows = []
                for ri, k in enumerate(pc):
                    rows.append({"pre": [f"a{ri}{j}" for j in range(npre)],
                                 "prots": [f"P{ri}{j}" for j in range(k)],
                                 "post": [f"z{ri}{j}" for j in range(npost)]})
                for sc, sp, call in pairs:
                    st = {"hdr_pre": [f"h{j}" for j in range(npre)], "hdr_post": [f"t{j}" for j in range(npost)],
                          "dd": (DD + (sc + "-") * (npre + npost)) if dd else None, "rows": rows, "final_nl": fnl}
                    cases.extend(_mk(st, sc, sp, call))
                    if fnl and not dd and nrows == 1:
                        cases.extend(_line_cases(st, sc, sp, call))


def _gen_structured(ctx, cases):
    # (2) random structured
    rng = ctx.sub("structured")
    alpha0 = "abXYZ019|.-_:+ "
    sc_pool = [TAB, TAB, TAB, ",", ",", ";", "|", " "]
    sp_pool = [":", ":", ";", "|||", "", "::", " ", TAB, "/", "-", ", "]
    nrand = 600 if ctx.thorough else 200
    for k in range(nrand):
        sc = rng.choice(sc_pool)
        sp = rng.choice(sp_pool)
        call = "default" if (sc == TAB and sp == ":" and rng.random() < 0.5) else rng.choice(["kw", "kw", "pos"])
        alpha = alpha0.replace(sc, "")

        def field(edge=False):
            n = rng.randint(1, 6)
            sx = "".join(rng.choice(alpha) for _ in range(n))
            if edge:
                sx = sx.strip() or "x"
            return sx
        npre, npost = rng.randint(0, 5), rng.randint(0, 4)
        rows = []
        nrows = rng.randint(1, 6)
        for ri in range(nrows):
            pre = [field() for _ in range(npre)]
            nprot = rng.choice([1, 1, 2, 3, 5])
            if ri == 0 and k % 3 != 0:
                nprot = rng.choice([2, 3, 4])          # the first PSM has several proteins
            prots = [field() for _ in range(nprot)]
            post = [field() for _ in range(npost)]
            # first / last field of the line must survive strip()
            if pre:
                pre[0] = field(True)
            else:
                prots[0] = field(True)
            if post:
                post[-1] = field(True)
            else:
                prots[-1] = (prots[-1].strip() or "y")
            if not pre and len(prots) == 1:
                prots[0] = prots[0].strip() or "w"
            rows.append({"pre": pre, "prots": prots, "post": post})
        hp = [f"c{j}" for j in range(npre)]
        ht = [f"d{j}" for j in range(npost)]
        if hp and rng.random() < 0.3:
            hp[rng.randrange(len(hp))] = "proteins"   # different case: not the protein column
        st = {"hdr_pre": hp, "hdr_post": ht,
              "dd": (DD + (sc + "-") * (npre + npost)) if rng.random() < 0.4 else None,
              "rows": rows, "final_nl": rng.random() < 0.6}
        via = "file" if k % 4 == 0 else "stringio"
        cases.extend(_mk(st, sc, sp, call, via))
        if k % 2 == 0:
            cases.extend(_line_cases(st, sc, sp, call))


HDR_NAMES = ["SpecId", "Label", "ScanNr", "ExpMass", "CalcMass", "lnrSp", "deltLCn", "Xcorr", "Charge1", "Peptide",
             "nProteins", "ProteinsCount", "proteins", "PROTEINS", "Protein", "Proteins2", "enzInt"]
WIDE_VIAS = ["stringio", "file", "wrapper", "gzip", "spooled", "main", "stringio", "file", "main-emptyout"]


def _wide_struct(rng, sc, nonascii, dd_p=0.4, force_multi_first=None, allow_ddrow=True):
    """a well-formed PIN (the [wf] of Proofs/PinTsvP.v) from the wide value domains"""
    alpha = ("abXYZ019|.-_:+ \"'\\,;/()[]{}%$&*?^#@!~=<>`" + (NONASCII if nonascii else "")).replace(sc, "")

    def field(edge=False):
        n = rng.randint(1, 6)
        sx = "".join(rng.choice(alpha) for _ in range(n))
        if edge:
            sx = sx.strip() or "x"
        return sx
    npre = rng.choice([0, 1, 2, 3, 5, 5, 12, 30, 60])
    npost = rng.choice([0, 0, 0, 1, 2, 4, 10])
    nrows = rng.randint(1, 8)
    rows = []
    for ri in range(nrows):
        pre = [field() for _ in range(npre)]
        nprot = rng.choice([1, 1, 2, 3, 5, 12, 40])
        if ri == 0 and force_multi_first:
            nprot = rng.choice([2, 3, 4, 12])
        prots = [field() for _ in range(nprot)]
        post = [field() for _ in range(npost)]
        if nprot >= 2 and rng.random() < 0.3:                    # the same protein listed twice
            i, j = sorted(rng.sample(range(nprot), 2))
            prots[i] = prots[j] = prots[j].strip() or "dup"
        for lst_ in (pre, prots, post):                          # empty fields
            for j in range(len(lst_)):
                if rng.random() < 0.06:
                    lst_[j] = ""
        if allow_ddrow and ri >= 1 and rng.random() < 0.1:       # a later PSM whose first field starts with DefaultDirection
            if pre:
                pre[0] = DD + "_%d" % ri
            else:
                prots[0] = DD + "_%d" % ri
        # first / last field of the line must survive strip() and be non-empty
        if pre:
            pre[0] = pre[0].strip() or field(True)
        else:
            prots[0] = prots[0].strip() or field(True)
        if post:
            post[-1] = post[-1].strip() or field(True)
        else:
            prots[-1] = prots[-1].strip() or field(True)
        rows.append({"pre": pre, "prots": prots, "post": post})
    names = HDR_NAMES[:]
    rng.shuffle(names)
    hp = [(names[j] if j < len(names) else "f%d" % j) for j in range(npre)]
    ht = ["d%d" % j for j in range(npost)]
    if nonascii and hp and rng.random() < 0.3:
        hp[0] = "\ufeff" + hp[0]                                 # UTF-8 byte order mark in front of the header
    if ht and rng.random() < 0.2:
        ht[rng.randrange(len(ht))] = "Proteins"                  # a second Proteins column: the first one counts
    dd = None
    if rng.random() < dd_p:
        if rng.random() < 0.5:
            dd = DD + (sc + "-") * (npre + npost)
        else:
            dd = DD + "".join(sc + rng.choice(["-", "1", "-1", "0.5", "-0.25", "0"]) for _ in range(npre + npost))
    return {"hdr_pre": hp, "hdr_post": ht, "dd": dd, "rows": rows, "final_nl": rng.random() < 0.6}


def _gen_wide(ctx, cases):
    # (2w) the wide value domains
    rng = ctx.sub("wide")
    na_ok = _nonascii_ok()
    n = 1200 if ctx.thorough else 240
    sc_pool = [TAB] * 5 + [",", ";", "|", " "] + (["\u00a6"] if na_ok else [])
    sp_pool = [":", ":", ":", ";", "|||", "", "::", " ", "/", "\\", "\\1", "\\g<0>", "%s", "{}", "{0}", "$&", ".*", "\"", "''"] \
        + (["\u00b7"] if na_ok else [])
    for k in range(n):
        sc = rng.choice(sc_pool)
        sp = rng.choice(sp_pool)
        call = "default" if (sc == TAB and sp == ":" and rng.random() < 0.5) else rng.choice(["kw", "kw", "pos"])
        nonascii = na_ok and k % 3 == 0
        st = _wide_struct(rng, sc, nonascii, force_multi_first=(k % 3 != 1))
        lb = None
        if k % 4 == 2:
            # characters that str.splitlines() / some line readers treat as line boundaries but file iteration does not
            # (VT, FF, FS, GS, RS; NEL, LS, PS when the locale can encode them), in the MIDDLE of a field of a random
            # PSM line (at the end of a line strip() would remove them): a PSM line is one line, whatever it contains
            lb = rng.choice(LINE_BOUNDARY_ASCII + (LINE_BOUNDARY_WIDE if nonascii else ""))
            for _ in range(rng.choice([1, 1, 2, 3])):
                row = rng.choice(st["rows"])
                part = rng.choice([x for x in (row["pre"], row["prots"], row["post"]) if x])
                j = rng.randrange(len(part))
                part[j] = (part[j].strip() or "x") + lb + rng.choice([x for x in ("y", "K.AA", "9", "z z") if sc not in x])
        via = WIDE_VIAS[k % len(WIDE_VIAS)]
        crlf = rng.random() < 0.25
        cs = _mk(st, sc, sp, call, via, crlf)
        for c in cs:
            c["tags"] = c["tags"] + ["wide"] + (["non-ascii"] if nonascii else []) + (["line-boundary-char=%r" % lb] if lb else [])
        cases.extend(cs)
        if k % 3 == 0:
            cases.extend(_line_cases(st, sc, sp, call))
    # the module's own command line with an output path that already holds something
    for k in range(12 if ctx.thorough else 4):
        sc, sp = (TAB, ":") if k % 2 == 0 else (",", "|||")
        st = _wide_struct(rng, sc, False, force_multi_first=True)
        left = ["old content\n", "h\tProteins\nx\tP\n", "no newline at the end", "\n"][k % 4]
        c = _mk(st, sc, sp, "default" if k % 2 == 0 else "kw", "main-leftover", leftover=left)[0]
        c["tags"] = c["tags"] + ["wide"]
        cases.append(c)


ZERO_VIAS = ["stringio", "file", "wrapper", "gzip", "spooled", "main", "main-emptyout", "main-leftover"]
ZERO_LEFTOVERS = ["old content\n", "h\tProteins\nx\tP\n", "no newline at the end", "\n"]


def _gen_zero(ctx, cases):
    # (2z) no PSM at all: header only / header + DefaultDirection line (the regression for /repo acb0557; with the module's
    #      main() onto a non-empty output path also for 2fc2141).  Identical in both tiers.
    k = 0
    for npre, npost, dd, fnl in itertools.product((0, 2), (0, 1), (False, True), (False, True)):
        for sc, sp, call in [(TAB, ":", "default"), (",", "|||", "kw")]:
            st = {"hdr_pre": [f"h{j}" for j in range(npre)], "hdr_post": [f"t{j}" for j in range(npost)],
                  "dd": (DD + (sc + "-") * (npre + npost)) if dd else None, "rows": [], "final_nl": fnl}
            for via in ZERO_VIAS:
                left = ZERO_LEFTOVERS[k % len(ZERO_LEFTOVERS)] if via == "main-leftover" else None
                cs = _mk(st, sc, sp, call, via, leftover=left)
                if via == "main-leftover":
                    cs = cs[:1]
                for c in cs:
                    c["tags"] = c["tags"] + ["zero-psm"]
                cases.extend(cs)
                k += 1
    # header-only with \r\n / \r line ends (line ends only where the reader translates them) and with blanks around the header
    for sc, sp, call in [(TAB, ":", "default"), (",", "|||", "kw")]:
        for npre in (0, 2):
            for dd in (False, True):
                st = {"hdr_pre": [f"h{j}" for j in range(npre)], "hdr_post": ["t0"], "rows": [], "final_nl": True,
                      "dd": (DD + (sc + "-") * (npre + 1)) if dd else None}
                for via in ("stringio", "file", "main", "gzip"):
                    cs = _mk(st, sc, sp, call, via, crlf=True)
                    for c in cs:
                        c["tags"] = c["tags"] + ["zero-psm"]
                    cases.extend(cs)
    for t in ["h{s}Proteins\r", "h{s}Proteins\r\n", " h{s}Proteins \n", "h{s}Proteins  ", "\th{s}Proteins\n", "Proteins", "Proteins\n",
              "h{s}Proteins\n\n", "h{s}Proteins\nDefaultDirection", "h{s}Proteins\nDefaultDirection{s}-\r\n", "h{s}proteins\n", "h{s}x\n"]:
        for sc, sp, call in [(TAB, ":", "default"), (",", "|||", "kw")]:
            for via in ("stringio", "file", "main", "main-leftover"):
                txt = t.replace("{s}", sc)
                c = {"fn": "convert_file", "text": txt, "sc": sc, "sp": sp, "call": call, "via": via,
                     "tags": ["malformed", "edge", "zero-psm", via] + _septag(sc, sp, call)}
                if via == "main-leftover":
                    c["leftover"] = "old\n"
                cases.append(c)
                if not via.startswith("main"):
                    cases.append(dict(c, fn="is_valid"))


def _gen_large(ctx, cases):
    # (2b) large files (beyond any I/O buffer size: 10-60 KiB) whose only irregular line comes late: a multi-protein PSM,
    #      a short line or a long line at a random position in the last third; via file and StringIO
    rng = ctx.sub("large")
    for k in range(24 if ctx.thorough else 8):
        npre, npost = rng.randint(1, 5), rng.randint(0, 4)
        nrows = rng.choice([150, 300, 600, 900])
        late = rng.randrange(2 * nrows // 3, nrows)
        kind = ["multi-protein", "short-line", "regular", "multi-protein"][k % 4]
        rows = []
        for ri in range(nrows):
            pre = ["f%d_%d" % (ri, j) for j in range(npre)]
            post = ["g%d_%d" % (ri, j) for j in range(npost)]
            prots = ["sp|P%05d|PROT_%d" % (ri, ri)]
            if ri == late and kind == "multi-protein":
                prots += ["sp|Q%05d|ALT" % ri, "sp|R%05d|ALT2" % ri]
            rows.append({"pre": pre, "prots": prots, "post": post})
        st = {"hdr_pre": ["c%d" % j for j in range(npre)], "hdr_post": ["d%d" % j for j in range(npost)], "dd": None,
              "rows": rows, "final_nl": True}
        via = "file" if k % 2 == 0 else "stringio"
        if kind == "short-line" and npre + npost > 0:
            txt = render(st, TAB).split("\n")
            txt[1 + late] = TAB.join(txt[1 + late].split(TAB)[:-1])
            txt = "\n".join(txt)
            cases.append({"fn": "is_valid", "sc": TAB, "sp": ":", "call": "default", "via": via, "text": txt,
                          "tags": ["large", "late-short-line", via, "bytes>%dk" % (len(txt) // 1024)]})
        else:
            for c in _mk(st, TAB, ":", "default", via):
                c["tags"] = c["tags"] + ["large", "late-" + kind, "bytes>%dk" % (len(c["text"]) // 1024)]
                cases.append(c)


def _big_struct(nrows, npre, npost, multi_at=None, nprot=3, final_nl=True, dd=False):
    rows = []
    for ri in range(nrows):
        prots = ["sp|P%05d|PROT_%d" % (ri, ri)]
        if ri == multi_at:
            prots += ["sp|Q%05d|ALT%d" % (ri, j) for j in range(nprot - 1)]
        rows.append({"pre": ["f%d_%d" % (ri, j) for j in range(npre)], "prots": prots,
                     "post": ["g%d_%d" % (ri, j) for j in range(npost)]})
    return {"hdr_pre": ["c%d" % j for j in range(npre)], "hdr_post": ["d%d" % j for j in range(npost)],
            "dd": (DD + (TAB + "-") * (npre + npost)) if dd else None, "rows": rows, "final_nl": final_nl}


def _gen_larger(ctx, cases):
    # (2c) files of 1500 .. 12000 PSMs (more lines than any plausible line-count buffer, 0.1 .. 1 MB) and one long line
    rng = ctx.sub("larger")
    sizes = [1500, 4000, 1500, 2500, 4000, 1001] + ([12000, 8000, 3000, 30000, 2000, 6000, 20000, 1002] if ctx.thorough else [])
    vias = ["file", "stringio", "wrapper", "gzip", "file", "stringio"]
    for k, nrows in enumerate(sizes):
        npre, npost = rng.randint(1, 4), rng.randint(0, 2)
        kind = ["late-multi-protein", "last-line-multi-protein", "late-short-line", "late-surplus-field", "regular",
                "last-line-multi-protein"][k % 6]
        via = vias[k % len(vias)]
        late = rng.randrange(2 * nrows // 3, nrows - 1)
        tags = ["larger", kind]
        if kind in ("late-multi-protein", "last-line-multi-protein", "regular"):
            at = {"late-multi-protein": late, "last-line-multi-protein": nrows - 1, "regular": None}[kind]
            st = _big_struct(nrows, npre, npost, multi_at=at, final_nl=(kind != "last-line-multi-protein"), dd=(k % 4 == 3))
            for c in _mk(st, TAB, ":", "default", via):
                c["tags"] = c["tags"] + tags + ["bytes>%dk" % (len(c["text"]) // 1024)]
                cases.append(c)
        else:
            st = _big_struct(nrows, npre + 1, npost)
            lines = render(st, TAB).split("\n")
            fs = lines[1 + late].split(TAB)
            lines[1 + late] = TAB.join(fs[:-1] if kind == "late-short-line" else fs + ["surplus"])
            txt = "\n".join(lines)
            for fn in ("is_valid", "convert_file"):
                cases.append({"fn": fn, "sc": TAB, "sp": ":", "call": "default", "via": via, "text": txt,
                              "tags": tags + ["malformed-large", via, "rows=%d" % nrows, "bytes>%dk" % (len(txt) // 1024)]})
    # a PSM line longer than the 8 KiB buffer of a text file (the model needs seconds for it: few cases)
    for k in range(3 if ctx.thorough else 1):
        nprot = [380, 420, 400][k]
        st = _big_struct(6, 2, k % 2, multi_at=[3, 0, 5][k], nprot=nprot, final_nl=(k != 2))
        via = ["file", "stringio", "gzip"][k]
        for c in _mk(st, TAB, ":", "default", via)[:2]:
            c["tags"] = c["tags"] + ["long-line", "line>%dk" % (max(len(l) for l in c["text"].split("\n")) // 1024)]
            cases.append(c)


def _gen_malformed(ctx, cases):
    # (3) malformed / free-form stream
    rng = ctx.sub("malformed")
    nmal = 1500 if ctx.thorough else 400
    mal_pairs = [(TAB, ":", "default"), (TAB, ":", "kw"), (TAB, "|||", "kw"), (",", ";", "kw"), (" ", "", "pos"),
                 (TAB, "::", "pos"), (";", ":", "kw")]
    for k in range(nmal):
        sc, sp, call = mal_pairs[k % len(mal_pairs)] if k % 2 else mal_pairs[rng.randrange(2)]
        toks = ["a", "b", "Proteins", sc, sc, sc, "\n", "\n", " ", ":", DD, "\r", "x y", "", "\x0b", "\x1c", "\t", ","]
        n = rng.randint(0, 14)
        txt = "".join(rng.choice(toks) for _ in range(n))
        if rng.random() < 0.5:
            # make it header-like so that deeper branches are reached
            w = rng.randint(1, 4)
            pos = rng.randrange(w)
            hdr = ["h%d" % j for j in range(w)]
            hdr[pos] = "Proteins"
            body = []
            for _ in range(rng.randint(0, 4)):
                nf = max(0, w + rng.choice([-2, -1, 0, 0, 0, 1, 2, 3]))
                fs = [rng.choice(["a", "b", "", " ", "p q", DD, ":", "\r"]) for _ in range(nf)]
                body.append(sc.join(fs))
            txt = "\n".join([sc.join(hdr)] + body) + rng.choice(["", "\n", "\n\n", " \n"])
        # every 5th text through a real file (\r and \r\n are line ends there), every 7th through a SpooledTemporaryFile
        via = "file" if k % 5 == 0 else ("spooled" if k % 7 == 0 else "stringio")
        for fn in ("convert_file", "is_valid"):
            cases.append({"fn": fn, "text": txt, "sc": sc, "sp": sp, "call": call, "via": via,
                          "tags": ["malformed", via] + _septag(sc, sp, call)})


EDGE_TEXTS = [
    "", "\n", "\n\n", "Proteins", "Proteins\n", "Proteins\n\n", "Proteins\n\n\n", "a{s}Proteins\n\n", "Proteins\nP", "Proteins\nP\n",
    " Proteins \n P \n",
    # what counts as a DefaultDirection line, and where
    "a{s}Proteins\nDefaultDirection{s}-\nx{s}P1{s}P2\n",
    "a{s}Proteins\nDefaultDirection\nx{s}P1{s}P2\n",
    "a{s}Proteins\nDefaultDirectionX{s}-\nx{s}P1{s}P2\n",
    "a{s}Proteins\n DefaultDirection{s}-\nx{s}P1{s}P2\n",
    "a{s}Proteins\n{s}DefaultDirection{s}-\nx{s}P1\n",
    "a{s}Proteins\ndefaultdirection{s}-\nx{s}P1{s}P2\n",
    "a{s}Proteins\nDEFAULTDIRECTION{s}-\nx{s}P1\n",
    "a{s}Proteins\nDefaultDirectio{s}-\nx{s}P1\n",
    "a{s}Proteins\nDefault Direction{s}-\nx{s}P1\n",
    "a{s}Proteins\nx{s}DefaultDirection\ny{s}P1{s}P2\n",
    "a{s}Proteins\nx{s}P0\nDefaultDirection{s}-\ny{s}P1{s}P2\n",
    "a{s}Proteins\nDefaultDirection{s}-\nDefaultDirection{s}-\ny{s}P1{s}P2\n",
    "a{s}Proteins\nDefaultDirection{s}-\n",
    "a{s}Proteins\nDefaultDirection{s}-",
    "a{s}Proteins\nDefaultDirection{s}-{s}-{s}-\nx{s}P1\n",
    "a{s}Proteins\nDefaultDirection\n\nx{s}P1\n",
    # blank lines, edge separators
    "a{s}Proteins\n\nx{s}P1{s}P2\n",
    "a{s}Proteins\nx{s}P1{s}P2\n\n",
    "a{s}Proteins\nx{s}P1{s}P2\n\ny{s}P3\n",
    "a{s}Proteins\nx{s}P1\n \n",
    "a{s}Proteins{s}\nx{s}P1{s}\n",
    "{s}a{s}Proteins\n{s}x{s}P1\n",
    "a{s}Proteins\nx{s}{s}P2\n",
    "a{s}Proteins\nx{s}P1{s}{s}P3\n",
    # the protein column
    "a{s}Proteins{s}Proteins\nx{s}P1{s}P2{s}P3\n",
    "Proteins{s}a\nP1{s}P2{s}x\nP3{s}y\n",
    "a{s}proteins\nx{s}P1\n",
    "a{s} Proteins\nx{s}P1\n",
    "a{s}Proteins \nx{s}P1{s}P2\n",
    "a{s}Proteins2{s}Proteins\nx{s}q{s}P1{s}P2\n",
    "\ufeffProteins{s}a\nP1{s}P2{s}x\n",
    "\ufeffa{s}Proteins\nx{s}P1{s}P2\n",
    # line ends
    "a{s}Proteins\r\nx{s}P1{s}P2\r\n",
    "a{s}Proteins\rx{s}P1{s}P2\r",
    "a{s}Proteins\r\nDefaultDirection{s}-\r\nx{s}P1{s}P2",
    "a{s}Proteins\n\rx{s}P1{s}P2\n",
]


def _gen_edge(ctx, cases):
    # (3e) enumerated edge texts: what counts as a DefaultDirection line, blank lines, tiny files, line ends
    na_ok = _nonascii_ok()
    for sc, sp, call in [(TAB, ":", "default"), (",", ";", "kw"), (TAB, "|||", "pos")]:
        for t in EDGE_TEXTS:
            if "\ufeff" in t and not na_ok:
                continue
            txt = t.replace("{s}", sc)
            for via in ("stringio", "file", "gzip") if ctx.thorough else ("stringio", "file"):
                for fn in ("convert_file", "is_valid"):
                    cases.append({"fn": fn, "text": txt, "sc": sc, "sp": sp, "call": call, "via": via,
                                  "tags": ["malformed", "edge", via] + _septag(sc, sp, call)})


def _gen_lines(ctx, cases):
    # (4) convert_line_pin_to_tsv on random lines with arbitrary idx / n_col
    rng = ctx.sub("lines")
    nline = 900 if ctx.thorough else 300
    for k in range(nline):
        sc = rng.choice([TAB, TAB, ",", " ", ";"])
        sp = rng.choice(SEP_PROTS + [sc, " "])
        call = "default" if (sc == TAB and sp == ":" and rng.random() < 0.5) else rng.choice(["kw", "pos"])
        nf = rng.randint(0, 7)
        fs = [rng.choice(["a", "b", "", "p q", "P1", ":", "x"]) for _ in range(nf)]
        line = sc.join(fs)
        cases.append({"fn": "convert_line", "sc": sc, "sp": sp, "call": call, "line": line,
                      "idx": rng.randint(0, nf + 2), "ncol": rng.randint(0, nf + 4),
                      "tags": ["line-random"] + _septag(sc, sp, call)})


def _gen_headers(ctx, cases):
    # (5) parse_pin_header_columns
    rng = ctx.sub("headers")
    nhdr = 300 if ctx.thorough else 120
    for k in range(nhdr):
        sc = rng.choice([TAB, TAB, ",", " ", ";"])
        call = "default" if (sc == TAB and rng.random() < 0.5) else rng.choice(["kw", "pos"])
        w = rng.randint(0, 5)
        cols = [rng.choice(["a", "Proteins", "proteins", "Proteins ", "", "x y", "Label"]) for _ in range(w)]
        header = rng.choice(["", " ", "\n"]) + sc.join(cols) + rng.choice(["", "\n", " \n", sc])
        cases.append({"fn": "parse_header", "sc": sc, "call": call, "header": header,
                      "tags": ["header"] + _septag(sc, None, call)})


CLI_KINDS = ["valid", "valid", "ragged", "ragged", "ragged-last-line", "dd", "dd-ragged", "crlf-ragged", "crlf-valid",
             "nonascii-ragged", "nonascii-valid", "short-line", "wide", "header-only", "header-dd"]
CLI_ZERO = ["header-only", "header-only-nonl", "header-dd", "header-dd-nonl", "header-only-crlf", "header-alone"]
CLI_LAST_ONLY = ["no-proteins-column", "empty-file"]
CLI_NAMES = [["a.pin", "b.pin", "c.pin"], ["my file.pin", "b c d.pin", "x.pin"], ["s1/x.pin", "s2/x.pin", "s3/x.pin"],
             ["noext", "y.txt", "z.tsv"], ["a.pin", "a.pin.bak", "a.tsv"]]


def _cli_file(rng, kind, na_ok):
    """-> (text on disk, struct or None)"""
    if kind in ("no-proteins-column", "empty-file"):
        if kind == "empty-file":
            return "", None
        return "SpecId\tLabel\tprots\nx\t1\tP1\tP2\n", None
    if kind.startswith("header-"):
        # a PIN without PSMs: left alone when it is only its header, reduced to its header when a DefaultDirection line follows
        if kind == "header-alone":
            hp, ht = [], []
        else:
            hp, ht = ["SpecId", "Label", "ScanNr"] + ["f%d" % j for j in range(rng.randint(0, 3))], rng.choice([[], ["tail"]])
        st = {"hdr_pre": hp, "hdr_post": ht, "rows": [],
              "dd": (DD + (TAB + "-") * (len(hp) + len(ht))) if kind.startswith("header-dd") else None,
              "final_nl": rng.random() < 0.6 if kind in ("header-only", "header-dd") else not kind.endswith("-nonl")}
        txt = render(st, TAB)
        if kind.endswith("-crlf"):
            txt = txt.replace("\n", "\r\n")
        return txt, st
    nonascii = na_ok and kind.startswith("nonascii")
    if kind == "wide":
        st = _wide_struct(rng, TAB, na_ok and rng.random() < 0.5)
    else:
        ragged = "ragged" in kind
        st = _wide_struct(rng, TAB, nonascii, dd_p=0.0, force_multi_first=False, allow_ddrow=False)
        nrows = len(st["rows"])
        for ri, r in enumerate(st["rows"]):
            keep = 1
            if ragged and kind == "ragged-last-line":
                keep = len(r["prots"]) if ri == nrows - 1 else 1
            elif ragged:
                keep = len(r["prots"])
            r["prots"] = r["prots"][:keep]
            if not r["post"]:
                r["prots"][-1] = r["prots"][-1].strip() or "p"
            if not r["pre"]:
                r["prots"][0] = r["prots"][0].strip() or "q"
        if ragged and not _multi(st):
            tgt = st["rows"][-1] if kind == "ragged-last-line" else st["rows"][rng.randrange(nrows)]
            tgt["prots"] = [tgt["prots"][0] or "p0", "extra1", "extra2"]
        if kind == "ragged-last-line":
            st["final_nl"] = rng.random() < 0.5
        if kind.startswith("dd"):
            st["dd"] = DD + (TAB + "-") * (len(st["hdr_pre"]) + len(st["hdr_post"]))
    txt = render(st, TAB)
    if kind == "short-line":
        lines = txt.split("\n")
        if len(st["hdr_pre"]) + len(st["hdr_post"]) > 0 and len(lines) > 2:
            j = rng.randrange(1, len(lines) - (1 if lines[-1] == "" else 0))
            lines[j] = TAB.join(lines[j].split(TAB)[:-1]) or "x"
            txt = "\n".join(lines)
            st = None
    if kind.startswith("crlf"):
        txt = txt.replace("\n", "\r\n")
    return txt, st


def _gen_cli(ctx, cases):
    # (6) the verify step of mokapot.main on 1..3 files
    rng = ctx.sub("cli")
    na_ok = _nonascii_ok()
    nsc = 400 if ctx.thorough else 80
    for k in range(nsc):
        nfiles = rng.choice([1, 2, 2, 2, 3, 3])
        kinds = [rng.choice(CLI_KINDS) for _ in range(nfiles)]
        if k % 3 == 0 and nfiles >= 2:
            kinds[0] = rng.choice(["valid", "crlf-valid", "nonascii-valid"])      # an untouched file before one that is converted
            kinds[1] = rng.choice(["ragged", "dd", "ragged-last-line", "nonascii-ragged"])
        if k % 5 == 2:
            kinds[(k // 5) % nfiles] = CLI_ZERO[(k // 5) % len(CLI_ZERO)]              # a PIN without PSMs, at every position
        if k % 9 == 4:
            kinds[-1] = rng.choice(CLI_LAST_ONLY)
        names = CLI_NAMES[k % len(CLI_NAMES)][:nfiles]
        if na_ok and k % 10 == 7:
            names = ["\u00fcn\u00ef %d.pin" % j for j in range(nfiles)]
        files, structs = [], []
        for kd in kinds:
            t, st = _cli_file(rng, kd, na_ok)
            files.append(t)
            structs.append(st)
        for j in range(nfiles):
            cases.append({"fn": "cli", "files": files, "names": names, "k": j, "struct": structs[j], "kind": kinds[j],
                          "tags": ["cli", "cli-files=%d" % nfiles, "cli-kind=" + kinds[j], "cli-pos=%d" % j]
                          + (["zero-psm"] if kinds[j].startswith("header-") else [])
                          + (["cli-after-valid"] if j > 0 and all(x.endswith("valid") for x in kinds[:j]) else [])})


def gen(ctx):
    cases = []
    _gen_exhaustive(ctx, cases)
    _gen_structured(ctx, cases)
    _gen_wide(ctx, cases)
    _gen_zero(ctx, cases)
    _gen_large(ctx, cases)
    _gen_larger(ctx, cases)
    _gen_malformed(ctx, cases)
    _gen_edge(ctx, cases)
    _gen_lines(ctx, cases)
    _gen_headers(ctx, cases)
    _gen_cli(ctx, cases)
    return cases


# ------------------------------------------------------------------------------------------------ model side
def encode(c):
    sc, sp, call = _seps(c)
    fn = c["fn"]
    if fn == "convert_file":
        if call == "default":
            return "c19.convert_file_default " + lib.s(_model_text(c))
        return "c19.convert_file " + lib.z(ord(sc)) + " " + lib.s(sp) + " " + lib.s(_model_text(c))
    if fn == "is_valid":
        if call == "default":
            return "c19.is_valid_default " + lib.s(_model_text(c))
        return "c19.is_valid " + lib.z(ord(sc)) + " " + lib.s(_model_text(c))
    if fn == "convert_line":
        return ("c19.convert_line " + lib.z(ord(sc)) + " " + lib.s(sp) + " " + lib.s(c["line"]) + " "
                + lib.z(c["idx"]) + " " + lib.z(c["ncol"]))
    if fn == "parse_header":
        return "c19.parse_header " + lib.z(ord(sc)) + " " + lib.s(c["header"])
    if fn == "cli":
        return "c19.verify_text " + lib.s(_universal(c["files"][c["k"]]))
    raise ValueError(fn)


def decode(c, t):
    fn = c["fn"]
    if fn in ("convert_file", "cli"):
        return t.result(t.s)
    if fn == "is_valid":
        return t.result(t.b)
    if fn == "convert_line":
        return ("ok", t.s())
    return t.result(lambda: [t.nat(), t.nat()])


# ------------------------------------------------------------------------------------------------ implementation side
def _pin_to_valid_tsv(fi, fo, sc, sp, call):
    from mokapot.parsers.pin_to_tsv import pin_to_valid_tsv
    if call == "default":
        assert sc == TAB and sp == ":"
        return pin_to_valid_tsv(fi, fo)
    if call == "pos":
        return pin_to_valid_tsv(fi, fo, sc, sp)
    return pin_to_valid_tsv(f_in=fi, f_out=fo, sep_column=sc, sep_protein=sp)


def _is_valid_tsv(fi, sc, call):
    from mokapot.parsers.pin_to_tsv import is_valid_tsv
    if call == "default":
        assert sc == TAB
        return is_valid_tsv(fi)
    if call == "pos":
        return is_valid_tsv(fi, sc)
    return is_valid_tsv(f_in=fi, sep_column=sc)


def _run_module_main(argv):
    """mokapot.parsers.pin_to_tsv.main() as `python -m mokapot.parsers.pin_to_tsv <argv>` would run it"""
    import mokapot.parsers.pin_to_tsv as m
    old = sys.argv
    sys.argv = ["pin_to_tsv"] + list(argv)
    try:
        try:
            m.main()
        except SystemExit as e:           # argparse refused the command line
            raise RuntimeError("SystemExit %r" % (e.code,))
    finally:
        sys.argv = old


def _convert(text, via, sc=TAB, sp=":", call="kw", leftover=None):
    if via == "stringio":
        out = io.StringIO()
        _pin_to_valid_tsv(io.StringIO(text), out, sc, sp, call)
        return out.getvalue()
    if via == "wrapper":
        fi = io.TextIOWrapper(io.BytesIO(text.encode("utf-8")), encoding="utf-8")
        raw = io.BytesIO()
        fo = io.TextIOWrapper(raw, encoding="utf-8", newline="")
        _pin_to_valid_tsv(fi, fo, sc, sp, call)
        fo.flush()
        return raw.getvalue().decode("utf-8")
    if via == "spooled":
        kw = dict(max_size=64, mode="w+", encoding="utf-8", newline="\n")
        with tempfile.SpooledTemporaryFile(**kw) as fi, tempfile.SpooledTemporaryFile(**kw) as fo:
            fi.write(text)
            fi.seek(0)
            _pin_to_valid_tsv(fi, fo, sc, sp, call)
            fo.seek(0)
            return fo.read()
    with tempfile.TemporaryDirectory() as d:
        pi, po = os.path.join(d, "in.pin"), os.path.join(d, "out.tsv")
        if via == "gzip":
            with gzip.open(pi, "wt", encoding="utf-8", newline="") as f:
                f.write(text)
            with gzip.open(pi, "rt", encoding="utf-8") as fi, gzip.open(po, "wt", encoding="utf-8", newline="") as fo:
                _pin_to_valid_tsv(fi, fo, sc, sp, call)
            with gzip.open(po, "rt", encoding="utf-8", newline="") as f:
                return f.read()
        if via == "file":
            with open(pi, "w", newline="", encoding="utf-8") as f:
                f.write(text)
            with open(pi, "r", encoding="utf-8") as fi, open(po, "w", newline="", encoding="utf-8") as fo:
                _pin_to_valid_tsv(fi, fo, sc, sp, call)
            with open(po, "r", newline="", encoding="utf-8") as f:
                return f.read()
        if via in ("main", "main-emptyout", "main-leftover"):
            # the module opens both paths itself (default encoding, text mode)
            with open(pi, "w", newline="") as f:
                f.write(text)
            if via != "main":
                with open(po, "w", newline="") as f:
                    f.write(leftover or "")
            argv = [pi, po]
            if call != "default":
                argv += ["--sep_column=" + sc, "--sep_protein=" + sp]
            _run_module_main(argv)
            with open(po, "r", newline="") as f:
                return f.read()
    raise ValueError(via)


def _valid(text, via, sc=TAB, call="kw"):
    if via == "stringio":
        return bool(_is_valid_tsv(io.StringIO(text), sc, call))
    if via == "wrapper":
        return bool(_is_valid_tsv(io.TextIOWrapper(io.BytesIO(text.encode("utf-8")), encoding="utf-8"), sc, call))
    if via == "spooled":
        with tempfile.SpooledTemporaryFile(max_size=64, mode="w+", encoding="utf-8", newline="\n") as fi:
            fi.write(text)
            fi.seek(0)
            return bool(_is_valid_tsv(fi, sc, call))
    with tempfile.TemporaryDirectory() as d:
        pi = os.path.join(d, "in.pin")
        if via == "gzip":
            with gzip.open(pi, "wt", encoding="utf-8", newline="") as f:
                f.write(text)
            with gzip.open(pi, "rt", encoding="utf-8") as fi:
                return bool(_is_valid_tsv(fi, sc, call))
        if via == "file":
            with open(pi, "w", newline="", encoding="utf-8") as f:
                f.write(text)
            with open(pi, "r", encoding="utf-8") as fi:
                return bool(_is_valid_tsv(fi, sc, call))
    raise ValueError(via)


def _convert_line(line, idx, ncol, sc, sp, call):
    from mokapot.parsers.pin_to_tsv import convert_line_pin_to_tsv
    if call == "default":
        assert sc == TAB and sp == ":"
        return convert_line_pin_to_tsv(line, idx, ncol)
    if call == "pos":
        return convert_line_pin_to_tsv(line, idx, ncol, sc, sp)
    return convert_line_pin_to_tsv(line, idx_protein_col=idx, n_col=ncol, sep_column=sc, sep_protein=sp)


def _parse_header(header, sc, call):
    from mokapot.parsers.pin_to_tsv import parse_pin_header_columns
    if call == "default":
        assert sc == TAB
        r = parse_pin_header_columns(header)
    elif call == "pos":
        r = parse_pin_header_columns(header, sc)
    else:
        r = parse_pin_header_columns(header, sep_column=sc)
    return [int(r[0]), int(r[1])]


class _StopAfterVerify(Exception):
    pass


_CLI_CACHE = {}


def _run_cli(files, names):
    """mokapot.main(<the files> ...) up to the end of its verify step -> (how it ended, text of every file afterwards as a
    text-mode reader sees it)"""
    key = lib.stable_hash([files, names])
    if key in _CLI_CACHE:
        return _CLI_CACHE[key]
    import logging
    import mokapot.mokapot as mm
    with tempfile.TemporaryDirectory() as d:
        paths = []
        for nm, txt in zip(names, files):
            pth = os.path.join(d, nm)
            os.makedirs(os.path.dirname(pth), exist_ok=True)
            with open(pth, "w", newline="") as f:          # default encoding: the one mokapot.main's open() uses
                f.write(txt)
            paths.append(pth)
        old = mm.read_pin

        def stop(*a, **k):
            raise _StopAfterVerify()
        mm.read_pin = stop
        try:
            try:
                mm.main(paths + ["--dest_dir", os.path.join(d, "out"), "--verbosity", "0"])
                end = "returned"
            except _StopAfterVerify:
                end = "verified"
            except BaseException as e:  # noqa
                if isinstance(e, (KeyboardInterrupt, MemoryError)):
                    raise
                end = "raised:" + lib.err_kind(e)
        finally:
            mm.read_pin = old
            logging.disable(logging.CRITICAL)
        contents = []
        for pth in paths:
            try:
                with open(pth, "r") as f:
                    contents.append(f.read())
            except Exception as e:  # noqa
                contents.append("<unreadable: %s>" % type(e).__name__)
    if len(_CLI_CACHE) > 64:
        _CLI_CACHE.clear()
    _CLI_CACHE[key] = (end, contents)
    return end, contents


def _cli(files, names, k):
    end, contents = _run_cli(files, names)
    if end.startswith("raised:") and k == len(files) - 1:
        return ("err", end[len("raised:"):])
    if end == "returned":
        return ("err", "main-returned-without-reading")
    return ("ok", contents[k])


_RESULTS = []           # (case, implementation result) of this process, for the oracle sweep of extra_checks


def _impl(c):
    sc, sp, call = _seps(c)
    fn = c["fn"]
    if fn == "convert_file":
        return call_impl(_convert, c["text"], c.get("via", "stringio"), sc, sp, call, c.get("leftover"))
    if fn == "is_valid":
        return call_impl(_valid, c["text"], c.get("via", "stringio"), sc, call)
    if fn == "convert_line":
        return call_impl(_convert_line, c["line"], c["idx"], c["ncol"], sc, sp, call)
    if fn == "cli":
        return _cli(c["files"], c["names"], c["k"])
    return call_impl(_parse_header, c["header"], sc, call)


def impl(c):
    r = _impl(c)
    _RESULTS.append((c, r))
    return r


def same(c, m, i):
    return lib.jsonable(m) == lib.jsonable(i)


def nontrivial(c):
    fn = c["fn"]
    tags = c.get("tags", [])
    if fn == "parse_header":
        return c["header"].strip() != ""
    if fn == "convert_line":
        if c.get("row") is not None:
            return len(c["row"]["prots"]) >= 2
        return len(c["line"].split(c.get("sc", TAB))) >= 2
    st = c.get("struct")
    if st is not None:
        return _multi(st) or st["dd"] is not None
    if "tsv-of-structured" in tags:
        return bool(c.get("src_multi"))
    if fn == "cli":
        t = _universal(c["files"][c["k"]])
    else:
        t = _model_text(c)
    return len([l for l in t.split("\n") if l.strip()]) >= 2


# ------------------------------------------------------------------------------------------------ the property
def _spec_valid(text, sc=TAB):
    """the property's own definition of validity (independent of the code)"""
    lines = text.split("\n")
    if lines and lines[-1] == "":
        lines.pop()
    if not lines:
        return None                     # no header: the call raises
    if len(lines) >= 2 and lines[1].startswith(DD):
        return False
    n = lines[0].count(sc)
    return all(l.count(sc) == n for l in lines[1:])


def oracle(c, i):
    """property predicate evaluated on the implementation's output"""
    sc, sp, call = _seps(c)
    st = c.get("struct")
    if c["fn"] == "convert_file" and st is not None:
        exp = expected_tsv(st, sc, sp)
        if c.get("via") == "main-leftover" and c.get("leftover") and tuple(i) != ("ok", exp):
            return (f"pin_to_tsv.main() with an output path that already holds {c['leftover']!r}: the output file is not "
                    f"the rectangular table: got {i!r}, expected {exp!r}")
        if tuple(i) != ("ok", exp):
            return (f"conversion of a well-formed PIN (sep_column={sc!r}, sep_protein={sp!r}) is not the expected "
                    f"rectangular table: got {i!r}, expected {exp!r}")
        # out_ok of the theorems: the protein separator contains neither sep_column nor NL and the first
        # converted line does not start with DefaultDirection
        if sc in sp or "\n" in sp or exp.split("\n")[1].startswith(DD):
            return None
        v = call_impl(_valid, exp, "stringio", sc, call)
        if v != ("ok", True):
            return f"converted output is not recognised as valid: {v!r}"
        again = call_impl(_convert, exp, "stringio", sc, sp, call)
        if again != ("ok", exp):
            return f"conversion is not idempotent: {again!r}"
        return None
    if c["fn"] == "is_valid" and st is not None:
        want = (not _multi(st)) and st["dd"] is None
        if tuple(i) != ("ok", want):
            return (f"is_valid_tsv returned {i!r} for a PIN that " + ("is rectangular and has no DefaultDirection line"
                    if want else "has a DefaultDirection line or a PSM with several proteins"))
        return None
    if c["fn"] == "convert_line" and c.get("row") is not None:
        r = c["row"]
        exp = sc.join(r["pre"] + [sp.join(r["prots"])] + r["post"])
        if tuple(i) != ("ok", exp):
            return (f"line conversion (sep_column={sc!r}, sep_protein={sp!r}) does not keep the other fields and join "
                    f"the proteins: got {i!r}, expected {exp!r}")
        return None
    if c["fn"] == "cli" and st is not None:
        # after the verify step the user's file holds the rectangular table (it is left alone if it was one)
        txt = _universal(c["files"][c["k"]])
        exp = expected_tsv(st, TAB, ":") if (_multi(st) or st["dd"] is not None) else txt
        if tuple(i) != ("ok", exp):
            return (f"after mokapot's verify step file {c['k']} ({c['names'][c['k']]!r}, {c['kind']}) of {len(c['files'])} does "
                    f"not hold the expected table: got {i!r}, expected {exp!r}")
        return None
    if c["fn"] == "is_valid":
        t = _model_text(c)
        if "\r" not in t and "\x0b" not in t and "\x1c" not in t and sc != "\n":
            sv = _spec_valid(t, sc)
            if sv is not None and i[0] == "ok" and bool(i[1]) != sv:
                return f"is_valid_tsv returned {i[1]} but the text is {'valid' if sv else 'invalid'} by definition"
    return None


# ------------------------------------------------------------------------------------------------ oracle-only inputs
def _oracle_only_cases(ctx):
    """inputs the extracted model is not run on: very long lines, multi-character sep_column"""
    rng = ctx.sub("oracle-only")
    cases = []
    # PSM lines of 70-300 KiB
    sizes = [3000, 5000] + ([12000, 4000, 8000] if ctx.thorough else [])
    for k, nprot in enumerate(sizes):
        st = _big_struct(rng.randint(3, 40), rng.randint(0, 3), k % 2, multi_at=0, nprot=nprot, final_nl=(k % 3 != 2))
        at = rng.randrange(len(st["rows"]))
        st["rows"][0]["prots"], st["rows"][at]["prots"] = st["rows"][at]["prots"], st["rows"][0]["prots"]
        via = ["file", "stringio", "gzip", "wrapper", "spooled"][k % 5]
        sc, sp, call = [(TAB, ":", "default"), (",", "|||", "kw")][k % 2]
        for c in _mk(st, sc, sp, call, via)[:2]:
            c["tags"] = ["oracle-only", "huge-line", "line>%dk" % (max(len(l) for l in c["text"].split("\n")) // 1024), via]
            cases.append(c)
    # multi-character column separators
    for k in range(120 if ctx.thorough else 40):
        sc = rng.choice(["||", ", ", "<>", "\t\t", "::"])
        sp = rng.choice([":", ";", "|||", "", "/"])
        alpha = "abXYZ019._+-"

        def field():
            return "".join(rng.choice(alpha) for _ in range(rng.randint(1, 5)))
        npre, npost = rng.randint(0, 4), rng.randint(0, 2)
        rows = [{"pre": [field() for _ in range(npre)], "prots": [field() for _ in range(rng.choice([1, 1, 2, 3, 6]))],
                 "post": [field() for _ in range(npost)]} for _ in range(rng.randint(1, 5))]
        st = {"hdr_pre": ["c%d" % j for j in range(npre)], "hdr_post": ["d%d" % j for j in range(npost)],
              "dd": (DD + (sc + "-") * (npre + npost)) if rng.random() < 0.4 else None, "rows": rows,
              "final_nl": rng.random() < 0.6}
        call = rng.choice(["kw", "pos"])
        for c in _mk(st, sc, sp, call, "file" if k % 3 == 0 else "stringio")[:2] + _line_cases(st, sc, sp, call)[:1]:
            c["tags"] = ["oracle-only", "multi-char-sep_column", f"sc={sc!r}"]
            cases.append(c)
    return cases


def extra_checks(ctx):
    """(a) the property oracle on every structured / cli / is_valid case of the run (results cached by impl());
    (b) inputs that are checked by the property oracle alone."""
    fails = []
    info = {"oracle_sweep_cases": 0, "oracle_only_cases": 0, "oracle_only_distribution": {}}
    todo = [(c, i, False) for c, i in _RESULTS if c.get("struct") is not None or c["fn"] in ("is_valid", "cli")]
    for c in _oracle_only_cases(ctx):
        todo.append((c, _impl(c), True))
        for t in c["tags"]:
            info["oracle_only_distribution"][t] = info["oracle_only_distribution"].get(t, 0) + 1
    for c, i, only in todo:
        info["oracle_only_cases" if only else "oracle_sweep_cases"] += 1
        try:
            msg = oracle(c, i)
        except Exception as e:  # noqa: a crashing oracle is a defect of this harness and must not go unnoticed
            msg = f"the property oracle crashed: {type(e).__name__}: {e}"
        if not msg:
            continue
        if len(fails) >= 25:
            continue
        small = c if len(json.dumps(lib.jsonable(c))) < 2000000 else {k: v for k, v in c.items() if k not in ("text", "struct")}
        fails.append({"what": msg[:1500], "failing_input": small})
    _RESULTS.clear()
    return fails, info


def shrink(c):
    sc, sp, call = _seps(c)
    if c["fn"] == "cli":
        k = c["k"]
        if len(c["files"]) > 1:
            yield dict(c, files=[c["files"][k]], names=[c["names"][k]], k=0)
            for j in range(len(c["files"])):
                if j != k:
                    yield dict(c, files=c["files"][:j] + c["files"][j + 1:], names=c["names"][:j] + c["names"][j + 1:],
                               k=k - (1 if j < k else 0))
        st = c.get("struct")
        if st is not None and len(st["rows"]) > 1 and "\r" not in c["files"][k]:
            for r in range(len(st["rows"])):
                s2 = dict(st, rows=st["rows"][:r] + st["rows"][r + 1:])
                yield dict(c, struct=s2, files=c["files"][:k] + [render(s2, TAB)] + c["files"][k + 1:])
        return
    st = c.get("struct")
    if st is not None:
        crlf = "crlf" in c.get("tags", [])

        def txt(s2):
            t = render(s2, sc)
            return t.replace("\n", "\r\n") if crlf else t
        # drop rows / the DefaultDirection line
        n = len(st["rows"])
        if n > 16:
            for a, b in ((0, n // 2), (n // 2, n)):
                s2 = dict(st, rows=st["rows"][a:b])
                yield dict(c, struct=s2, text=txt(s2))
        for k in range(min(n, 60)):
            if n > 1:
                s2 = dict(st, rows=st["rows"][:k] + st["rows"][k + 1:])
                yield dict(c, struct=s2, text=txt(s2))
        if st["dd"] is not None:
            s2 = dict(st, dd=None)
            yield dict(c, struct=s2, text=txt(s2))
        return
    if "text" in c:
        t = c["text"]
        if len(t) > 4000:
            ls = t.split("\n")
            body = ls[1:]
            h = len(body) // 2
            yield dict(c, text="\n".join(ls[:1] + body[h:]))
            yield dict(c, text="\n".join(ls[:1] + body[:h]))
            return
        for k in range(len(t)):
            yield dict(c, text=t[:k] + t[k + 1:])
