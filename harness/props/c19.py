"""C19 — PIN -> TSV conversion: correspondence of Model/PinTsv.v with mokapot.parsers.pin_to_tsv.

Every case carries the two separators of the real API: "sc" = sep_column (one character) and
"sp" = sep_protein (any string, also empty / several characters), and "call" = how they are handed
to the real function: "kw" (keywords), "pos" (positionally) or "default" (not passed at all: only
for "\\t" / ":"; the model side then runs the default instances used by Model/Fs.v)."""
import io
import itertools
import os
import tempfile

from .. import lib
from ..lib import call_impl

PROP = "C19"
RULE = ("cases: (1) exhaustive structured PINs over n_pre<=2, n_post<=1, DefaultDirection on/off, "
        "<=2 (quick) / <=3 (thorough) rows x 1..3 proteins (so the FIRST PSM has 1..3 proteins with and without a "
        "DefaultDirection line), final newline on/off, x separator pairs (sep_column, sep_protein) in "
        "{TAB}x{':' passed by default / by keyword, ';', '|||', '', '::'} + {','}x{':', '|||', ''}; "
        "(2) random structured PINs (fields with inner spaces, '|', ':'; first PSM forced to >=2 proteins in 2/3 of them) "
        "with sep_column in {TAB , ; | space} and sep_protein in {: ; ||| '' :: ' ' TAB / -}; "
        "(3) malformed stream: random texts over a token alphabet with ragged rows, empty fields/lines, missing Proteins, "
        "\\r, edge whitespace, for several separator pairs; each text goes to pin_to_valid_tsv and is_valid_tsv (StringIO and, "
        "for a share, real files); (4) convert_line_pin_to_tsv on rows of structured PINs and on random lines with arbitrary "
        "idx_protein_col / n_col (negative slice ends included); (5) parse_pin_header_columns on header-like strings. "
        "distinct = distinct (entry, separators, call form, text); non-trivial = a row with >=2 proteins or a protein column "
        "that is not last or non-default separators or a malformed text")
ASSUMPTIONS = [
    "str.strip() is modelled for ASCII whitespace (9-13, 28-32) only; generated texts are ASCII",
    "text-mode universal newline translation is exercised (real-file cases) but not modelled: those cases contain no \\r",
    "sep_column is ONE character (the model's sepc : Z); a multi-character or empty sep_column (str.split raises "
    "ValueError on '') is outside the model; sep_protein is an arbitrary string",
]
TRUSTED_EXTRA = ["io.StringIO / open() line iteration (oracle: lines end at \\n)"]

DD = "DefaultDirection"
TAB = "\t"
SEP_PROTS = [":", ";", "|||", "", "::"]


def _seps(c):
    return c.get("sc", TAB), c.get("sp", ":"), c.get("call", "kw")


def render(struct, sc=TAB):
    hdr = struct["hdr_pre"] + ["Proteins"] + struct["hdr_post"]
    lines = [sc.join(hdr)]
    if struct["dd"] is not None:
        lines.append(struct["dd"])
    for r in struct["rows"]:
        lines.append(sc.join(r["pre"] + r["prots"] + r["post"]))
    txt = "\n".join(lines)
    if struct["final_nl"]:
        txt += "\n"
    return txt


def expected_tsv(struct, sc=TAB, sp=":"):
    """the property's own description of the output: header, one line per PSM in order, the proteins of
    EVERY PSM joined by the requested protein separator"""
    hdr = struct["hdr_pre"] + ["Proteins"] + struct["hdr_post"]
    lines = [sc.join(hdr)]
    for r in struct["rows"]:
        lines.append(sc.join(r["pre"] + [sp.join(r["prots"])] + r["post"]))
    return "".join(l + "\n" for l in lines)


def _septag(sc, sp, call):
    return [f"sc={sc!r}", f"sp={sp!r}", f"call={call}"]


def _mk(struct, sc=TAB, sp=":", call="kw", via="stringio"):
    txt = render(struct, sc)
    first = struct["rows"][0]
    tags = ["structured", f"rows={len(struct['rows'])}", f"npre={len(struct['hdr_pre'])}",
            f"npost={len(struct['hdr_post'])}", "dd" if struct["dd"] is not None else "nodd", via,
            ("first-multi-" if len(first["prots"]) >= 2 else "first-single-") + ("dd" if struct["dd"] is not None else "nodd"),
            ] + _septag(sc, sp, call)
    base = {"sc": sc, "sp": sp, "call": call, "via": via}
    exp = expected_tsv(struct, sc, sp)
    out = [
        dict(base, fn="convert_file", text=txt, struct=struct, tags=tags),
        dict(base, fn="is_valid", text=txt, struct=struct, tags=tags),
        dict(base, fn="is_valid", text=exp, tags=["tsv-of-structured"] + _septag(sc, sp, call)),
        dict(base, fn="convert_file", text=exp, tags=["tsv-of-structured"] + _septag(sc, sp, call)),
    ]
    return out


def _line_cases(struct, sc, sp, call):
    """convert_line_pin_to_tsv on every row of a structured PIN, with the header's idx / n_col"""
    idx = len(struct["hdr_pre"])
    ncol = idx + 1 + len(struct["hdr_post"])
    out = []
    for r in struct["rows"]:
        out.append({"fn": "convert_line", "sc": sc, "sp": sp, "call": call,
                    "line": sc.join(r["pre"] + r["prots"] + r["post"]), "idx": idx, "ncol": ncol, "row": r,
                    "tags": ["line-structured", f"nprot={len(r['prots'])}"] + _septag(sc, sp, call)})
    return out


def gen(ctx):
    cases = []
    # (1) exhaustive small scope x separator pairs
    maxrows = 3 if ctx.thorough else 2
    pairs = [(TAB, ":", "default"), (TAB, ":", "kw"), (TAB, ";", "kw"), (TAB, "|||", "kw"), (TAB, "", "kw"),
             (TAB, "::", "pos"), (",", ":", "kw"), (",", "|||", "pos"), (",", "", "kw")]
    for npre, npost, dd, fnl in itertools.product(range(3), range(2), (False, True), (False, True)):
        for nrows in range(1, maxrows + 1):
            for pc in itertools.product((1, 2, 3), repeat=nrows):
                rows = []
                for ri, k in enumerate(pc):
                    rows.append({"pre": [f"a{ri}{j}" for j in range(npre)],
                                 "prots": [f"P{ri}{j}" for j in range(k)],
                                 "post": [f"z{ri}{j}" for j in range(npost)]})
                for sc, sp, call in pairs:
                    st = {"hdr_pre": [f"h{j}" for j in range(npre)], "hdr_post": [f"t{j}" for j in range(npost)],
                          "dd": (DD + (sc + "-") * (npre + npost)) if dd else None, "rows": rows, "final_nl": fnl}
                    cases.extend(_mk(st, sc, sp, call))
                    if fnl and not dd and nrows == 1:
                        cases.extend(_line_cases(st, sc, sp, call))
    # (2) random structured
    rng = ctx.sub("structured")
    alpha0 = "abXYZ019|.-_:+ "
    sc_pool = [TAB, TAB, TAB, ",", ",", ";", "|", " "]
    sp_pool = [":", ":", ";", "|||", "", "::", " ", TAB, "/", "-", ", "]
    nrand = 600 if ctx.thorough else 200
    for k in range(nrand):
        sc = rng.choice(sc_pool)
        sp = rng.choice(sp_pool)
        call = "default" if (sc == TAB and sp == ":" and rng.random() < 0.5) else rng.choice(["kw", "kw", "pos"])
        alpha = alpha0.replace(sc, "")

        def field(edge=False):
            n = rng.randint(1, 6)
            sx = "".join(rng.choice(alpha) for _ in range(n))
            if edge:
                sx = sx.strip() or "x"
            return sx
        npre, npost = rng.randint(0, 5), rng.randint(0, 4)
        rows = []
        nrows = rng.randint(1, 6)
        for ri in range(nrows):
            pre = [field() for _ in range(npre)]
            nprot = rng.choice([1, 1, 2, 3, 5])
            if ri == 0 and k % 3 != 0:
                nprot = rng.choice([2, 3, 4])          # the first PSM has several proteins
            prots = [field() for _ in range(nprot)]
            post = [field() for _ in range(npost)]
            # first / last field of the line must survive strip()
            if pre:
                pre[0] = field(True)
            else:
                prots[0] = field(True)
            if post:
                post[-1] = field(True)
            else:
                prots[-1] = (prots[-1].strip() or "y")
            if not pre and len(prots) == 1:
                prots[0] = prots[0].strip() or "w"
            rows.append({"pre": pre, "prots": prots, "post": post})
        hp = [f"c{j}" for j in range(npre)]
        ht = [f"d{j}" for j in range(npost)]
        if hp and rng.random() < 0.3:
            hp[rng.randrange(len(hp))] = "proteins"   # different case: not the protein column
        st = {"hdr_pre": hp, "hdr_post": ht,
              "dd": (DD + (sc + "-") * (npre + npost)) if rng.random() < 0.4 else None,
              "rows": rows, "final_nl": rng.random() < 0.6}
        via = "file" if k % 4 == 0 else "stringio"
        cases.extend(_mk(st, sc, sp, call, via))
        if k % 2 == 0:
            cases.extend(_line_cases(st, sc, sp, call))
    # (2b) large files (beyond any I/O buffer size: 10-60 KiB) whose only irregular line comes late: a multi-protein PSM,
    #      a short line or a long line at a random position in the last third; via file and StringIO
    rng = ctx.sub("large")
    for k in range(24 if ctx.thorough else 8):
        npre, npost = rng.randint(1, 5), rng.randint(0, 4)
        nrows = rng.choice([150, 300, 600, 900])
        late = rng.randrange(2 * nrows // 3, nrows)
        kind = ["multi-protein", "short-line", "regular", "multi-protein"][k % 4]
        rows = []
        for ri in range(nrows):
            pre = ["f%d_%d" % (ri, j) for j in range(npre)]
            post = ["g%d_%d" % (ri, j) for j in range(npost)]
            prots = ["sp|P%05d|PROT_%d" % (ri, ri)]
            if ri == late and kind == "multi-protein":
                prots += ["sp|Q%05d|ALT" % ri, "sp|R%05d|ALT2" % ri]
            rows.append({"pre": pre, "prots": prots, "post": post})
        st = {"hdr_pre": ["c%d" % j for j in range(npre)], "hdr_post": ["d%d" % j for j in range(npost)], "dd": None,
              "rows": rows, "final_nl": True}
        via = "file" if k % 2 == 0 else "stringio"
        if kind == "short-line" and npre + npost > 0:
            txt = render(st, TAB).split("\n")
            txt[1 + late] = TAB.join(txt[1 + late].split(TAB)[:-1])
            txt = "\n".join(txt)
            cases.append({"fn": "is_valid", "sc": TAB, "sp": ":", "call": "default", "via": via, "text": txt,
                          "tags": ["large", "late-short-line", via, "bytes>%dk" % (len(txt) // 1024)]})
        else:
            for c in _mk(st, TAB, ":", "default", via):
                c["tags"] = c["tags"] + ["large", "late-" + kind, "bytes>%dk" % (len(c["text"]) // 1024)]
                cases.append(c)
    # (3) malformed / free-form stream
    rng = ctx.sub("malformed")
    nmal = 1500 if ctx.thorough else 400
    mal_pairs = [(TAB, ":", "default"), (TAB, ":", "kw"), (TAB, "|||", "kw"), (",", ";", "kw"), (" ", "", "pos"),
                 (TAB, "::", "pos"), (";", ":", "kw")]
    for k in range(nmal):
        sc, sp, call = mal_pairs[k % len(mal_pairs)] if k % 2 else mal_pairs[rng.randrange(2)]
        toks = ["a", "b", "Proteins", sc, sc, sc, "\n", "\n", " ", ":", DD, "\r", "x y", "", "\x0b", "\x1c", "\t", ","]
        n = rng.randint(0, 14)
        txt = "".join(rng.choice(toks) for _ in range(n))
        if rng.random() < 0.5:
            # make it header-like so that deeper branches are reached
            w = rng.randint(1, 4)
            pos = rng.randrange(w)
            hdr = ["h%d" % j for j in range(w)]
            hdr[pos] = "Proteins"
            body = []
            for _ in range(rng.randint(0, 4)):
                nf = max(0, w + rng.choice([-2, -1, 0, 0, 0, 1, 2, 3]))
                fs = [rng.choice(["a", "b", "", " ", "p q", DD, ":", "\r"]) for _ in range(nf)]
                body.append(sc.join(fs))
            txt = "\n".join([sc.join(hdr)] + body) + rng.choice(["", "\n", "\n\n", " \n"])
        for fn in ("convert_file", "is_valid"):
            cases.append({"fn": fn, "text": txt, "sc": sc, "sp": sp, "call": call, "via": "stringio",
                          "tags": ["malformed"] + _septag(sc, sp, call)})
    # (4) convert_line_pin_to_tsv on random lines with arbitrary idx / n_col
    rng = ctx.sub("lines")
    nline = 900 if ctx.thorough else 300
    for k in range(nline):
        sc = rng.choice([TAB, TAB, ",", " ", ";"])
        sp = rng.choice(SEP_PROTS + [sc, " "])
        call = "default" if (sc == TAB and sp == ":" and rng.random() < 0.5) else rng.choice(["kw", "pos"])
        nf = rng.randint(0, 7)
        fs = [rng.choice(["a", "b", "", "p q", "P1", ":", "x"]) for _ in range(nf)]
        line = sc.join(fs)
        cases.append({"fn": "convert_line", "sc": sc, "sp": sp, "call": call, "line": line,
                      "idx": rng.randint(0, nf + 2), "ncol": rng.randint(0, nf + 4),
                      "tags": ["line-random"] + _septag(sc, sp, call)})
    # (5) parse_pin_header_columns
    rng = ctx.sub("headers")
    nhdr = 300 if ctx.thorough else 120
    for k in range(nhdr):
        sc = rng.choice([TAB, TAB, ",", " ", ";"])
        call = "default" if (sc == TAB and rng.random() < 0.5) else rng.choice(["kw", "pos"])
        w = rng.randint(0, 5)
        cols = [rng.choice(["a", "Proteins", "proteins", "Proteins ", "", "x y", "Label"]) for _ in range(w)]
        header = rng.choice(["", " ", "\n"]) + sc.join(cols) + rng.choice(["", "\n", " \n", sc])
        cases.append({"fn": "parse_header", "sc": sc, "call": call, "header": header,
                      "tags": ["header"] + _septag(sc, None, call)})
    return cases


def encode(c):
    sc, sp, call = _seps(c)
    fn = c["fn"]
    if fn == "convert_file":
        if call == "default":
            return "c19.convert_file_default " + lib.s(c["text"])
        return "c19.convert_file " + lib.z(ord(sc)) + " " + lib.s(sp) + " " + lib.s(c["text"])
    if fn == "is_valid":
        if call == "default":
            return "c19.is_valid_default " + lib.s(c["text"])
        return "c19.is_valid " + lib.z(ord(sc)) + " " + lib.s(c["text"])
    if fn == "convert_line":
        return ("c19.convert_line " + lib.z(ord(sc)) + " " + lib.s(sp) + " " + lib.s(c["line"]) + " "
                + lib.z(c["idx"]) + " " + lib.z(c["ncol"]))
    if fn == "parse_header":
        return "c19.parse_header " + lib.z(ord(sc)) + " " + lib.s(c["header"])
    raise ValueError(fn)


def decode(c, t):
    fn = c["fn"]
    if fn == "convert_file":
        return t.result(t.s)
    if fn == "is_valid":
        return t.result(t.b)
    if fn == "convert_line":
        return ("ok", t.s())
    return t.result(lambda: [t.nat(), t.nat()])


def _pin_to_valid_tsv(fi, fo, sc, sp, call):
    from mokapot.parsers.pin_to_tsv import pin_to_valid_tsv
    if call == "default":
        assert sc == TAB and sp == ":"
        return pin_to_valid_tsv(fi, fo)
    if call == "pos":
        return pin_to_valid_tsv(fi, fo, sc, sp)
    return pin_to_valid_tsv(f_in=fi, f_out=fo, sep_column=sc, sep_protein=sp)


def _is_valid_tsv(fi, sc, call):
    from mokapot.parsers.pin_to_tsv import is_valid_tsv
    if call == "default":
        assert sc == TAB
        return is_valid_tsv(fi)
    if call == "pos":
        return is_valid_tsv(fi, sc)
    return is_valid_tsv(f_in=fi, sep_column=sc)


def _convert(text, via, sc=TAB, sp=":", call="kw"):
    if via == "file":
        with tempfile.TemporaryDirectory() as d:
            pi, po = os.path.join(d, "in.pin"), os.path.join(d, "out.tsv")
            with open(pi, "w", newline="") as f:
                f.write(text)
            with open(pi, "r") as fi, open(po, "w", newline="") as fo:
                _pin_to_valid_tsv(fi, fo, sc, sp, call)
            with open(po, "r", newline="") as f:
                return f.read()
    out = io.StringIO()
    _pin_to_valid_tsv(io.StringIO(text), out, sc, sp, call)
    return out.getvalue()


def _valid(text, via, sc=TAB, call="kw"):
    if via == "file":
        with tempfile.TemporaryDirectory() as d:
            pi = os.path.join(d, "in.pin")
            with open(pi, "w", newline="") as f:
                f.write(text)
            with open(pi, "r") as fi:
                return bool(_is_valid_tsv(fi, sc, call))
    return bool(_is_valid_tsv(io.StringIO(text), sc, call))


def _convert_line(line, idx, ncol, sc, sp, call):
    from mokapot.parsers.pin_to_tsv import convert_line_pin_to_tsv
    if call == "default":
        assert sc == TAB and sp == ":"
        return convert_line_pin_to_tsv(line, idx, ncol)
    if call == "pos":
        return convert_line_pin_to_tsv(line, idx, ncol, sc, sp)
    return convert_line_pin_to_tsv(line, idx_protein_col=idx, n_col=ncol, sep_column=sc, sep_protein=sp)


def _parse_header(header, sc, call):
    from mokapot.parsers.pin_to_tsv import parse_pin_header_columns
    if call == "default":
        assert sc == TAB
        r = parse_pin_header_columns(header)
    elif call == "pos":
        r = parse_pin_header_columns(header, sc)
    else:
        r = parse_pin_header_columns(header, sep_column=sc)
    return [int(r[0]), int(r[1])]


def impl(c):
    sc, sp, call = _seps(c)
    fn = c["fn"]
    if fn == "convert_file":
        return call_impl(_convert, c["text"], c.get("via", "stringio"), sc, sp, call)
    if fn == "is_valid":
        return call_impl(_valid, c["text"], c.get("via", "stringio"), sc, call)
    if fn == "convert_line":
        return call_impl(_convert_line, c["line"], c["idx"], c["ncol"], sc, sp, call)
    return call_impl(_parse_header, c["header"], sc, call)


def same(c, m, i):
    return lib.jsonable(m) == lib.jsonable(i)


def nontrivial(c):
    sc, sp, _ = _seps(c)
    if (sc, sp) != (TAB, ":"):
        return True
    st = c.get("struct")
    if st is None:
        tags = c.get("tags", [])
        return "malformed" in tags or "line-random" in tags or "header" in tags or \
            (c.get("row") is not None and len(c["row"]["prots"]) >= 2)
    return any(len(r["prots"]) >= 2 for r in st["rows"]) or len(st["hdr_post"]) > 0


def _spec_valid(text, sc=TAB):
    """the property's own definition of validity (independent of the code)"""
    lines = text.split("\n")
    if lines and lines[-1] == "":
        lines.pop()
    if len(lines) < 2:
        return None
    if lines[1].startswith(DD):
        return False
    n = lines[0].count(sc)
    return all(l.count(sc) == n for l in lines[1:])


def oracle(c, i):
    """property predicate evaluated on the implementation's output"""
    sc, sp, call = _seps(c)
    st = c.get("struct")
    if c["fn"] == "convert_file" and st is not None:
        exp = expected_tsv(st, sc, sp)
        if tuple(i) != ("ok", exp):
            return (f"conversion of a well-formed PIN (sep_column={sc!r}, sep_protein={sp!r}) is not the expected "
                    f"rectangular table: got {i!r}, expected {exp!r}")
        # out_ok of the theorems: the protein separator contains neither sep_column nor NL and the first
        # converted line does not start with DefaultDirection
        if sc in sp or "\n" in sp or exp.split("\n")[1].startswith(DD):
            return None
        v = call_impl(_valid, exp, "stringio", sc, call)
        if v != ("ok", True):
            return f"converted output is not recognised as valid: {v!r}"
        again = call_impl(_convert, exp, "stringio", sc, sp, call)
        if again != ("ok", exp):
            return f"conversion is not idempotent: {again!r}"
        return None
    if c["fn"] == "convert_line" and c.get("row") is not None:
        r = c["row"]
        exp = sc.join(r["pre"] + [sp.join(r["prots"])] + r["post"])
        if tuple(i) != ("ok", exp):
            return (f"line conversion (sep_column={sc!r}, sep_protein={sp!r}) does not keep the other fields and join "
                    f"the proteins: got {i!r}, expected {exp!r}")
        return None
    if c["fn"] == "is_valid" and "\r" not in c["text"] and "\x0b" not in c["text"] and "\x1c" not in c["text"] \
            and sc != "\n":
        sv = _spec_valid(c["text"], sc)
        if sv is not None and i[0] == "ok" and bool(i[1]) != sv:
            return f"is_valid_tsv returned {i[1]} but the text is {'valid' if sv else 'invalid'} by definition"
    return None


def shrink(c):
    sc, sp, call = _seps(c)
    st = c.get("struct")
    if st is not None:
        # drop rows / the DefaultDirection line
        for k in range(len(st["rows"])):
            if len(st["rows"]) > 1:
                s2 = dict(st, rows=st["rows"][:k] + st["rows"][k + 1:])
                yield dict(c, struct=s2, text=render(s2, sc))
        if st["dd"] is not None:
            s2 = dict(st, dd=None)
            yield dict(c, struct=s2, text=render(s2, sc))
        return
    if "text" in c:
        txt = c["text"]
        for k in range(len(txt)):
            yield dict(c, text=txt[:k] + txt[k + 1:])
