"""C13 — chunked reading equals whole reading; writers lose and reorder nothing.

Correspondence of Model/Chunks.v, Model/Readers.v, Model/Buffered.v with the real readers and writers of
mokapot.tabular_data / mokapot.streaming.  A table is sent to the model as column-name ids and rows of cell
ids; the harness maps every distinct cell value (after the canonical mapping below) to one id, so that
pandas' / pyarrow's (de)serialisation of a value is an oracle and everything else (rows, row order, column
order, row index, chunk boundaries, emitted batches) is compared exactly."""
import atexit
import copy
import itertools
import os
import shutil
import tempfile
from fractions import Fraction
from pathlib import Path

from .. import lib
from ..lib import call_impl

PROP = "C13"
RULE = ("cases: (1) exhaustive small scope: every leaf reader (DataFrameReader, CSVFileReader via from_path with "
        ".tab/.csv/.tsv/sep=',', ParquetFileReader with row-group sizes 1,2 (thorough also 3,n)) x n in 0..5 (thorough 0..8) x chunk size "
        "1..n+1 x column requests (None, the empty list, each single column, reversed order, a 2-permutation) for read and "
        "get_chunked_data_iterator, and small composite trees (computed readers at the root, inside a join, under a "
        "renaming and nested in each other) x n x chunk size x requests incl. None; (2) random reader trees of depth <= 3 (thorough 4) built from ColumnMappedReader "
        "(ctor and from_path(column_map=)), JoinedTabularDataReader, ComputedTabularDataReader (const / copy-of-column "
        "functions) over such leaves, random NoDup column requests in random order or columns=None (also on trees with "
        "computed readers: an ordinary request), the empty request and requests that leave a file leaf without any requested "
        "column included (about one request in eight is empty or only-computed-columns); (2b) the regression of the repaired "
        "leaf readers (/repo 37b7b88, 79a1472), in both tiers: CSV (.tab, sep=',') and Parquet (row groups of 1, 2, 3 rows) "
        "leaves x n in 0..5 (thorough 0..8) x read and chunk sizes 1..n+1 x {columns=[] on the leaf, [] under a renaming "
        "(from_path; thorough also ctor), only the computed column of a computed reader over the leaf (const and nested computed), "
        "joined readers with the file member first / last / in the middle and none of its columns requested, a file "
        "leaf asked for columns=[] next to one asked for a column, columns=[] on a joined reader} (quick: one request per "
        "shape, thorough: several); (3) malformed stream: unknown and "
        "repeated requested columns, chunk size 0, members of different length in a join, colliding renames, "
        "functions that are not row-wise (len) or return the wrong length, empty "
        "join, a non-empty request of unknown names only (Parquet: passed on to pyarrow, an empty projection after all); (4) writers: TabularDataWriter.from_suffix x {.csv,.tab,.parquet} x buffer_size "
        "0..4 (thorough 0..6) x buffer_type {DataFrame,Dicts,Records} x all append-size sequences over {0,1,2,3} of "
        "length <= 3 (thorough <= 4), random longer sequences, BufferedWriter constructed directly with size 1..3; "
        "emitted batches are observed as Parquet row groups, and (trace cases, CSV) the number of rows that reached "
        "the file is read back after every append_data. "
        "White-box review (both tiers; none of these changes the model's answer, which is computed from the table, the request "
        "and the append sequence alone): (5) leaf variety: every suffix in CSV_SUFFIXES, unknown suffixes (.txt, .tsv, none, "
        ".PARQUET: from_path / from_suffix fall back to delimited text), sep ',' ';' '|', Parquet files with IRREGULAR row groups "
        "(one write_table call per group, empty groups included), DataFrameReader.from_series / from_array, frames with "
        "object-dtype strings and int32/float32 columns, join_readers(), computed functions returning a list / an "
        "index-carrying Series; cells: 2^53+1 / 2^62 integers, NaN floats, None strings, strings with tab, quote, "
        "separator characters, newline, leading blank; (6) row labels: DataFrameReader over frames labelled otherwise "
        "than 0..n-1 (reversed+offset, increasing with gaps, strings, duplicates, RangeIndex(10..), negative) alone, renamed, "
        "computed, joined with frames of the same labels, n 0..4 (0..6) x every chunk size: the model numbers rows by "
        "position, the harness maps position -> label before comparing; (7) repeated calls: the observed request "
        "follows other requests on the same reader object (read all, full chunked pass, abandoned chunk iterator, another "
        "projection, get_column_names) or the chunk iterator is consumed with next() and the reader is read whole in "
        "between; get_column_names() itself is observed after a whole read / a chunked pass of every small tree (the regression "
        "of the repair af0267a of /repo: a computed reader used to write its column into the wrapped DataFrameReader's frame); (8) writers, one variation at a time over {.tab,.parquet} x b {0,2,3} x buffer kinds x 5 append "
        "sequences, and 300 (1500) random combinations: sep; column_types (matching, wider: int as float64, large_string; numpy dtypes "
        "for delimited text); a file already at the path (older table of the same layout, garbage bytes, a header whose last "
        "line has no line end, an earlier session of the same writer object); driving style (with / initialize+finalize / "
        "a with block left by an exception / auto_finalize over a list or dict view of two writers fed alternately / header by one writer object and rows "
        "through a never-initialised second one / write(frame)); row labels of appended frames (reset, permuted, strings, all "
        "equal); numpy scalars in dicts, a one-element list of dicts; the caller overwrites the object it has just appended "
        "(frames, dicts, records; for dicts the regression of the repair 6413561 of /repo); "
        "an append whose columns come in another order (checked by the oracle alone: ValueError or the right rows); the "
        "finalised file read back in chunks through a second associated reader; all suffixes; default arguments "
        "(BufferedWriter(inner): 1000 rows, append sequences up to 2300 rows); column names with blanks, separators, digits, "
        "'index', 'Unnamed: 0'; (9) finding streams (known_findings.json): Parquet files written by pandas with their row "
        "labels, delimited-text string columns whose first rows look like numbers; "
        "(10) shared in-memory frames (round 5): ColumnMappedReader over DataFrameReader(s) of the caller's frame with maps whose "
        "targets overlap their sources (swap, chains in both listing orders, 3-chain, 3-cycle, swap + fresh name) and their "
        "neighbours (fresh names only, identity pair, absent sources), alone, nested in each other, under / over a computed "
        "reader, in a join (also a join of a frame with a renamed view of the SAME frame object, a renaming across join members), "
        "n = 3 (thorough 0,1,2,3,5; the full cross for the swap and the chain over a frame, thorough for every tree at n = 3, "
        "a rotating selection otherwise): the observed request (read / every chunk size / lazy chunks / get_column_names x None, all "
        "names, a 2-permutation, one name) follows a whole read with columns=None and 9 other histories on the same reader "
        "object; a plain DataFrameReader and a second renamed reader over the SAME DataFrame object are observed after the "
        "first reader object was read ('the frame the caller handed over is unchanged', judged by model and oracle like any "
        "read of that frame); the same maps over delimited-text / Parquet leaves (ctor, from_path) and frames with row "
        "labels / object strings; 60 (400) random partial permutations / chains with random histories.  In EVERY reader "
        "case of every stream the harness keeps a deep copy of each DataFrame it hands to DataFrameReader and compares "
        "names, labels, dtypes and values after the observation (a difference is reported as the error FrameChanged, which "
        "the model never returns). "
        "distinct = distinct (entry, reader tree / writer "
        "configuration and variation, tables, chunk size, request, earlier requests); non-trivial = >= 2 rows and (>= 2 chunks or a composite "
        "reader or >= 2 appends)")
ASSUMPTIONS = [
    "cell values are opaque: values are compared after the canonical mapping bool -> bool, int/float -> exact "
    "rational (so 1 and 1.0 are the same cell: CSV text and pd.concat(axis=1) padding cannot keep them apart), "
    "str -> str, NaN/None -> NaN; floats have <= 6 significant digits so that the text round trip is exact",
    "column names within one base table are distinct and every base "
    "table has at least one column (a CSV file without columns cannot be parsed, pyarrow keeps no rows for a Parquet table "
    "without columns); frames with row labels other than 0..n-1 are used with DataFrameReader only in well-formed trees "
    "all of whose leaves are frames carrying the same labels (pd.concat(axis=1) aligns on labels: frames with different "
    "labels are not 'column-joined' row by row), duplicate labels only without a join; the model's positions are mapped to "
    "labels by the harness",
    "string cells are non-empty and do not look like numbers, booleans or NA markers ('', 'NA', 'nan', '1', 'True' change "
    "their type in pandas' text round trip - outside what mokapot's code decides), except in the finding stream "
    "csv:numeric-looking-strings-first; Records appends carry no None strings (numpy cannot promote such records)",
    "a writer owns the path it is given from initialize() on: whatever was there before must not show in the finalised file; "
    "a second writer object on the same path that is never initialised appends to it (delimited text only: mokapot's own "
    "confidence code relies on it)",
    "an appended frame / dict whose columns come in another order than the writer's may be refused with ValueError; if it is "
    "accepted the values must come back under their own names (this class is judged by the property oracle, the model "
    "has no notion of column order inside an append)",
    "objects handed to append_data may be re-used by the caller afterwards: every buffer kind keeps the values the rows had "
    "when they were appended (the DataFrame buffer deep-copies, the Records buffer np.append()s, the Dicts buffer copies each "
    "dict since the repair 6413561 of /repo); a reader is a value: an earlier request on the same reader object (a whole read "
    "of a ComputedTabularDataReader over a DataFrameReader included: repair af0267a of /repo) changes neither what it "
    "answers next nor its get_column_names(); a reader only reads: the DataFrame handed to a DataFrameReader has the same "
    "column names, row labels, dtypes and values after any sequence of requests on readers built over it, and several reader "
    "objects over one DataFrame object answer as if each had its own copy",
    "the pairs of a column map have distinct sources (dict(pairs) keeps the last pair of a repeated source, the model's "
    "tr_rename the first: the generators never repeat a source); targets may be sources of other pairs (the lookup is one "
    "step, in Python's dict.get as in tr_rename)",
    "negative chunk sizes are not modelled (the model's chunk size is a nat); chunk size 0 is",
    "Parquet record-batch lengths are an oracle recorded from pyarrow.ParquetFile.iter_batches(c) per case (once with "
    "a column projected, once with none: pyarrow 25 re-chunks across row groups only in the first case); the contract "
    "(all batches but the last have c rows, none is empty, they sum to n, independent of which column is projected) "
    "is asserted on every value recorded with a projected column (first column, last column, all columns); the lengths "
    "recorded with no column projected only enter for a non-empty request of unknown names only (outside the domain of "
    "the property), they must sum to n",
    "every duplicate-free request of known columns is in the domain of the property, the empty request and requests that "
    "leave a CSV / Parquet leaf of a tree without a requested column included (after the repairs 37b7b88 / 79a1472 of "
    "/repo such a leaf delivers all its rows without columns; the former guard tr_req of the theorems is gone); the one "
    "remaining guard on requests is tr_req_inv: a copy-of-column function must find its source column among the "
    "requested ones whenever its computed column is requested",
    "a computed column never carries the name of a column of its inner reader (df[k] = ... then appends)",
    "generators are consumed with list(...): the first exception ends the observation",
]
TRUSTED_EXTRA = [
    "pandas.read_csv / DataFrame.to_csv, pyarrow Parquet read/write: value (de)serialisation (oracle: identity on "
    "canonical values)",
    "pyarrow iter_batches batch lengths (oracle with contract, see assumptions)",
    "typeguard: TypeCheckError is read as TypeError",
]

NAN_ID = -1
UNKNOWN_ID = -999
KINDS = ["DataFrame", "Dicts", "Records"]


# ------------------------------------------------------------------------------------------------ temp dir
_TMP = None


def _tmpdir():
    global _TMP
    if _TMP is None or not os.path.isdir(_TMP):
        _TMP = tempfile.mkdtemp(prefix="c13_")
        atexit.register(shutil.rmtree, _TMP, True)
    return _TMP


_CNT = itertools.count()


def _fresh(suffix):
    return Path(_tmpdir()) / f"f{next(_CNT)}{suffix}"


# ------------------------------------------------------------------------------------------------ values / ids
def canon(v):
    import numpy as np
    import pandas as pd
    if isinstance(v, (bool, np.bool_)):
        return "b:%d" % bool(v)
    if v is None or v is pd.NA:
        return "nan"
    if isinstance(v, (int, np.integer)):
        return "n:%s" % Fraction(int(v))
    if isinstance(v, (float, np.floating)):
        if v != v:
            return "nan"
        return "n:%s" % Fraction(float(v))
    if isinstance(v, str):
        return "s:" + v
    return "?:" + repr(v)


class Ids:
    """names -> nat ids, canonical cell values -> Z ids (small ints 0..64 keep their value as id)"""

    def __init__(self):
        self.names = {}
        self.vals = {}

    def name(self, s):
        return self.names.setdefault(s, len(self.names))

    def val(self, v):
        k = canon(v)
        if k == "nan":
            return NAN_ID
        if k.startswith("n:") and "/" not in k and 0 <= int(k[2:]) <= 64:
            return int(k[2:])
        return self.vals.setdefault(k, 1000 + len(self.vals))

    def look_name(self, s):
        return self.names.get(s, 99999)

    def look_val(self, v):
        k = canon(v)
        if k == "nan":
            return NAN_ID
        if k.startswith("n:") and "/" not in k and 0 <= int(k[2:]) <= 64:
            return int(k[2:])
        return self.vals.get(k, UNKNOWN_ID)


def _walk_tables(spec):
    k = spec["k"]
    if k in ("frame", "csv", "parquet"):
        yield spec
    elif k in ("mapped", "computed"):
        yield from _walk_tables(spec["r"])
    elif k == "joined":
        for r in spec["rs"]:
            yield from _walk_tables(r)


def _reg_reader(ids, spec):
    k = spec["k"]
    if k in ("frame", "csv", "parquet"):
        for n in spec["tab"]["names"]:
            ids.name(n)
        for col in spec["tab"]["cols"]:
            for v in col:
                ids.val(v)
    elif k == "mapped":
        _reg_reader(ids, spec["r"])
        for a, b in spec["map"]:
            ids.name(a)
            ids.name(b)
    elif k == "joined":
        for r in spec["rs"]:
            _reg_reader(ids, r)
    elif k == "computed":
        _reg_reader(ids, spec["r"])
        ids.name(spec["col"])
        fn = spec["fn"]
        if fn[0] in ("const", "short"):
            ids.val(fn[1])
        elif fn[0] == "copy":
            ids.name(fn[1])


def _ids(case):
    ids = Ids()
    if "reader" in case:
        _reg_reader(ids, case["reader"])
        for n in case.get("cols") or []:
            ids.name(n)
        for o in case.get("others") or []:                  # (after the observed reader's: the ids of older cases stay)
            _reg_reader(ids, o["reader"])
    if "tab" in case:
        for n in case["tab"]["names"]:
            ids.name(n)
        for col in case["tab"]["cols"]:
            for v in col:
                ids.val(v)
    return ids


def _rows(tab):
    return [list(r) for r in zip(*tab["cols"])] if tab["cols"] else []


def _nrows(tab):
    return len(tab["cols"][0]) if tab["cols"] else 0


# ------------------------------------------------------------------------------------------------ encoding
def _enc_table(ids, tab):
    rows = _rows(tab) if _nrows(tab) else []
    return (lib.lst([ids.name(n) for n in tab["names"]]) + " "
            + lib.lst(rows, lambda r: lib.lst([ids.val(v) for v in r])))


def _enc_reader(ids, spec):
    k = spec["k"]
    if k == "frame":
        return "0 " + _enc_table(ids, spec["tab"])
    if k == "csv":
        return "1 " + _enc_table(ids, spec["tab"])
    if k == "parquet":
        return ("2 " + _enc_table(ids, spec["tab"]) + " " + lib.lst(spec.get("bl") or []) + " "
                + lib.lst(spec.get("bl0") or []))
    if k == "mapped":
        return ("3 " + _enc_reader(ids, spec["r"]) + " "
                + lib.lst(spec["map"], lambda p: lib.z(ids.name(p[0])) + " " + lib.z(ids.name(p[1]))))
    if k == "joined":
        return "4 " + lib.lst(spec["rs"], lambda r: _enc_reader(ids, r))
    if k == "computed":
        fn = spec["fn"]
        if fn[0] == "const":
            f = "0 " + lib.z(ids.val(fn[1]))
        elif fn[0] == "copy":
            f = "1 " + lib.z(ids.name(fn[1]))
        elif fn[0] == "len":
            f = "2"
        else:
            f = "3 " + lib.z(ids.val(fn[1]))
        return "5 " + _enc_reader(ids, spec["r"]) + " " + lib.z(ids.name(spec["col"])) + " " + f
    raise ValueError(k)


def _enc_cols(ids, cols):
    return lib.opt(cols, lambda cs: lib.lst([ids.name(n) for n in cs]))


def encode(c):
    ids = _ids(c)
    fn = c["fn"]
    if fn == "read":
        return "c13.read " + _enc_reader(ids, c["reader"]) + " " + _enc_cols(ids, c["cols"])
    if fn == "chunks":
        return ("c13.chunks " + _enc_reader(ids, c["reader"]) + " " + lib.z(c["c"]) + " "
                + _enc_cols(ids, c["cols"]))
    if fn == "names":
        return "c13.names " + _enc_reader(ids, c["reader"])
    if fn in ("writer", "buffered", "trace"):
        rows = [[ids.val(v) for v in r] for r in _rows(c["tab"])]
        ds, pos = [], 0
        for s in c["sizes"]:
            ds.append(rows[pos:pos + s])
            pos += s
        if (c.get("v") or {}).get("style") == "write":
            # writer.write(frame): one append handed straight to the file writer, whatever the buffer settings
            return ("c13.writer " + lib.z(0) + " 0 " + lib.lst([rows[:pos]], lambda d: lib.lst(d, lambda r: lib.lst(r))))
        return (f"c13.{fn} " + lib.z(c["b"]) + " " + str(KINDS.index(c["kind"])) + " "
                + lib.lst(ds, lambda d: lib.lst(d, lambda r: lib.lst(r))))
    raise ValueError(fn)


def _dec_frame(t):
    idx = t.lst(t.nat)
    names = t.lst(t.nat)
    rows = t.lst(lambda: t.lst(t.z))
    return [idx, names, rows]


def decode(c, t):
    fn = c["fn"]
    if fn == "read":
        return t.result(lambda: _dec_frame(t))
    if fn == "chunks":
        return t.result(lambda: t.lst(lambda: _dec_frame(t)))
    if fn == "names":
        return ("ok", t.lst(t.nat))
    if fn == "writer" or (fn == "buffered" and (c.get("v") or {}).get("style") == "write"):
        def f():
            batches = t.lst(lambda: t.lst(lambda: t.lst(t.z)))
            pending = t.nat()
            return [batches, pending]
        return t.result(f)
    if fn == "trace":
        return t.result(lambda: t.lst(t.int))
    if fn == "buffered":
        def g():
            batches = t.lst(lambda: t.lst(lambda: t.lst(t.z)))
            pending = len(t.lst(lambda: t.lst(t.z)))
            return [batches, pending]
        return t.result(g)
    raise ValueError(fn)


# ------------------------------------------------------------------------------------------------ real code
_DT = {"i": "int64", "f": "float64", "s": "str", "b": "bool"}
_DT_OBJ = {"i": "int64", "f": "float64", "s": "object", "b": "bool"}
_PD_INDEX = "__index_level_0__"


def _narrow_ok(ty, col):
    import numpy as np
    if ty == "i":
        return all(-2 ** 31 < v < 2 ** 31 for v in col)
    if ty == "f":
        return all(v is not None and float(np.float32(v)) == float(v) for v in col)
    return False


def _series(ty, col, dt=None):
    import pandas as pd
    if ty == "f":
        col = [float("nan") if v is None else v for v in col]
    if dt == "object" and ty == "s":
        return pd.Series(col, dtype="object")
    if dt == "narrow" and ty in "if" and _narrow_ok(ty, col):
        return pd.Series(col, dtype="int32" if ty == "i" else "float32")
    return pd.Series(col, dtype=_DT[ty])


def _index_of(tab, n):
    """the row labels a table carries: None = the default RangeIndex"""
    import pandas as pd
    if tab.get("rstart") is not None:
        return pd.RangeIndex(tab["rstart"], tab["rstart"] + n)
    if tab.get("index") is not None:
        return pd.Index(list(tab["index"]), dtype="object" if any(isinstance(x, str) for x in tab["index"]) else "int64")
    return None


def _labels_of(tab):
    n = _nrows(tab)
    if tab.get("rstart") is not None:
        return list(range(tab["rstart"], tab["rstart"] + n))
    if tab.get("index") is not None:
        return list(tab["index"])
    return None


def _df(tab):
    import pandas as pd
    data = {}
    for n, ty, col in zip(tab["names"], tab["types"], tab["cols"]):
        data[n] = _series(ty, col, tab.get("dt"))
    df = pd.DataFrame(data)
    idx = _index_of(tab, len(df))
    if idx is not None:
        df.index = idx
    return df


def _pa_types(tab, wide=False):
    import pyarrow as pa
    m = {"i": pa.int64(), "f": pa.float64(), "s": pa.string(), "b": pa.bool_()}
    if wide:
        m = {"i": pa.float64() if all(abs(v) < 2 ** 52 for ty, col in zip(tab["types"], tab["cols"]) if ty == "i" for v in col)
             else pa.int64(), "f": pa.float64(), "s": pa.large_string(), "b": pa.bool_()}
    return [m[t] for t in tab["types"]]


def _np_types(tab):
    import numpy as np
    m = {"i": np.dtype("int64"), "f": np.dtype("float64"), "s": np.dtype("O"), "b": np.dtype("bool")}
    return [m[t] for t in tab["types"]]


def _write_parquet(tab, rg, rgs=None, pdindex=False):
    import pyarrow as pa
    import pyarrow.parquet as pq
    p = _fresh(".parquet")
    if pdindex:
        # written the way pandas does by default: the row labels are stored (as a column, or as RangeIndex metadata)
        _df(tab).to_parquet(p, row_group_size=max(1, int(rg)))
        return p
    plain = {k: v for k, v in tab.items() if k not in ("index", "rstart")}
    t = pa.Table.from_pandas(_df(plain), preserve_index=False)
    if rgs is not None:
        # row groups of the given (irregular, possibly zero) sizes: one write_table call per group
        w = pq.ParquetWriter(p, t.schema)
        pos = 0
        for s in rgs:
            w.write_table(t.slice(pos, s))
            pos += s
        w.close()
        return p
    pq.write_table(t, p, row_group_size=max(1, int(rg)))
    return p


def _func(fn, ret=None):
    """the function of a computed reader; ret = container of its result: None (numpy array), 'list', 'series' (a Series
    carrying the index of the frame it was given: what df[x] * 2 would be)"""
    import numpy as np
    import pandas as pd
    if fn[0] == "const":
        v = fn[1]
        base = lambda df: np.full(len(df), v, dtype=object)
    elif fn[0] == "copy":
        n = fn[1]
        base = lambda df: df[n].to_numpy()
    elif fn[0] == "len":
        return lambda df: np.full(len(df), len(df))
    else:
        v = fn[1]
        return lambda df: [v]
    if ret == "list":
        return lambda df: list(base(df))
    if ret == "series":
        return lambda df: pd.Series(base(df), index=df.index, dtype=object)
    return base


def _build(spec):
    import numpy as np
    import pandas as pd
    from mokapot.tabular_data import TabularDataReader, DataFrameReader, ColumnMappedReader
    from mokapot.streaming import JoinedTabularDataReader, ComputedTabularDataReader, join_readers
    k = spec["k"]
    if k == "frame":
        ctor = spec.get("ctor")
        df = _df(spec["tab"])
        if _SHARE is not None and spec.get("share") and not ctor:
            # ONE DataFrame object of the caller, handed to every DataFrameReader whose leaf carries this key
            df = _SHARE.setdefault(spec["share"], df)
        if _WATCH is not None and not ctor and not any(df is w[0] for w in _WATCH):
            _WATCH.append((df, df.copy(deep=True)))
        if ctor and len(df.columns) == 1:
            nm = df.columns[0]
            if ctor == "series":                            # the name of the series is the column name
                return DataFrameReader.from_series(df[nm])
            if ctor == "series-name":                       # an explicit name overrides the series' own
                return DataFrameReader.from_series(df[nm].rename("other"), name=nm)
            if ctor == "array-np" and spec["tab"]["types"][0] != "s" and _labels_of(spec["tab"]) is None:
                return DataFrameReader.from_array(df[nm].to_numpy(), nm)
            if ctor == "array-list" and _labels_of(spec["tab"]) is None and None not in spec["tab"]["cols"][0]:
                return DataFrameReader.from_array(list(spec["tab"]["cols"][0]), nm)
        return DataFrameReader(df)
    if k in ("csv", "parquet"):
        cm = spec.get("_cmap")
        kw = {}
        if k == "csv":
            sep = spec.get("sep", "\t")
            p = _fresh(spec.get("suffix", ".tab"))
            _df(spec["tab"]).to_csv(p, sep=sep, index=False)
            if sep != "\t":
                kw["sep"] = sep
        else:
            p = _write_parquet(spec["tab"], spec.get("rg", 1), spec.get("rgs"), bool(spec.get("pdindex")))
        if cm is not None:
            return TabularDataReader.from_path(p, column_map=cm, **kw)
        return TabularDataReader.from_path(p, **kw)
    if k == "mapped":
        cm = {a: b for a, b in spec["map"]}
        inner = spec["r"]
        if spec.get("via") == "from_path" and inner["k"] in ("csv", "parquet"):
            return _build(dict(inner, _cmap=cm))
        return ColumnMappedReader(_build(inner), cm)
    if k == "joined":
        if spec.get("via") == "join_readers":
            return join_readers([_build(r) for r in spec["rs"]])
        return JoinedTabularDataReader([_build(r) for r in spec["rs"]])
    if k == "computed":
        return ComputedTabularDataReader(_build(spec["r"]), spec["col"], np.dtype("O"), _func(spec["fn"], spec.get("ret")))
    raise ValueError(k)


_SHARE = None      # per observation: share key -> the caller's DataFrame
_WATCH = None      # per observation: (the DataFrame handed to a DataFrameReader, a deep copy taken when it was handed over)


class FrameChanged(Exception):
    """the caller's DataFrame (the one handed to DataFrameReader) is not what it was: column names, row labels, dtypes or
    values changed while the readers over it were being read"""


def _setup(c):
    """build the observed reader (and the other reader objects of the case, which share the caller's frames with it),
    drive the other readers, then the earlier requests on the observed reader itself"""
    global _SHARE, _WATCH
    _SHARE, _WATCH = {}, []
    try:
        r = _build(c["reader"])
        others = [(_build(o["reader"]), o.get("pre")) for o in c.get("others") or []]
    finally:
        _SHARE = None
    for o, pre in others:
        _run_pre(o, pre)
    _run_pre(r, c.get("pre"))
    return r


def _frames_untouched():
    """a reader only reads: after the observation every DataFrame that was handed to a DataFrameReader still has its
    column names, row labels, dtypes and values"""
    global _WATCH
    watch, _WATCH = _WATCH or [], None
    for df, was in watch:
        if (list(df.columns) != list(was.columns) or list(df.index) != list(was.index)
                or [str(t) for t in df.dtypes] != [str(t) for t in was.dtypes] or not df.equals(was)):
            raise FrameChanged(f"columns {list(df.columns)} (were {list(was.columns)})")


def _lab(x):
    """a row label as a JSON-able value: integers as int, strings as 's:...'"""
    if isinstance(x, str):
        return "s:" + x
    return int(x)


def _frame_out(ids, df):
    vals = df.to_numpy(dtype=object).tolist()
    return [[_lab(i) for i in df.index], [ids.look_name(n) for n in df.columns],
            [[ids.look_val(v) for v in r] for r in vals]]


def _run_pre(r, pre):
    """earlier requests on the SAME reader object (a reader is stateless: they must not change what follows)"""
    for op in pre or []:
        if op[0] == "read":
            r.read(columns=op[1])
        elif op[0] == "names":
            r.get_column_names()
        else:
            it = r.get_chunked_data_iterator(chunk_size=op[1], columns=op[2])
            if op[3] is None:
                list(it)
            else:                                           # an iterator that is abandoned after op[3] chunks
                for _ in range(op[3]):
                    if next(it, None) is None:
                        break


def _run_read(c):
    ids = _ids(c)
    r = _setup(c)
    out = _frame_out(ids, r.read(columns=c["cols"]))
    _frames_untouched()
    return out


def _run_chunks(c):
    out = _run_chunks_(c)
    _frames_untouched()
    return out


def _run_chunks_(c):
    ids = _ids(c)
    r = _setup(c)
    if c.get("lazy"):                                       # consumed with next(), another reader object used in between
        it = r.get_chunked_data_iterator(chunk_size=c["c"], columns=c["cols"])
        out = []
        while True:
            try:
                df = next(it)
            except StopIteration:
                break
            out.append(_frame_out(ids, df))
            if len(out) == 1:
                r.read(columns=c["cols"])                   # the same reader asked for the whole table in between
        return out
    return [_frame_out(ids, df) for df in r.get_chunked_data_iterator(chunk_size=c["c"], columns=c["cols"])]


def _run_names(c):
    ids = _ids(c)
    r = _setup(c)
    out = [ids.look_name(n) for n in r.get_column_names()]
    _frames_untouched()
    return out


class _Stop(Exception):
    pass


_GARBAGE = {"i": -7, "f": -0.125, "s": "CLOBBERED", "b": None}


def _reindex_part(part, idx, pos):
    """the row labels of an appended DataFrame (a writer stores rows, never labels)"""
    n = len(part)
    if idx == "reset":
        return part.reset_index(drop=True)
    if idx == "perm":
        return part.set_axis([(37 * (pos + j) + 11) % 101 for j in range(n)], axis=0)
    if idx == "str":
        return part.set_axis([f"r{pos + j}" for j in range(n)], axis=0)
    if idx == "dup":
        return part.set_axis([0] * n, axis=0)
    return part


def _append_arg(kind, part, pos=0, v=None, j=0):
    v = v or {}
    names = list(part.columns)
    perm = v.get("colperm") == j and len(names) > 1
    if kind == "DataFrame":
        part = _reindex_part(part.copy(), v.get("idx"), pos)
        return part[names[::-1]] if perm else part
    if kind == "Dicts":
        recs = part.to_dict("records")
        if v.get("dt") == "npscalar":                        # numpy scalars as values (what iterating over arrays gives)
            cols = {n: part[n].to_numpy() for n in names}
            recs = [{n: cols[n][r] for n in names} for r in range(len(part))]
        if perm:
            recs = [{n: d[n] for n in names[::-1]} for d in recs]
        if len(recs) == 1 and not (v.get("one_as_list") and pos % 2 == 0):
            return recs[0]
        return recs
    if len(part) == 1 and (pos % 2 == 1 or len(part.columns) % 2 == 0):
        # a record built on its own (np.rec.fromrecords): its structured dtype is the narrowest that holds THIS row (string
        # fields as wide as this row's strings), so the dtypes of successive records differ; for tables with an even number of columns every record is built this way (the
        # first record then has narrow string fields), otherwise only those at odd positions
        import numpy as np
        row = [part[n].iloc[0] for n in part.columns]         # (column by column: a row Series would turn ints into floats)
        row = [x.item() if hasattr(x, "item") else x for x in row]
        return np.rec.fromrecords([tuple(row)], names=list(part.columns))[0]
    rec = part.to_records(index=False)
    return rec[0] if len(rec) == 1 else rec


def _clobber(kind, arg, tab):
    """the caller re-uses the object it has just appended (fills it with the next values): the rows that were appended
    must not change"""
    import numpy as np
    import pandas as pd
    g = {n: _GARBAGE[t] for n, t in zip(tab["names"], tab["types"])}
    if kind == "DataFrame":
        for n in arg.columns:
            val = g[n]
            if val is None:
                arg[n] = ~arg[n].to_numpy(dtype=bool)
            else:
                arg.loc[:, n] = val
    elif kind == "Dicts":
        for d in ([arg] if isinstance(arg, dict) else arg):
            for n in list(d):
                d[n] = (not d[n]) if g[n] is None else g[n]
    else:
        try:
            for n in arg.dtype.names:
                if g[n] is None:
                    arg[n] = not arg[n]
                elif not isinstance(g[n], str):
                    arg[n] = g[n]
        except Exception:
            pass


def _make_stale(p, how, tab, sep, is_pq):
    """something is already at the path of the file a writer is about to create"""
    if how == "garbage":
        Path(p).write_bytes(b"left over\x00\xff bytes\nof another\tprogram\n\n")
        return
    df = _df({k: x for k, x in tab.items() if k not in ("index", "rstart")})
    if how == "rows":                                        # an older result of the same layout
        if is_pq:
            df.to_parquet(p, index=False)
        else:
            df.to_csv(p, sep=sep or "\t", index=False)
    elif how == "noeol":                                     # an older file whose last line has no line end
        Path(p).write_text((sep or "\t").join(tab["names"]) + "\nold")


def _open_writer(c, p, tab, v):
    from mokapot.tabular_data import (TabularDataWriter, TableType, BufferedWriter, CSVFileWriter, ParquetFileWriter)
    suffix = c["suffix"]
    is_pq = suffix == ".parquet"
    kw = {}
    if is_pq:
        kw["column_types"] = _pa_types(tab, v.get("ctypes") == "wide")
    else:
        if v.get("sep"):
            kw["sep"] = v["sep"]
        if v.get("ctypes"):
            kw["column_types"] = _np_types(tab)
    kind = TableType[c["kind"]]
    if c["fn"] == "buffered":
        inner = (ParquetFileWriter if is_pq else CSVFileWriter)(p, list(tab["names"]), **kw)
        if v.get("defaults"):
            return BufferedWriter(inner), kw
        return BufferedWriter(inner, c["b"], kind), kw
    if v.get("defaults"):
        return TabularDataWriter.from_suffix(p, list(tab["names"]), **kw), kw
    return TabularDataWriter.from_suffix(p, list(tab["names"]), buffer_size=c["b"], buffer_type=kind, **kw), kw


def _run_writer(c):
    import pyarrow.parquet as pq
    from mokapot.tabular_data import TabularDataWriter, auto_finalize
    ids = _ids(c)
    v = c.get("v") or {}
    tab = c["tab"]
    df = _df(tab)
    suffix = c["suffix"]
    is_pq = suffix == ".parquet"
    p = _fresh(suffix)
    if v.get("stale") in ("rows", "garbage", "noeol"):
        _make_stale(p, v["stale"], tab, v.get("sep"), is_pq)
    w, kw = _open_writer(c, p, tab, v)
    style = v.get("style", "with")
    total = sum(c["sizes"])

    def appends(wr, second=None):
        pos = 0
        for j, s in enumerate(c["sizes"]):
            arg = _append_arg(c["kind"], df.iloc[pos:pos + s], pos, v, j)
            wr.append_data(arg)
            if v.get("alias"):
                _clobber(c["kind"], arg, tab)
            if second is not None:
                second.append_data(df.iloc[pos:pos + s].copy())
            pos += s

    if v.get("stale") == "self":
        # the same writer object has been used before: an earlier session wrote other rows to the same path
        with w:
            if c["kind"] == "DataFrame" or c["fn"] == "writer" and c["b"] <= 1:
                w.append_data(df.iloc[::-1].reset_index(drop=True).copy())
            elif c["kind"] == "Dicts":
                w.append_data(df.iloc[::-1].to_dict("records"))
            else:
                for r in df.iloc[::-1].to_records(index=False):
                    w.append_data(r)
    companion = None
    if style == "with":
        with w:
            appends(w)
    elif style == "with-raise":
        # the block is left by an exception after the appends: __exit__ finalises all the same
        try:
            with w:
                appends(w)
                raise _Stop()
        except _Stop:
            pass
    elif style == "explicit":
        w.initialize()
        appends(w)
        w.finalize()
    elif style == "auto":
        # auto_finalize over two writers that are fed alternately (mokapot writes its level files this way)
        p2 = _fresh(".parquet" if not is_pq else ".tab")
        kw2 = {"column_types": _pa_types(tab)} if not is_pq else {}
        w2 = TabularDataWriter.from_suffix(p2, list(tab["names"]), buffer_size=2, **kw2)
        ws = {"a": w, "b": w2}
        with auto_finalize(ws.values() if total % 2 else [w, w2]):
            appends(w, w2)
        back = _frame_out(ids, w2.get_associated_reader().read())
        want = [[ids.val(x) for x in r] for r in _rows(tab)][:total]
        companion = back[2] == want and back[0] == list(range(total))
    elif style == "handoff":
        # the header is written by one writer object, the rows are appended through another one that is never
        # initialised (mokapot.confidence / confidence_writer do this for their delimited-text result files)
        first = TabularDataWriter.from_suffix(p, list(tab["names"]), **kw)
        first.initialize()
        appends(w)
        w.finalize()
    elif style == "write":
        w.write(_reindex_part(df.iloc[:total].copy(), v.get("idx"), 0))
    else:
        raise ValueError(style)
    rd = w.get_associated_reader()
    out = rd.read()
    fr = _frame_out(ids, out)
    rows = fr[2]
    if is_pq and style != "write":
        md = pq.ParquetFile(p).metadata
        sizes = [md.row_group(i).num_rows for i in range(md.num_row_groups)]
        batches, pos = [], 0
        for s in sizes:
            batches.append(rows[pos:pos + s])
            pos += s
        if pos != len(rows):
            batches.append(["row groups do not add up"])
    else:
        batches = None
    buf = getattr(w, "buffer", None)
    pending = 0 if buf is None else len(buf)
    res = {"rows": rows, "batches": batches, "pending": pending, "index": fr[0], "names": fr[1]}
    if companion is not None:
        res["companion"] = companion
    if v.get("rc"):
        # the finalised file read back in chunks through the associated reader (a second one: readers are values)
        chunks = [_frame_out(ids, ch) for ch in w.get_associated_reader().get_chunked_data_iterator(chunk_size=v["rc"])]
        res["chunk_rows"] = [r for ch in chunks for r in ch[2]]
        res["chunk_index"] = [x for ch in chunks for x in ch[0]]
        res["chunk_lens"] = [len(ch[2]) for ch in chunks]
    return res


def _run_trace(c):
    """rows in the (CSV) file after every append_data and after finalize, through the associated reader"""
    v = c.get("v") or {}
    tab = c["tab"]
    df = _df(tab)
    p = _fresh(c["suffix"])
    if v.get("stale") in ("rows", "garbage", "noeol"):
        _make_stale(p, v["stale"], tab, v.get("sep"), False)
    w, _ = _open_writer(c, p, tab, v)
    out = []
    with w:
        pos = 0
        for j, s in enumerate(c["sizes"]):
            w.append_data(_append_arg(c["kind"], df.iloc[pos:pos + s], pos, v, j))
            pos += s
            out.append(len(w.get_associated_reader().read()))
    out.append(len(w.get_associated_reader().read()))
    return out


def _kind_fix(r):
    if r[0] == "err" and r[1] == "TypeCheckError":
        return ("err", "TypeError")
    return r


def impl(c):
    fn = c["fn"]
    if fn == "read":
        return _kind_fix(call_impl(_run_read, c))
    if fn == "chunks":
        return _kind_fix(call_impl(_run_chunks, c))
    if fn == "names":
        return _kind_fix(call_impl(_run_names, c))
    if fn == "trace":
        return _kind_fix(call_impl(_run_trace, c))
    return _kind_fix(call_impl(_run_writer, c))


def _case_labels(c):
    """the row labels of the frame leaves of a reader case (None: default 0..n-1); the generators give every leaf of a tree
    the same labels"""
    for leaf in _walk_tables(c["reader"]):
        if leaf["k"] == "frame":
            lab = _labels_of(leaf["tab"])
            if lab is not None:
                return [_lab(x) for x in lab]
    return None


def _model_view(c, m):
    """the model numbers rows by position; a DataFrameReader over a frame with other row labels delivers the label of
    that position"""
    m = lib.jsonable(m)
    if c["fn"] not in ("read", "chunks") or m[0] != "ok":
        return m
    lab = _case_labels(c)
    if lab is None:
        return m

    def f(fr):
        return [[lab[k] if k < len(lab) else ["no such row", k] for k in fr[0]], fr[1], fr[2]]
    return [m[0], f(m[1]) if c["fn"] == "read" else [f(x) for x in m[1]]]


def _writer_extra_ok(c, out):
    """what the harness observes on top of the read-back table: the companion writer of auto_finalize, the finalised
    file read in chunks"""
    n = len(out["rows"])
    if out.get("companion") is False:
        return "the second writer under auto_finalize did not get exactly its rows"
    if "chunk_rows" in out:
        if out["chunk_rows"] != out["rows"]:
            return "the finalised file read in chunks differs from the file read whole"
        if out["chunk_index"] != list(range(n)):
            return f"the finalised file read in chunks: row index {out['chunk_index']}"
        rc = (c.get("v") or {}).get("rc")
        if any(x != rc for x in out["chunk_lens"][:-1]) or (n and 0 in out["chunk_lens"]):
            return f"the finalised file read in chunks of {rc}: chunk lengths {out['chunk_lens']}"
    return None


def same(c, m, i):
    m = _model_view(c, m)
    i = lib.jsonable(i)
    if c["fn"] in ("writer", "buffered"):
        v = c.get("v") or {}
        if v.get("colperm") is not None and m[0] == "ok" and i[0] == "err":
            # an appended frame / dict whose columns come in another order: the writer may refuse it (ValueError) but
            # must never store values under the wrong name
            return i[1] == "ValueError"
        if m[0] != i[0]:
            return False
        if m[0] == "err":
            return m[1] == i[1]
        batches, pending = m[1]
        out = i[1]
        flat = [r for b in batches for r in b]
        if out["rows"] != flat or out["pending"] != pending:
            return False
        if out["index"] != list(range(len(flat))):
            return False
        if out["names"] != list(range(len(c["tab"]["names"]))):
            return False
        if out["batches"] is not None and out["batches"] != batches:
            return False
        return _writer_extra_ok(c, out) is None
    return m == i


# ------------------------------------------------------------------------------------------------ python spec
def spec_names(spec):
    """get_column_names by definition"""
    k = spec["k"]
    if k in ("frame", "csv", "parquet"):
        return list(spec["tab"]["names"])
    if k == "mapped":
        m = {a: b for a, b in spec["map"]}
        return [m.get(n, n) for n in spec_names(spec["r"])]
    if k == "joined":
        return [n for r in spec["rs"] for n in spec_names(r)]
    return spec_names(spec["r"]) + [spec["col"]]


def spec_table(spec):
    """the table a reader stands for: (names, rows) or None when the property does not speak about it"""
    k = spec["k"]
    if k in ("frame", "csv", "parquet"):
        return list(spec["tab"]["names"]), _rows(spec["tab"]) if _nrows(spec["tab"]) else []
    if k == "mapped":
        t = spec_table(spec["r"])
        if t is None:
            return None
        m = {a: b for a, b in spec["map"]}
        names = [m.get(n, n) for n in t[0]]
        return (names, t[1]) if len(set(names)) == len(names) else None
    if k == "joined":
        ts = [spec_table(r) for r in spec["rs"]]
        if not ts or any(t is None for t in ts) or len({len(t[1]) for t in ts}) != 1:
            return None
        names = [n for t in ts for n in t[0]]
        if len(set(names)) != len(names):
            return None
        n = len(ts[0][1])
        return names, [[v for t in ts for v in t[1][i]] for i in range(n)]
    t = spec_table(spec["r"])
    if t is None or spec["col"] in t[0]:
        return None
    fn = spec["fn"]
    if fn[0] == "const":
        return t[0] + [spec["col"]], [r + [fn[1]] for r in t[1]]
    if fn[0] == "copy" and fn[1] in t[0]:
        j = t[0].index(fn[1])
        return t[0] + [spec["col"]], [r + [r[j]] for r in t[1]]
    return None


def _copy_needs_ok(spec, cols):
    """a copy-of-column function only sees the requested columns: its source must be requested whenever the computed
    column is (tr_req_inv)"""
    k = spec["k"]
    if k in ("frame", "csv", "parquet"):
        return True
    if k == "mapped":
        if cols is None:
            return _copy_needs_ok(spec["r"], None)
        names = spec_names(spec["r"])
        m = {a: b for a, b in spec["map"]}
        rev = {m.get(n, n): n for n in names}
        return _copy_needs_ok(spec["r"], [rev[x] for x in cols if x in rev])
    if k == "joined":
        return all(_copy_needs_ok(r, None if cols is None else [n for n in spec_names(r) if n in cols])
                   for r in spec["rs"])
    if cols is None:
        return True
    sub = [x for x in cols if x != spec["col"]]
    # (func is only called when its column is requested)
    if spec["col"] in cols and spec["fn"][0] == "copy" and spec["fn"][1] not in sub:
        return False
    return _copy_needs_ok(spec["r"], sub)


def has_computed(spec):
    k = spec["k"]
    if k == "computed":
        return True
    if k == "mapped":
        return has_computed(spec["r"])
    if k == "joined":
        return any(has_computed(r) for r in spec["rs"])
    return False


def leaf_unasked(spec, cols, kind="csv"):
    """some CSV (Parquet) leaf is asked for an empty list of columns (used for tags only: since the repair of the leaf
    readers these are ordinary requests)"""
    k = spec["k"]
    if k == kind:
        return cols is not None and not [x for x in cols if x in spec["tab"]["names"]]
    if k in ("frame", "parquet", "csv"):
        return False
    if k == "mapped":
        if cols is None:
            return leaf_unasked(spec["r"], None, kind)
        names = spec_names(spec["r"])
        m = {a: b for a, b in spec["map"]}
        rev = {m.get(n, n): n for n in names}
        return leaf_unasked(spec["r"], [rev[x] for x in cols if x in rev], kind)
    if k == "joined":
        return any(leaf_unasked(r, None if cols is None else [n for n in spec_names(r) if n in cols], kind)
                   for r in spec["rs"])
    if cols is None:
        return False
    return leaf_unasked(spec["r"], [x for x in cols if x != spec["col"]], kind)


def in_domain(c):
    """the case is one the property text speaks about"""
    if c["fn"] not in ("read", "chunks"):
        return False
    t = spec_table(c["reader"])
    if t is None:
        return False
    cols = c["cols"]
    if cols is not None and (len(set(cols)) != len(cols) or any(x not in t[0] for x in cols)):
        return False
    if c["fn"] == "chunks" and c["c"] < 1:
        return False
    return _copy_needs_ok(c["reader"], cols)


def oracle(c, i):
    """the property, evaluated on what the implementation returned"""
    i = lib.jsonable(i)
    fn = c["fn"]
    ids = _ids(c)
    if fn == "trace":
        if c["kind"] == "Records" and any(s != 1 for s in c["sizes"]):
            return None
        if i[0] != "ok":
            return f"writing raised {i[1]}"
        if i[1][-1] != sum(c["sizes"]):
            return f"the finalised file holds {i[1][-1]} rows, {sum(c['sizes'])} were appended"
        return None
    if fn in ("writer", "buffered"):
        one_shot = (c.get("v") or {}).get("style") == "write"
        if c["kind"] == "Records" and any(s != 1 for s in c["sizes"]) and not one_shot:
            return None
        if fn == "writer" and c["b"] <= 1 and c["kind"] != "DataFrame" and not one_shot:
            return None
        if fn == "buffered" and c["b"] < 1 and not one_shot:
            return None
        rows = [[ids.val(v) for v in r] for r in _rows(c["tab"])][:sum(c["sizes"])]
        v = c.get("v") or {}
        if v.get("colperm") is not None and i == ["err", "ValueError"]:
            return None                                     # refused aloud: nothing was stored under a wrong name
        if i[0] != "ok":
            return f"writing and reading back raised {i[1]}"
        out = i[1]
        if out["names"] != list(range(len(c["tab"]["names"]))):
            return f"columns of the read-back table: {out['names']!r}"
        extra = _writer_extra_ok(c, out)
        if extra:
            return extra
        if out["rows"] != rows:
            return f"read back rows differ from the appended rows: {out['rows']!r} vs {rows!r}"
        if out["index"] != list(range(len(rows))):
            return f"index of the read-back table is {out['index']!r}"
        if out["pending"] != 0:
            return f"{out['pending']} rows still in the buffer after finalize"
        if (out["batches"] is not None and c["b"] > 1 or fn == "buffered") and v.get("style") != "write":
            bs = out["batches"]
            if bs is not None and any(len(x) != c["b"] for x in bs[:-1]):
                return f"an emitted batch other than the last one has not buffer_size rows: {[len(x) for x in bs]}"
        return None
    if i == ["err", "FrameChanged"] and (fn == "names" or in_domain(c)):
        return ("the DataFrame handed to DataFrameReader was changed by reading (column names, row labels, dtypes or "
                "values differ from what the caller handed over)")
    if fn == "names" and c.get("others") is not None:
        # (new streams only) get_column_names by definition, whatever other readers over the same frame did before
        exp = [ids.name(x) for x in spec_names(c["reader"])]
        if spec_table(c["reader"]) is not None and i != ["ok", exp]:
            return f"get_column_names: {i!r} instead of {exp}"
        return None
    if not in_domain(c):
        return None
    names, rows = spec_table(c["reader"])
    cols = c["cols"] if c["cols"] is not None else names
    j = [names.index(x) for x in cols]
    exp_rows = [[ids.val(r[k]) for k in j] for r in rows]
    exp_names = [ids.name(x) for x in cols]
    if i[0] != "ok":
        return f"{fn} raised {i[1]} on a well-formed request"
    exp_index = _case_labels(c)
    if exp_index is None:
        exp_index = list(range(len(exp_rows)))
    if fn == "read":
        idx, nm, rw = i[1]
        if nm != exp_names:
            return f"read: columns {nm} instead of {exp_names}"
        if rw != exp_rows:
            return f"read: rows differ from the table: {rw!r} vs {exp_rows!r}"
        if idx != exp_index:
            return f"read: index {idx}"
        return None
    chunks = i[1]
    for ch in chunks:
        if ch[1] != exp_names:
            return f"chunk columns {ch[1]} instead of {exp_names}"
    cat = [r for ch in chunks for r in ch[2]]
    if cat != exp_rows:
        return f"concatenated chunks differ from the table: {len(cat)} rows vs {len(exp_rows)}: {cat!r} vs {exp_rows!r}"
    idx = [x for ch in chunks for x in ch[0]]
    if idx != exp_index:
        return f"the row index does not continue across chunks: {[ch[0] for ch in chunks]}"
    if any(len(ch[2]) != c["c"] for ch in chunks[:-1]):
        return f"a chunk other than the last has not chunk_size rows: {[len(ch[2]) for ch in chunks]}"
    if exp_rows and any(len(ch[2]) == 0 for ch in chunks):
        return "an empty chunk was delivered"
    return None


def nontrivial(c):
    if c["fn"] in ("writer", "buffered", "trace"):
        return sum(c["sizes"]) >= 2 and len(c["sizes"]) >= 2
    if c["fn"] == "names":
        return c["reader"]["k"] in ("mapped", "joined", "computed")
    n = max([_nrows(t["tab"]) for t in _walk_tables(c["reader"])] or [0])
    if n < 2:
        return False
    if c["reader"]["k"] in ("mapped", "joined", "computed"):
        return True
    return c["fn"] == "chunks" and c["c"] < n


# ------------------------------------------------------------------------------------------------ generators
_ORACLE_FAILS = []
_ORACLE_CHECKS = [0]
_BL_CACHE = {}


def _record_batches(spec, c):
    """pyarrow's record-batch lengths for chunk size c (the oracle of TrParquet), with its contract"""
    import pyarrow.parquet as pq
    key = lib.stable_hash([spec["tab"], spec.get("rg", 1), spec.get("rgs"), spec.get("pdindex"), c])
    if key in _BL_CACHE:
        return _BL_CACHE[key]
    if c < 1:
        bl, bl0 = [], []
    else:
        p = _write_parquet(spec["tab"], spec.get("rg", 1), spec.get("rgs"), bool(spec.get("pdindex")))
        pf = pq.ParquetFile(p)
        bl = [int(b.num_rows) for b in pf.iter_batches(c)]
        bl0 = [int(b.num_rows) for b in pf.iter_batches(c, columns=[])]
        one = [int(b.num_rows) for b in pf.iter_batches(c, columns=spec["tab"]["names"][-1:])]
        first = [int(b.num_rows) for b in pf.iter_batches(c, columns=spec["tab"]["names"][:1])]   # what columns=[] reads
        os.unlink(p)
        n = _nrows(spec["tab"])
        _ORACLE_CHECKS[0] += 1
        if sum(bl) != n or any(x != c for x in bl[:-1]) or any(x == 0 for x in bl) or one != bl or first != bl or sum(bl0) != n:
            _ORACLE_FAILS.append({"what": f"pyarrow iter_batches({c}) on {n} rows, row groups of {spec.get('rgs') or spec.get('rg')}: "
                                          f"batch lengths {bl} (last column: {one}, first column: {first}, no column: {bl0}) break the "
                                          "contract (all but the last = c, none empty, independent of a non-empty "
                                          "projection, sum = n)",
                                  "failing_input": {"n": n, "c": c, "rg": spec.get("rg"), "batches": bl}})
    _BL_CACHE[key] = (bl, bl0)
    return bl, bl0


def fix_oracles(case):
    """(re)compute the recorded Parquet batch lengths of a case"""
    if "reader" in case:
        for leaf in _walk_tables(case["reader"]):
            if leaf["k"] == "parquet":
                leaf["bl"], leaf["bl0"] = _record_batches(leaf, case["c"]) if case["fn"] == "chunks" else ([], [])
    return case


_STR = ["x", "y z", "a,b", "q", "Pep_1", "α", "k-2", "0x", "t.5", "t\tab", 'q"t', "se;mi", "pi|pe", "l1\nl2", " lead", "'ap"]
ALL_CSV_SUFFIXES = [".csv", ".pin", ".tab", ".peptides", ".psms", ".proteins", ".modifiedpeptides", ".peptidegroups",
                    ".modified_peptides", ".peptide_groups", ".precursors"]
UNKNOWN_SUFFIXES = [".txt", ".tsv", "", ".PARQUET", ".csv.gzz"]          # from_path / from_suffix fall back to delimited text
FANCY_NAMES = ["col one", "a,b", "se;mi", "1", "2.5", "index", "level_0", "Unnamed: 0", "ÜberScore", "q-value", "x.y", "T\tab"]


def mk_table(rng, names, n, types=None, big=True, nans="fs"):
    """random table.  big: integer columns may hold 2^53+1 / 2^62 (exact only as long as nothing turns them into floats);
    nans: 'f' float columns may hold NaN, 's' string columns may hold None (both are 'NaN' cells)"""
    types = types or [rng.choice("ifsb") for _ in names]
    cols = []
    for k, (nm, ty) in enumerate(zip(names, types)):
        if ty == "i":
            base = rng.choice([0, 100, 65, 10 ** 6] + ([2 ** 53 + 1, 2 ** 62, -(2 ** 53) - 1] if big else []))
            col = [base + (j if rng.random() < 0.8 else rng.randint(0, 2)) for j in range(n)]
        elif ty == "f":
            sc = 10 ** rng.randint(0, 3)
            col = [rng.randint(-9999, 99999) / sc if rng.random() < 0.85 else 0.5 for _ in range(n)]
            if "f" in nans and rng.random() < 0.3:
                col = [None if rng.random() < 0.3 else x for x in col]
        elif ty == "s":
            col = [f"{rng.choice(_STR)}{nm}{j if rng.random() < 0.8 else 0}" for j in range(n)]
            if "s" in nans and rng.random() < 0.25:
                col = [None if rng.random() < 0.3 else x for x in col]
        else:
            col = [rng.random() < 0.5 for _ in range(n)]
        cols.append(col)
    return {"names": list(names), "types": list(types), "cols": cols}


def _copy_sources(spec):
    """names of the columns that computed readers in the tree copy from (under every renaming on the way)"""
    out = set()
    if isinstance(spec, dict):
        if spec.get("k") == "computed" and isinstance(spec.get("fn"), list) and spec["fn"] and spec["fn"][0] == "copy":
            out.update(str(x) for x in spec["fn"][1:])
        if spec.get("k") == "mapped":
            for a, b in spec.get("map", []):
                out.update([a, b]) if (a in _copy_sources(spec.get("r")) or b in _copy_sources(spec.get("r"))) else None
        for v in spec.values():
            if isinstance(v, dict):
                out |= _copy_sources(v)
            elif isinstance(v, list):
                for x in v:
                    if isinstance(x, dict):
                        out |= _copy_sources(x)
    return out


def plain_table(names, n, off=0):
    """deterministic table: int, float, str, bool columns"""
    types = ["i", "f", "s", "b"]
    cols = []
    for k, nm in enumerate(names):
        ty = types[k % 4]
        if ty == "i":
            cols.append([100 * (k + 1) + off + j for j in range(n)])
        elif ty == "f":
            cols.append([off + k + j * 0.5 + 0.25 for j in range(n)])
        elif ty == "s":
            cols.append([f"{nm}_{'x' * ((j * 3) % 5)}{off + j}" for j in range(n)])      # strings of varying width
        else:
            cols.append([(j + off) % 3 == 0 for j in range(n)])
    return {"names": list(names), "types": [types[k % 4] for k in range(len(names))], "cols": cols}


def _leaf(kind, tab, **kw):
    d = {"k": kind, "tab": tab}
    d.update(kw)
    return d


def _case(fn, reader, cols, c=None, tags=()):
    d = {"fn": fn, "reader": copy.deepcopy(reader), "cols": None if cols is None else list(cols),
         "tags": list(tags)}
    if fn == "chunks":
        d["c"] = c
    if fn in ("read", "chunks"):
        d["tags"].append("in-domain" if in_domain(d) else "outside-domain")
        for kind in ("csv", "parquet"):
            try:
                if leaf_unasked(reader, d["cols"], kind):
                    d["tags"].append(f"{kind}-leaf-asked-for-no-column")
            except Exception:
                pass
        if d["cols"] is not None and not d["cols"]:
            d["tags"].append("cols=[]")
    if fn == "chunks":
        n = max([_nrows(t["tab"]) for t in _walk_tables(reader)] or [0])
        d["tags"].append("c>n" if c > n else ("c=n" if c == n else ("c|n" if c and n % c == 0 else "c<n")))
    for leaf in _walk_tables(reader):
        if leaf["k"] == "parquet" and leaf.get("rgs") is not None:
            d["tags"].append("parquet:irregular-row-groups" + ("+empty" if 0 in leaf["rgs"] else ""))
        if leaf["k"] == "csv":
            d["tags"].append("csv-sep:" + repr(leaf.get("sep", "\t")))
            d["tags"].append("csv-suffix:" + ("known" if leaf.get("suffix", ".tab") in ALL_CSV_SUFFIXES else "unknown"))
        if leaf["k"] == "frame":
            if leaf.get("ctor"):
                d["tags"].append("frame-ctor:" + leaf["ctor"])
            if _labels_of(leaf["tab"]) is not None:
                d["tags"].append("frame:row-labels")
        if leaf["tab"].get("dt"):
            d["tags"].append("dtype:" + leaf["tab"]["dt"])
    d["tags"] = sorted(set(d["tags"]), key=d["tags"].index)
    return fix_oracles(d)


def _with_pre(case, pre=None, lazy=False, tag=None):
    """the same request, but the reader object has been used before (or is used in between)"""
    d = copy.deepcopy(case)
    if pre:
        d["pre"] = pre
    if lazy:
        d["lazy"] = True
    d["tags"] = [t for t in d["tags"] if t != "exhaustive"] + ["repeated-call", "pre:" + (tag or "lazy")]
    return d


def det_rgs(n, k=0):
    """deterministic irregular row-group sizes that sum to n, empty groups included"""
    pat = [[1, 0, 2, 3, 0, 1], [0, 3, 1, 1, 0, 2], [2, 2, 0, 1, 3]][k % 3]
    out, left, j = [], n, 0
    while left > 0:
        x = min(pat[j % len(pat)], left)
        out.append(x)
        left -= x
        j += 1
    return out + [0]


def rand_rgs(rng, n):
    out, left = [], n
    while left > 0:
        x = min(rng.choice([0, 1, 1, 2, 3, left]), left)
        out.append(x)
        left -= x
    if rng.random() < 0.3:
        out.append(0)
    if rng.random() < 0.2:
        out.insert(0, 0)
    return out


def _leaf_variants(tab, n, thorough):
    out = [("frame", _leaf("frame", tab)),
           ("csv.tab", _leaf("csv", tab, suffix=".tab")),
           ("csv,", _leaf("csv", tab, suffix=".csv", sep=",")),
           ("parquet.rg1", _leaf("parquet", tab, rg=1)),
           ("parquet.rg2", _leaf("parquet", tab, rg=2)),
           ("parquet.rgs", _leaf("parquet", tab, rgs=det_rgs(n, n))),
           ("csv.txt;", _leaf("csv", tab, suffix=".txt", sep=";"))]
    if thorough:
        out += [("parquet.rgn", _leaf("parquet", tab, rg=max(1, n))),("csv.tsv", _leaf("csv", tab, suffix=".tsv")), ("csv.csv", _leaf("csv", tab, suffix=".csv")),
                ("parquet.rg3", _leaf("parquet", tab, rg=3)), ("parquet.rgs'", _leaf("parquet", tab, rgs=det_rgs(n, n + 1))),
                ("csv.psms|", _leaf("csv", tab, suffix=".psms", sep="|")), ("csv.nosuffix", _leaf("csv", tab, suffix="")),
                ("frame.object", _leaf("frame", dict(tab, dt="object"))), ("frame.narrow", _leaf("frame", dict(tab, dt="narrow")))]
    return out


def gen_exhaustive(ctx):
    cases = []
    nmax = 8 if ctx.thorough else 5
    names = ["a", "b", "s", "t"]
    reqs = [None, [], ["a"], ["s"], ["t", "s", "b", "a"], ["s", "a"], ["b", "t", "a"]]
    for n in range(nmax + 1):
        tab = plain_table(names, n)
        for label, leaf in _leaf_variants(tab, n, ctx.thorough):
            for cols in reqs:
                tg = ["exhaustive", "leaf:" + label, f"n={n}", "cols=None" if cols is None else f"ncols={len(cols)}"]
                cases.append(_case("read", leaf, cols, tags=tg))
                for c in range(1, n + 2):
                    cases.append(_case("chunks", leaf, cols, c, tags=tg))
            cases.append({"fn": "names", "reader": leaf, "tags": ["names"]})
    # composite readers over the small tables, exhaustively over n and c
    for n in range(0, (6 if ctx.thorough else 4) + 1):
        for label, (rd, reqs2) in _small_trees(n).items():
            for cols in reqs2:
                tg = ["exhaustive", "tree:" + label, f"n={n}", "cols=None" if cols is None else f"ncols={len(cols)}"]
                cases.append(_case("read", rd, cols, tags=tg))
                for c in range(1, n + 2):
                    cases.append(_case("chunks", rd, cols, c, tags=tg))
            cases.append({"fn": "names", "reader": rd, "tags": ["names"]})
    return cases


def _small_trees(n):
    ta, tb, tc = plain_table(["a", "b"], n), plain_table(["c", "d", "e"], n, 7), plain_table(["g"], n, 3)
    comps = {
        "mapped(frame)": ({"k": "mapped", "r": _leaf("frame", ta), "map": [["a", "A"], ["zz", "Q"]]},
                          [None, ["b", "A"], ["A"]]),
        "mapped(csv,from_path)": ({"k": "mapped", "via": "from_path", "r": _leaf("csv", tb, suffix=".tab"),
                                   "map": [["c", "d"], ["d", "c"]]}, [None, ["e", "c"], ["d", "c", "e"]]),
        "mapped(parquet,from_path)": ({"k": "mapped", "via": "from_path", "r": _leaf("parquet", tb, rg=2),
                                       "map": [["e", "E"]]}, [None, ["E", "c"]]),
        "joined(frame,csv)": ({"k": "joined", "rs": [_leaf("frame", ta), _leaf("csv", tb, suffix=".tab")]},
                              [None, ["d", "a", "c"], ["e", "b"], ["a"], ["d"]]),
        "joined(parquet,frame,csv)": ({"k": "joined", "rs": [_leaf("parquet", tb, rg=2), _leaf("frame", ta),
                                                              _leaf("csv", tc, suffix=".csv", sep=",")]},
                                      [None, ["g", "a", "e"], ["b", "c"]]),
        "joined(one)": ({"k": "joined", "rs": [_leaf("frame", ta)]}, [None, ["b"]]),
        "computed(frame,const)": ({"k": "computed", "r": _leaf("frame", ta), "col": "k", "fn": ["const", True]},
                                  [None, ["k", "b", "a"], ["a"], ["k"]]),
        "computed(csv,const)": ({"k": "computed", "r": _leaf("csv", tb, suffix=".tab"), "col": "k",
                                 "fn": ["const", "dec"]}, [None, ["e", "k"], ["k"], ["c", "d"]]),
        "computed(parquet,copy)": ({"k": "computed", "r": _leaf("parquet", tb, rg=1), "col": "k",
                                    "fn": ["copy", "d"]}, [None, ["k", "d"], ["d", "c", "k"], ["k", "c"]]),
        "computed(mapped(csv))": ({"k": "computed", "col": "is_decoy", "fn": ["const", False],
                                   "r": {"k": "mapped", "via": "from_path", "r": _leaf("csv", tb, suffix=".psms"),
                                         "map": [["c", "score"]]}},
                                  [None, ["score", "is_decoy"], ["is_decoy", "e", "score", "d"], ["e", "d"]]),
        "joined(computed,mapped)": ({"k": "joined", "rs": [
            {"k": "computed", "r": _leaf("frame", ta), "col": "k", "fn": ["copy", "a"]},
            {"k": "mapped", "r": _leaf("parquet", tb, rg=3), "map": [["d", "D"]]}]},
            [None, ["D", "k", "a"], ["a", "k", "c", "e"], ["k", "D"], ["c", "a"]]),
        # computed readers nested in each other, under a renaming and over a join
        "computed(computed(csv))": ({"k": "computed", "col": "k2", "fn": ["copy", "k"], "r": {
            "k": "computed", "r": _leaf("csv", tb, suffix=".tab"), "col": "k", "fn": ["copy", "c"]}},
            [None, ["k2", "k", "c"], ["c", "k"], ["e", "d"]]),
        "mapped(computed(parquet))": ({"k": "mapped", "map": [["k", "K"], ["c", "C"]], "r": {
            "k": "computed", "r": _leaf("parquet", tb, rg=2), "col": "k", "fn": ["const", 2.5]}},
            [None, ["K", "C"], ["d", "C"]]),
        "computed(mapped(joined(computed(frame),csv)))": ({"k": "computed", "col": "top", "fn": ["copy", "K"], "r": {
            "k": "mapped", "map": [["k", "K"], ["g", "G"]], "r": {"k": "joined", "rs": [
                {"k": "computed", "r": _leaf("frame", ta), "col": "k", "fn": ["copy", "b"]},
                _leaf("csv", tc, suffix=".tab")]}}},
            [None, ["top", "K", "b", "G"], ["G", "a"], ["K", "b", "G"]]),
    }
    comps["joined(join_readers;computed:list,computed:series)"] = ({"k": "joined", "via": "join_readers", "rs": [
        {"k": "computed", "r": _leaf("csv", tb, suffix=".tab"), "col": "k", "fn": ["copy", "d"], "ret": "list"},
        {"k": "computed", "r": _leaf("parquet", ta, rgs=det_rgs(n, 1)), "col": "k2", "fn": ["const", "x"], "ret": "series"}]},
        [None, ["k2", "d", "k"], ["a", "k2"]])
    comps["joined(series-frame,array-frame)"] = ({"k": "joined", "rs": [
        _leaf("frame", plain_table(["g"], n, 3), ctor="series"), _leaf("frame", plain_table(["h"], n, 1), ctor="array-np"),
        _leaf("frame", plain_table(["u"], n, 2), ctor="series-name"), _leaf("frame", plain_table(["w"], n, 5), ctor="array-list")]},
        [None, ["w", "g"], ["h", "u", "g"]])
    return comps


def _label_kinds(n):
    return {"rev+5": {"index": [n - 1 - j + 5 for j in range(n)]},
            "gaps": {"index": [2 * j + (j * j) % 2 for j in range(n)]},          # increasing with gaps: a filtered frame
            "str": {"index": [f"r{j}" for j in range(n)]},
            "dup": {"index": [j // 2 for j in range(n)]},
            "rstart": {"rstart": 10},
            "neg": {"index": [-1 - j for j in range(n)]}}


def gen_indexed(ctx):
    """DataFrameReader over frames whose row labels are NOT 0..n-1 (a filtered / sorted / re-labelled frame): whole read and
    chunks carry the labels of the rows they hold.  Every frame of a tree has the same labels (pd.concat(axis=1) aligns on
    them); duplicate labels only without a join."""
    cases = []
    for n in range(0, (7 if ctx.thorough else 5)):
        for lk, lab in _label_kinds(n).items():
            ta = dict(plain_table(["a", "b"], n), **lab)
            tb = dict(plain_table(["c", "d"], n, 7), **lab)
            t1 = dict(plain_table(["g"], n, 3), **lab)
            fa, fb = _leaf("frame", ta), _leaf("frame", tb)
            trees = {
                "frame": (fa, [None, ["b"], ["b", "a"], []]),
                "frame(series)": (_leaf("frame", t1, ctor="series"), [None, ["g"]]),
                "mapped(frame)": ({"k": "mapped", "r": fa, "map": [["a", "A"]]}, [None, ["b", "A"]]),
                "computed(frame,const)": ({"k": "computed", "r": fa, "col": "k", "fn": ["const", True]}, [None, ["k", "a"], ["k"]]),
                "computed(frame,copy:series)": ({"k": "computed", "r": fa, "col": "k", "fn": ["copy", "b"], "ret": "series"},
                                                [None, ["k", "b"]]),
                "computed(mapped(frame),copy:list)": ({"k": "computed", "col": "k", "fn": ["copy", "A"], "ret": "list", "r": {
                    "k": "mapped", "r": fa, "map": [["a", "A"]]}}, [None, ["A", "k"]]),
            }
            if lk != "dup":
                trees.update({
                    "joined(one)": ({"k": "joined", "rs": [fa]}, [None, ["b"]]),
                    "joined(frame,frame)": ({"k": "joined", "rs": [fa, fb]}, [None, ["d", "a"], ["c"], []]),
                    "joined(computed(frame),mapped(frame))": ({"k": "joined", "rs": [
                        {"k": "computed", "r": fa, "col": "k", "fn": ["copy", "a"]},
                        {"k": "mapped", "r": fb, "map": [["d", "D"]]}]}, [None, ["D", "k", "a"]]),
                })
            for tl, (rd, reqs) in trees.items():
                for cols in reqs:
                    tg = ["row-labels", "labels:" + lk, "tree:" + tl, f"n={n}", "cols=None" if cols is None else f"ncols={len(cols)}"]
                    cases.append(_case("read", rd, cols, tags=tg))
                    for c in range(1, n + 2):
                        cases.append(_case("chunks", rd, cols, c, tags=tg))
    return cases


def gen_repeated(ctx):
    """a reader is a value: what it answers does not depend on what it was asked before.  The observed request follows
    other requests on the SAME reader object (whole read, a complete chunked pass, an abandoned chunk iterator, another
    projection, get_column_names), or the chunk iterator is consumed with next() and the reader is read whole in between."""
    cases = []
    rng = ctx.sub("repeated")
    for n in ((2, 3, 5) if ctx.thorough else (3,)):
        for label, (rd, reqs) in _small_trees(n).items():
            for k, cols in enumerate(reqs):
                other = reqs[(k + 1) % len(reqs)]
                pres = [("read-all", [["read", None]]), ("chunks-all", [["chunks", 2, None, None]]),
                        ("abandoned", [["chunks", 1, None, 1]]), ("other-projection", [["read", other], ["chunks", 2, other, None]]),
                        ("names", [["names"]]), ("same-twice", [["read", cols], ["chunks", n, cols, None]])]
                if not ctx.thorough:
                    pres = [pres[(k + j) % len(pres)] for j in (0, 1, 3)] if k else pres
                for pt, pre in pres:
                    tg = ["tree:" + label, f"n={n}", "cols=None" if cols is None else f"ncols={len(cols)}"]
                    base_r = _case("read", rd, cols, tags=tg)
                    base_c = _case("chunks", rd, cols, rng.choice([1, 2, 2, n]), tags=tg)
                    if not in_domain(base_r) or any(not in_domain(dict(base_r, cols=op[1] if op[0] == "read" else op[2]))
                                                    for op in pre if op[0] != "names"):
                        continue
                    cases.append(_with_pre(base_r, pre, tag=pt))
                    cases.append(_with_pre(base_c, pre, tag=pt))
                cases.append(_with_pre(_case("chunks", rd, cols, 2, tags=["tree:" + label, f"n={n}"]), lazy=True))
            # get_column_names() after the reader has delivered data: the names do not change
            for pt, pre in (("read-all", [["read", None]]), ("chunks-all", [["chunks", 2, None, None]]),
                            ("read-all-twice", [["read", None], ["read", None]])):
                cases.append(_with_pre({"fn": "names", "reader": copy.deepcopy(rd), "tags": ["names", "tree:" + label, f"n={n}"]},
                                       pre, tag=pt))
    return cases


K_PQ_INDEX = "parquet-reader:stored-pandas-index"
K_CSV_MIXED = "csv-reader:per-chunk-type-inference"


def gen_finding_streams(ctx):
    """input classes on which the unchanged /repo is known to break the property (known_findings.json, finding_key)"""
    cases = []
    # (1) a Parquet file written by pandas WITH its row labels (df[mask].to_parquet(path))
    for n in ((0, 1, 2, 3, 5) if ctx.thorough else (0, 3, 4)):
        for lk, lab in _label_kinds(n).items():
            if lk in ("dup", "neg", "rev+5") and not ctx.thorough:
                continue
            tb = dict(plain_table(["c", "d", "e"], n, 7), **lab)
            leaf = _leaf("parquet", tb, rg=2, pdindex=lk)
            trees = {"leaf": (leaf, [None, ["d"], []]),
                     "mapped(leaf)": ({"k": "mapped", "r": leaf, "map": [["c", "C"]]}, [None, ["e", "C"]]),
                     "computed(leaf,const)": ({"k": "computed", "r": leaf, "col": "k", "fn": ["const", 7]}, [None, ["k", "d"]])}
            for tl, (rd, reqs) in trees.items():
                for cols in reqs:
                    tg = ["finding-stream", "parquet:stored-pandas-index", "labels:" + lk, "tree:" + tl, f"n={n}"]
                    cases.append(_case("read", rd, cols, tags=tg))
                    for c in sorted({1, 2, n + 1}):
                        cases.append(_case("chunks", rd, cols, c, tags=tg))
            cases.append({"fn": "names", "reader": leaf, "tags": ["names", "finding-stream", "parquet:stored-pandas-index"]})
    # (2) a delimited-text column of strings whose first rows look like numbers ("1", "2.5", then "abc")
    for n in ((2, 3, 4, 6) if ctx.thorough else (3, 4)):
        for k in range(1, n):
            col = [["7", "2.5", "11", "0.25", "3"][j % 5] for j in range(k)] + [f"abc{j}" for j in range(k, n)]
            tab = plain_table(["x", "y"], n)
            tab = {"names": ["x", "m", "y"], "types": ["i", "s", "f"], "cols": [tab["cols"][0], col, tab["cols"][1]]}
            leaf = _leaf("csv", tab, suffix=".tab", mixed=["m"])
            trees = {"leaf": (leaf, [None, ["m"], ["y", "m"]]),
                     "mapped(leaf)": ({"k": "mapped", "via": "from_path", "r": leaf, "map": [["m", "M"]]}, [None, ["M", "x"]]),
                     "joined(frame,leaf)": ({"k": "joined", "rs": [_leaf("frame", plain_table(["a"], n)), leaf]}, [["m", "a"]])}
            for tl, (rd, reqs) in trees.items():
                for cols in reqs:
                    tg = ["finding-stream", "csv:numeric-looking-strings-first", "tree:" + tl, f"n={n}", f"numeric-prefix={k}"]
                    cases.append(_case("read", rd, cols, tags=tg))
                    for c in range(1, n + 1):
                        cases.append(_case("chunks", rd, cols, c, tags=tg))
    return cases


# ------------------------------------------------------------------------------------------------ shared frames
def _maps_for(names):
    """renamings over the (>= 4) names of a table: targets that overlap the sources (swap, chains in both listing orders,
    a 3-cycle), with and without a fresh name next to them, fresh names only, an identity pair, absent sources (also
    one whose target is an existing name).  Every source occurs once (dict(pairs) and the model's first-match lookup
    agree) and the renamed names are distinct."""
    a, b, s, t = names[:4]
    return {
        "swap": [[a, b], [b, a]],
        "chain": [[b, "raw_" + b], [s, b]],
        "chain'": [[s, b], [b, "raw_" + b]],
        "chain3": [[t, "old_" + t], [s, t], [b, s]],
        "cycle3": [[a, b], [b, s], [s, a]],
        "swap+fresh": [[s, t], [t, s], [a, "A"]],
        "fresh": [[a, "A"], [t, "T"]],
        "identity+absent": [[b, b], ["zz", "Q"], ["yy", a]],
    }


def _reqs_for(rd, k=0):
    """column requests on a reader: None, all names explicitly (reversed), two names in the other order, one name"""
    names = spec_names(rd)
    m = len(names)
    return [None, list(reversed(names)), [names[(k + 1) % m], names[k % m]], [names[(k + 2) % m]]]


def _first_requests(rd, n, k=0):
    """what the reader object was asked before the observed request; the whole read with columns=None comes first"""
    names = spec_names(rd)
    proj = [names[(k + 1) % len(names)], names[k % len(names)]]
    return [("read-all", [["read", None]]),
            ("read-all-twice", [["read", None], ["read", None]]),
            ("read-all,names", [["read", None], ["names"]]),
            ("read-all,projection", [["read", None], ["read", proj]]),
            ("chunks-all", [["chunks", 2, None, None]]),
            ("one-chunk-of-all", [["chunks", n + 1, None, None]]),
            ("abandoned,read-all", [["chunks", 1, None, 1], ["read", None]]),
            ("read-all-names", [["read", list(names)]]),
            ("projection,read-all", [["read", proj], ["read", None]]),
            ("names", [["names"]])]


def _shared_trees(n):
    """readers over the caller's in-memory frames F (4 columns) and G (2 columns); leaves with the same share key are
    DataFrameReaders over the SAME DataFrame object"""
    tf, tg, th = plain_table(["a", "b", "s", "t"], n), plain_table(["c", "d"], n, 7), plain_table(["g", "h"], n, 3)
    F, G, H = _leaf("frame", tf, share="F"), _leaf("frame", tg, share="G"), _leaf("frame", th)
    maps = _maps_for(tf["names"])
    trees = {}
    for ml, m in maps.items():
        trees[f"mapped(F,{ml})"] = {"k": "mapped", "r": F, "map": m}
    trees["mapped(mapped(F,fresh),swap)"] = {"k": "mapped", "map": [["A", "b"], ["b", "A"]],
                                             "r": {"k": "mapped", "r": F, "map": maps["fresh"]}}
    trees["mapped(mapped(F,swap),chain)"] = {"k": "mapped", "map": maps["chain"], "r": {"k": "mapped", "r": F, "map": maps["swap"]}}
    trees["computed(mapped(F,chain),copy)"] = {"k": "computed", "col": "k", "fn": ["copy", "b"],
                                               "r": {"k": "mapped", "r": F, "map": maps["chain"]}}
    trees["mapped(computed(F,const),swap-with-computed)"] = {"k": "mapped", "map": [["k", "a"], ["a", "k"]], "r": {
        "k": "computed", "r": F, "col": "k", "fn": ["const", 2.5]}}
    trees["joined(mapped(G,fresh),G)"] = {"k": "joined", "rs": [{"k": "mapped", "r": G, "map": [["c", "C"], ["d", "D"]]}, G]}
    trees["joined(G,mapped(G,fresh))"] = {"k": "joined", "rs": [G, {"k": "mapped", "r": G, "map": [["c", "C"], ["d", "D"]]}]}
    trees["joined(mapped(F,swap),G)"] = {"k": "joined", "rs": [{"k": "mapped", "r": F, "map": maps["swap"]}, G]}
    trees["joined(mapped(G,swap),mapped(H,swap))"] = {"k": "joined", "via": "join_readers", "rs": [
        {"k": "mapped", "r": G, "map": [["c", "d"], ["d", "c"]]}, {"k": "mapped", "r": H, "map": [["g", "h"], ["h", "g"]]}]}
    trees["mapped(joined(G,F),swap-across)"] = {"k": "mapped", "map": [["c", "a"], ["a", "c"], ["d", "s"], ["s", "d"]],
                                                "r": {"k": "joined", "rs": [G, F]}}
    return trees, F, G


def gen_shared_frames(ctx):
    """column-renamed readers over the caller's in-memory frames (round 5, seeded change C13-5: ColumnMappedReader renamed the
    frame it got from the wrapped reader in place, DataFrameReader.read(None) hands out the caller's own frame).  A reader is
    a value and it only reads: (a) the observed request follows a whole read (columns=None) and other requests on the same
    reader object, for maps whose targets overlap their sources; (b) another reader object over the SAME DataFrame (the plain
    DataFrameReader: 'the frame the caller handed over is unchanged'; a second renaming) is observed after the first one
    has been read; (c) the same maps over delimited-text / Parquet leaves and frames with row labels."""
    cases = []
    rng = ctx.sub("shared-frames")
    ns = (0, 1, 2, 3, 5) if ctx.thorough else (3,)
    for n in ns:
        trees, F, G = _shared_trees(n)
        for ti, (tl, rd) in enumerate(trees.items()):
            full = (ctx.thorough and n == 3) or tl in ("mapped(F,swap)", "mapped(F,chain)")
            firsts = _first_requests(rd, n, ti)
            reqs = _reqs_for(rd, ti)
            if not full:                                    # quick tier: 4 of the first requests (read-all always), rotating
                firsts = firsts[:1] + [firsts[1 + (ti + j) % (len(firsts) - 1)] for j in range(3)]
            for fi, (pt, pre) in enumerate(firsts):
                tg = ["shared-frame", "tree:" + tl, f"n={n}"]
                for cols in reqs:
                    tgc = tg + ["cols=None" if cols is None else f"ncols={len(cols)}"]
                    base_r = _case("read", rd, cols, tags=tgc)
                    if not in_domain(base_r) or any(not in_domain(dict(base_r, cols=op[1] if op[0] == "read" else op[2]))
                                                    for op in pre if op[0] != "names"):
                        raise AssertionError(("generator: request outside the domain", tl, cols, pre))
                    cases.append(_with_pre(base_r, pre, tag=pt))
                    cs = range(1, n + 2) if full else sorted({rng.randint(1, n + 1), n + 1 if fi % 2 else 2})
                    for c in cs:
                        cases.append(_with_pre(_case("chunks", rd, cols, c, tags=tgc), pre, tag=pt))
                cases.append(_with_pre(_case("chunks", rd, reqs[fi % len(reqs)], 2, tags=tg), pre, lazy=True, tag=pt + ",lazy"))
                cases.append(_with_pre({"fn": "names", "reader": copy.deepcopy(rd), "tags": ["names"] + tg}, pre, tag=pt))
                # (b) the caller's frame after the renamed reader has been read: a plain DataFrameReader over the same object
                for leaf in (F, G):
                    if not any(l.get("share") == leaf["share"] for l in _walk_tables(rd)):
                        continue
                    oth = [{"reader": copy.deepcopy(rd), "pre": pre}]
                    tgo = ["shared-frame", "frame-after", "by:" + tl, f"n={n}", "pre:" + pt]
                    obs = [_case("read", leaf, None, tags=tgo), _case("chunks", leaf, None, 2, tags=tgo),
                           {"fn": "names", "reader": copy.deepcopy(leaf), "tags": ["names"] + tgo}]
                    if full or fi == 0:
                        nm = leaf["tab"]["names"]
                        obs += [_case("read", leaf, [nm[1], nm[0]], tags=tgo), _case("chunks", leaf, [nm[-1]], n + 1, tags=tgo)]
                    for o in obs:
                        cases.append(dict(o, others=copy.deepcopy(oth)))
        # two renamed views of one frame: the second one is observed after the first has been read (both orders)
        pairs = [("mapped(F,swap)", "mapped(F,chain)"), ("mapped(F,chain)", "mapped(F,cycle3)"), ("mapped(F,fresh)", "mapped(F,swap)"),
                 ("mapped(F,cycle3)", "computed(mapped(F,chain),copy)"), ("joined(mapped(G,fresh),G)", "mapped(joined(G,F),swap-across)")]
        for x, y in pairs:
            for first, second in ((x, y), (y, x)):
                rd, orr = trees[second], trees[first]
                for pt, pre in _first_requests(orr, n)[:4 if ctx.thorough else 2]:
                    tg = ["shared-frame", "two-views", "tree:" + second, "by:" + first, f"n={n}", "pre:" + pt]
                    oth = [{"reader": copy.deepcopy(orr), "pre": pre}]
                    for cols in _reqs_for(rd)[:4 if ctx.thorough else 2]:
                        cases.append(dict(_case("read", rd, cols, tags=tg), others=copy.deepcopy(oth)))
                        cases.append(dict(_case("chunks", rd, cols, 2, tags=tg), others=copy.deepcopy(oth)))
                    cases.append(dict({"fn": "names", "reader": copy.deepcopy(rd), "tags": ["names"] + tg}, others=copy.deepcopy(oth)))
        # (c) the same maps over file leaves (ctor and from_path) and over frames with row labels / object strings
        tf = plain_table(["a", "b", "s", "t"], n)
        maps = _maps_for(tf["names"])
        lk = _label_kinds(n)
        leaves = [("csv.tab", _leaf("csv", tf, suffix=".tab"), None), ("csv.tab", _leaf("csv", tf, suffix=".tab"), "from_path"),
                  ("parquet.rg2", _leaf("parquet", tf, rg=2), None), ("parquet.rg2", _leaf("parquet", tf, rg=2), "from_path"),
                  ("frame.labels:gaps", _leaf("frame", dict(tf, **lk["gaps"]), share="F"), None),
                  ("frame.labels:str", _leaf("frame", dict(tf, **lk["str"]), share="F"), None),
                  ("frame.labels:dup", _leaf("frame", dict(tf, **lk["dup"]), share="F"), None),
                  ("frame.object", _leaf("frame", dict(tf, dt="object"), share="F"), None)]
        for li, (ll, leaf, via) in enumerate(leaves if n in (0, 3, 5) else []):
            for mi, (ml, m) in enumerate(maps.items()):
                if not ctx.thorough and ml not in ("swap", "chain", "cycle3", "fresh") :
                    continue
                rd = {"k": "mapped", "r": leaf, "map": m}
                if via:
                    rd["via"] = via
                firsts = _first_requests(rd, n, mi)
                firsts = ([firsts[0]] + [firsts[1 + (li + mi + j) % (len(firsts) - 1)] for j in range(2)] if ctx.thorough
                          else [firsts[0], firsts[1 + (li + mi) % (len(firsts) - 1)]])
                for pt, pre in firsts:
                    tg = ["shared-frame", "leaf:" + ll + ("," + via if via else ""), "map:" + ml, f"n={n}"]
                    for cols in _reqs_for(rd, mi)[:4 if ctx.thorough else 3]:
                        cases.append(_with_pre(_case("read", rd, cols, tags=tg), pre, tag=pt))
                        for c in (sorted({1, 2, n + 1}) if ctx.thorough else (2,)):
                            cases.append(_with_pre(_case("chunks", rd, cols, c, tags=tg), pre, tag=pt))
                    cases.append(_with_pre({"fn": "names", "reader": copy.deepcopy(rd), "tags": ["names"] + tg}, pre, tag=pt))
                    if leaf["k"] == "frame":
                        oth = [{"reader": copy.deepcopy(rd), "pre": pre}]
                        tgo = tg + ["frame-after", "pre:" + pt]
                        cases.append(dict(_case("read", leaf, None, tags=tgo), others=copy.deepcopy(oth)))
                        cases.append(dict(_case("chunks", leaf, None, 2, tags=tgo), others=copy.deepcopy(oth)))
    # random: a random renaming with overlapping targets over a random frame, random histories
    for t in range(400 if ctx.thorough else 60):
        n = rng.choice([0, 1, 2, 3, 4, 6, 9])
        ncol = rng.randint(2, 5)
        names = [f"c{j}" for j in range(ncol)]
        tab = mk_table(rng, names, n)
        if rng.random() < 0.3:
            tab["dt"] = rng.choice(["object", "narrow"])
        leaf = _leaf("frame", tab, share="F")
        src = rng.sample(names, rng.randint(1, ncol))
        perm = list(src)
        rng.shuffle(perm)
        m = [[x, y] for x, y in zip(src, perm)]             # a permutation of some of the names (fixed points included)
        if rng.random() < 0.5:                              # ... opened into a chain: one target is a fresh name
            m[rng.randrange(len(m))][1] = "fresh"
        if rng.random() < 0.3:
            m.append(["absent", rng.choice(names + ["Q"])])
        rng.shuffle(m)
        rd = {"k": "mapped", "r": leaf, "map": m}
        if rng.random() < 0.3:
            rd = {"k": "computed", "r": rd, "col": "K", "fn": ["const", rng.choice([True, 7, "decoy"])]}
        if spec_table(rd) is None:
            continue
        ops = []
        for _ in range(rng.randint(1, 3)):
            u = rng.random()
            cols = rand_request(rng, rd)
            if u < 0.45:
                ops.append(["read", None])
            elif u < 0.6:
                ops.append(["read", cols])
            elif u < 0.8:
                ops.append(["chunks", rng.randint(1, n + 2), rng.choice([None, cols]), rng.choice([None, None, 1])])
            else:
                ops.append(["names"])
        if not any(op[:2] == ["read", None] for op in ops):
            ops.insert(0, ["read", None])
        if any(op[0] != "names" and not in_domain({"fn": "read", "reader": rd, "cols": op[1] if op[0] == "read" else op[2]})
               for op in ops):
            continue
        tg = ["shared-frame", "random-renaming"]
        for cols in (None, rand_request(rng, rd)):
            if not in_domain({"fn": "read", "reader": rd, "cols": cols}):
                continue
            cases.append(_with_pre(_case("read", rd, cols, tags=tg), ops, tag="random"))
            cases.append(_with_pre(_case("chunks", rd, cols, rng.randint(1, n + 2), tags=tg), ops, tag="random"))
        oth = [{"reader": copy.deepcopy(rd), "pre": ops}]
        cases.append(dict(_case("read", leaf, None, tags=tg + ["frame-after"]), others=copy.deepcopy(oth)))
        cases.append(dict(_case("chunks", leaf, rng.choice([None, names[::-1]]), rng.randint(1, n + 2), tags=tg + ["frame-after"]),
                          others=copy.deepcopy(oth)))
    return cases


class _Names:
    def __init__(self):
        self.k = 0

    def fresh(self, p="c"):
        self.k += 1
        return f"{p}{self.k}"


def rand_leaf(rng, n, pool, rich=True):
    ncol = rng.choice([1, 2, 2, 3, 4])
    tab = mk_table(rng, [pool.fresh() for _ in range(ncol)], n, big=rich, nans="fs" if rich else "")
    kind = rng.choice(["frame", "csv", "parquet"])
    if kind == "csv":
        u = rng.random()
        if u < 0.4:
            return _leaf("csv", tab, suffix=rng.choice([".csv", ".tab", ".txt", ".psms"]), sep=rng.choice([",", ",", ";", "|"]))
        if u < 0.55:
            return _leaf("csv", tab, suffix=rng.choice(UNKNOWN_SUFFIXES))
        return _leaf("csv", tab, suffix=rng.choice(ALL_CSV_SUFFIXES))
    if kind == "parquet":
        if rich and rng.random() < 0.4:
            return _leaf("parquet", tab, rgs=rand_rgs(rng, n))
        return _leaf("parquet", tab, rg=rng.choice([1, 2, 3, max(1, n), max(1, n // 2), 1000]))
    if rich and rng.random() < 0.3:
        tab["dt"] = rng.choice(["object", "narrow"])
    if ncol == 1 and rng.random() < 0.5:
        return _leaf("frame", tab, ctor=rng.choice(["series", "series-name", "array-np", "array-list"]))
    return _leaf("frame", tab)


def rand_reader(rng, depth, n, pool, rich=True):
    if depth <= 0 or rng.random() < 0.25:
        return rand_leaf(rng, n, pool, rich)
    k = rng.choice(["mapped", "joined", "joined", "computed"])
    if k == "mapped":
        inner = rand_reader(rng, depth - 1, n, pool, rich)
        names = spec_names(inner)
        m = []
        for nm in names:
            if rng.random() < 0.5:
                m.append([nm, pool.fresh("M")])
        if len(names) >= 2 and rng.random() < 0.25:
            a, b = rng.sample(names, 2)
            m = [p for p in m if p[0] not in (a, b)] + [[a, b], [b, a]]
        if rng.random() < 0.3:
            m.append([pool.fresh("absent"), pool.fresh("Q")])
        rng.shuffle(m)
        d = {"k": "mapped", "r": inner, "map": m}
        if inner["k"] in ("csv", "parquet") and rng.random() < 0.6:
            d["via"] = "from_path"
        return d
    if k == "joined":
        d = {"k": "joined", "rs": [rand_reader(rng, depth - 1, n, pool, rich) for _ in range(rng.choice([1, 2, 2, 3]))]}
        if rng.random() < 0.3:
            d["via"] = "join_readers"
        return d
    inner = rand_reader(rng, depth - 1, n, pool, rich)
    names = spec_names(inner)
    if rng.random() < 0.5:
        fn = ["const", rng.choice([True, False, 7, "decoy", 2.5])]
    else:
        fn = ["copy", rng.choice(names)]
    d = {"k": "computed", "r": inner, "col": pool.fresh("K"), "fn": fn}
    if rng.random() < 0.4:
        d["ret"] = rng.choice(["list", "series"])
    return d


def _copy_sources(spec):
    k = spec["k"]
    if k == "computed":
        out = _copy_sources(spec["r"])
        if spec["fn"][0] == "copy":
            out.append(spec["fn"][1])
        return out
    if k == "mapped":
        m = {a: b for a, b in spec["map"]}
        return [m.get(x, x) for x in _copy_sources(spec["r"])]
    if k == "joined":
        return [x for r in spec["rs"] for x in _copy_sources(r)]
    return []


def rand_request(rng, rd, want_ok=True):
    names = spec_names(rd)
    for _ in range(30):
        u = rng.random()
        if u < 0.15:
            cols = None
        elif u < 0.21:
            cols = []                                       # the empty request: all rows, no column
        elif u < 0.27 and _computed_cols(rd):
            ks = _computed_cols(rd)                         # computed columns only: the leaves below are asked for nothing
            cols = rng.sample(ks, rng.randint(1, len(ks)))
        else:
            k = rng.randint(1, len(names))
            cols = rng.sample(names, k)
            if rng.random() < 0.7:
                for s in _copy_sources(rd):
                    if s not in cols and s in names:
                        cols.insert(rng.randint(0, len(cols)), s)
            if rng.random() < 0.2:
                cols = list(names)
                if rng.random() < 0.5:
                    rng.shuffle(cols)
        return cols
    return cols


def _computed_cols(spec):
    """names (as seen at the root) of the computed columns whose function does not copy a column"""
    k = spec["k"]
    if k == "computed":
        return _computed_cols(spec["r"]) + ([spec["col"]] if spec["fn"][0] != "copy" else [])
    if k == "mapped":
        m = {a: b for a, b in spec["map"]}
        return [m.get(x, x) for x in _computed_cols(spec["r"])]
    if k == "joined":
        return [x for r in spec["rs"] for x in _computed_cols(r)]
    return []


def gen_empty_projection(ctx):
    """regression of the repaired leaf readers (both tiers): a CSV / Parquet leaf asked for columns=[] — directly, under
    a renaming, below a computed reader asked only for its computed column, as a member of a join none of whose columns
    is requested — for n in 0..5 (0..8), whole and with every chunk size 1..n+1; Parquet with row groups of 1, 2, 3 rows"""
    cases = []
    nmax = 8 if ctx.thorough else 5
    for n in range(nmax + 1):
        ta, tb, tc = plain_table(["a", "b"], n), plain_table(["c", "d", "e"], n, 7), plain_table(["g", "h"], n, 3)
        leaves = [("csv.tab", _leaf("csv", tb, suffix=".tab")),
                  ("parquet.rg1", _leaf("parquet", tb, rg=1)), ("parquet.rg2", _leaf("parquet", tb, rg=2)),
                  ("parquet.rg3", _leaf("parquet", tb, rg=3))]
        if ctx.thorough:
            leaves.append(("csv,", _leaf("csv", tb, suffix=".csv", sep=",")))
        for label, leaf in leaves:
            fr = _leaf("frame", ta)
            other = _leaf("parquet", tc, rg=2) if leaf["k"] == "csv" else _leaf("csv", tc, suffix=".tab")
            trees = {
                "leaf": (leaf, [[]]),
                "mapped(leaf)": ({"k": "mapped", "r": leaf, "map": [["c", "C"]]}, [[]]),
                "mapped(leaf,from_path)": ({"k": "mapped", "via": "from_path", "r": leaf, "map": [["d", "D"]]}, [[]]),
                "computed(leaf,const)": ({"k": "computed", "r": leaf, "col": "k", "fn": ["const", True]}, [["k"], []]),
                "computed(computed(leaf))": ({"k": "computed", "col": "k2", "fn": ["const", 2.5], "r": {
                    "k": "computed", "r": leaf, "col": "k", "fn": ["const", "dec"]}}, [["k2"], ["k", "k2"], ["k2", "k"]]),
                "computed(mapped(leaf))": ({"k": "computed", "col": "is_decoy", "fn": ["const", False], "r": {
                    "k": "mapped", "via": "from_path", "r": leaf, "map": [["c", "score"]]}}, [["is_decoy"]]),
                "joined(frame,leaf)": ({"k": "joined", "rs": [fr, leaf]}, [["a"], ["b", "a"], []]),
                "joined(leaf,frame)": ({"k": "joined", "rs": [leaf, fr]}, [["b"], ["b", "a"]]),
                "joined(frame,leaf,file)": ({"k": "joined", "rs": [fr, leaf, other]}, [["a"], ["h", "a"], ["g"]]),
                "joined(leaf,leaf')": ({"k": "joined", "rs": [leaf, other]}, [["h"], ["d"], []]),
                "joined(computed(leaf),frame)": ({"k": "joined", "rs": [
                    {"k": "computed", "r": leaf, "col": "k", "fn": ["const", 7]}, fr]}, [["k"], ["a", "k"], ["b"]]),
            }
            if not ctx.thorough:                            # quick tier: one request per kind of starvation
                quick = {"leaf": 1, "mapped(leaf,from_path)": 1, "computed(leaf,const)": 1, "computed(computed(leaf))": 1,
                         "joined(frame,leaf)": 3, "joined(leaf,frame)": 1, "joined(frame,leaf,file)": 1,
                         "joined(leaf,leaf')": 1, "joined(computed(leaf),frame)": 1}
                trees = {k: (rd, reqs[:quick[k]]) for k, (rd, reqs) in trees.items() if k in quick}
            for tl, (rd, reqs) in trees.items():
                for cols in reqs:
                    tg = ["empty-projection", "leaf:" + label, "tree:" + tl, f"n={n}", f"ncols={len(cols)}"]
                    cases.append(_case("read", rd, cols, tags=tg))
                    for c in range(1, n + 2):
                        cases.append(_case("chunks", rd, cols, c, tags=tg))
    return cases


def gen_random(ctx):
    rng = ctx.sub("trees")
    cases = []
    ntree = 700 if ctx.thorough else 120
    for t in range(ntree):
        n = rng.choice([0, 1, 2, 3, 3, 4, 5, 6, 7, 9, 12] + ([17, 25] if ctx.thorough else []))
        pool = _Names()
        depth = rng.choice([1, 2, 2, 3] + ([4] if ctx.thorough else []))
        rd = rand_reader(rng, depth, n, pool)
        for _ in range(3 if ctx.thorough else 2):
            cols = rand_request(rng, rd, want_ok=rng.random() < 0.9)
            tg = ["random-tree", "root:" + rd["k"], f"depth={depth}", "cols=None" if cols is None else "cols=list"]
            cases.append(_case("read", rd, cols, tags=tg))
            cs = {1, n + 1, max(1, n), rng.randint(1, n + 2), rng.randint(1, max(1, n // 2 + 1))}
            for c in sorted(cs):
                cases.append(_case("chunks", rd, cols, c, tags=tg))
            if rng.random() < 0.35 and in_domain(cases[-1]):
                # the same reader object asked something else first (or read whole while its chunks are being consumed)
                other = rand_request(rng, rd)
                if in_domain(dict(cases[-1], cols=other)):
                    pre = rng.choice([[["read", other]], [["chunks", rng.randint(1, n + 1), other, rng.choice([None, 1])]],
                                      [["read", None], ["names"]], [["chunks", 1, None, 1], ["read", other]]])
                    base = cases[-1 if rng.random() < 0.6 else -len(cs) - 1]
                    cases.append(_with_pre(base, pre, lazy=base["fn"] == "chunks" and rng.random() < 0.3, tag="random"))
        if has_computed(rd) and rng.random() < 0.5:
            # columns=None on a tree containing computed readers (root or nested): whole and chunked
            tg = ["random-tree", "root:" + rd["k"], f"depth={depth}", "cols=None", "none-with-computed"]
            cases.append(_case("read", rd, None, tags=tg))
            for c in sorted({1, max(1, n), rng.randint(1, n + 2)}):
                cases.append(_case("chunks", rd, None, c, tags=tg))
        cases.append({"fn": "names", "reader": rd, "tags": ["names"]})
    return cases


def gen_malformed(ctx):
    rng = ctx.sub("malformed")
    cases = []
    nmal = 500 if ctx.thorough else 150
    for t in range(nmal):
        n = rng.choice([0, 1, 2, 3, 4, 5, 7])
        pool = _Names()
        rd = rand_reader(rng, rng.choice([0, 1, 2, 2]), n, pool, rich=False)
        cols = rand_request(rng, rd, want_ok=False)
        c = rng.randint(1, n + 2)
        mut = rng.choice(["unknown", "dup", "c0", "uneq", "collide", "fn-len", "fn-short",
                          "empty-join", "empty-cols", "copy-unrequested", "dup-names-join", "unknown-only"])
        if mut == "unknown":
            cols = list(cols or spec_names(rd))
            cols.insert(rng.randint(0, len(cols)), "nope")
        elif mut == "dup":
            cols = list(cols or spec_names(rd))
            # not the source column of a computed reader's copy function: with that column requested twice the harness's own
            # function receives a two-column frame and raises — an artefact of the harness, not behaviour of the reader
            srcs = _copy_sources(rd)
            cand = [x for x in cols if x not in srcs] or None
            if cand is None:
                continue
            cols.insert(rng.randint(0, len(cols)), rng.choice(cand))
        elif mut == "c0":
            c = 0
        elif mut == "uneq":
            n2 = max(0, n + rng.choice([-2, -1, 1, 2, 3]))
            rd = {"k": "joined", "rs": [rd, rand_reader(rng, 1, n2, pool, rich=False)]}
            if rng.random() < 0.5:
                rd["rs"].reverse()
            if rng.random() < 0.5:
                rd["rs"].append(rand_leaf(rng, rng.choice([n, n2, 0]), pool, rich=False))
            cols = rand_request(rng, rd, want_ok=True)
        elif mut == "collide":
            names = spec_names(rd)
            if len(names) >= 2:
                a, b = rng.sample(names, 2)
                rd = {"k": "mapped", "r": rd, "map": [[a, b]]}
                cols = rng.choice([None, [b], [x for x in names if x != a]])
        elif mut == "fn-len":
            rd = {"k": "computed", "r": rd, "col": pool.fresh("K"), "fn": ["len"]}
            cols = rand_request(rng, rd, want_ok=True) or spec_names(rd)
        elif mut == "fn-short":
            rd = {"k": "computed", "r": rd, "col": pool.fresh("K"), "fn": ["short", 5]}
            if rng.random() < 0.5:
                rd = {"k": "joined", "rs": [rand_leaf(rng, rng.choice([n, 1, 2]), pool, rich=False), rd]}
            cols = rand_request(rng, rd, want_ok=True) or spec_names(rd)
        elif mut == "empty-join":
            rd = {"k": "joined", "rs": []} if rng.random() < 0.5 else {"k": "joined", "rs": [rd, {"k": "joined", "rs": []}]}
            cols = rng.choice([None, []])
        elif mut == "empty-cols":
            cols = []                                       # (not malformed any more: an ordinary request since the repair)
        elif mut == "unknown-only":
            cols = rng.choice([["nope"], ["nope", "nope2"]])
        elif mut == "copy-unrequested":
            names = spec_names(rd)
            src = rng.choice(names)
            rd = {"k": "computed", "r": rd, "col": pool.fresh("K"), "fn": ["copy", src]}
            cols = [x for x in names if x != src][:2] + [rd["col"]]
        elif mut == "dup-names-join":
            rd = {"k": "joined", "rs": [rd, copy.deepcopy(rd)]}
            cols = rng.choice([None, spec_names(rd)[:1]])
        tg = ["malformed", "mut:" + mut]
        cases.append(_case("read", rd, cols, tags=tg))
        cases.append(_case("chunks", rd, cols, c, tags=tg))
    return cases


def _wcase(fn, suffix, b, kind, tab, sizes, tags, v=None):
    d = {"fn": fn, "suffix": suffix, "b": b, "kind": kind, "tab": tab, "sizes": list(sizes),
         "tags": list(tags) + [f"writer:{suffix}" if suffix in (".tab", ".csv", ".parquet", ".peptides") else
                               ("writer:other-known-suffix" if suffix in ALL_CSV_SUFFIXES else "writer:unknown-suffix"),
                               f"kind:{kind}", f"b={b}" if b < 30 else "b>=30", f"appends={len(sizes)}",
                               "has-empty-append" if 0 in sizes else "no-empty-append"]}
    if v:
        d["v"] = dict(v)
        d["tags"] += [f"v:{k}={x}" if k != "rc" else "v:read-back-in-chunks" for k, x in sorted(v.items())]
    if tab.get("dt"):
        d["tags"].append("dtype:" + tab["dt"])
    return d


def _v_applicable(v, suffix, b, kind, fn, sizes):
    """does the variation make sense for this writer configuration"""
    is_pq = suffix == ".parquet"
    if v.get("sep") and is_pq:
        return False
    if v.get("style") == "handoff" and (is_pq or fn != "writer"):
        return False                                          # a Parquet file cannot be appended to by a second writer
    if v.get("stale") == "noeol" and is_pq:
        return False
    if v.get("idx") and kind != "DataFrame" and v.get("style") != "write":
        return False
    if v.get("dt") == "npscalar" and kind != "Dicts":
        return False
    if v.get("one_as_list") and kind != "Dicts":
        return False
    if v.get("colperm") is not None and (kind == "Records" or v["colperm"] >= len(sizes)):
        return False
    if v.get("style") == "write" and v.get("colperm") is not None:
        return False
    if v.get("style") == "write" and v.get("alias"):
        return False
    return True


_VARIATIONS = [
    {"sep": ","}, {"sep": ";"}, {"sep": "|"}, {"ctypes": "match"}, {"ctypes": "wide"},
    {"stale": "rows"}, {"stale": "garbage"}, {"stale": "self"}, {"stale": "noeol"},
    {"style": "explicit"}, {"style": "with-raise"}, {"style": "auto"}, {"style": "handoff"}, {"style": "write"},
    {"idx": "reset"}, {"idx": "perm"}, {"idx": "str"}, {"idx": "dup"}, {"style": "write", "idx": "perm"},
    {"dt": "npscalar"}, {"one_as_list": True}, {"alias": True}, {"colperm": 0}, {"colperm": 1}, {"rc": 1}, {"rc": 2}, {"rc": 3},
]


def gen_writer_variants(ctx):
    """everything about a writer that the append sequence does not say: suffix (all known ones, unknown ones -> delimited
    text), sep, column_types, what is at the path beforehand, how the writer is driven (with / initialize+finalize /
    auto_finalize with a second writer fed alternately / header by one writer object and rows through another / write()),
    row labels and dtypes of the appended frames, numpy scalars in dicts, re-use of the appended object by the caller,
    columns in another order, reading the finalised file back in chunks, default arguments, column names"""
    cases = []
    tab4 = plain_table(["a", "b", "s", "t"], 12)
    seqs = [(2, 1, 3), (1, 1, 1, 1), (0, 3, 0, 2), (4,), ()]
    # (a) one variation at a time, systematically
    for v in _VARIATIONS:
        for suffix in (".tab", ".parquet"):
            for b in (0, 2, 3):
                for kind in KINDS:
                    if b == 0 and kind != "DataFrame":
                        continue
                    for sizes in seqs:
                        if kind == "Records":
                            sizes = (1,) * (len(sizes) + 1)
                        if v.get("style") == "write":
                            sizes = (sum(sizes),)
                        if not _v_applicable(v, suffix, b, kind, "writer", sizes):
                            continue
                        if not ctx.thorough and kind != "DataFrame" and sizes in ((4,), ()):
                            continue
                        cases.append(_wcase("writer", suffix, b, kind, tab4, sizes, ["variation"], v))
        for kind in KINDS:                                   # BufferedWriter constructed directly
            sizes = (1, 1, 1, 1, 1) if kind == "Records" else (2, 0, 3)
            for suffix in (".tab", ".parquet"):
                if _v_applicable(v, suffix, 2, kind, "buffered", sizes) and v.get("style") != "write":
                    cases.append(_wcase("buffered", suffix, 2, kind, tab4, sizes, ["variation", "direct-BufferedWriter"], v))
    # (b) every suffix from_suffix knows, and some it does not know
    for suffix in ALL_CSV_SUFFIXES + UNKNOWN_SUFFIXES:
        for b, kind, sizes in ((0, "DataFrame", (2, 1)), (2, "DataFrame", (1, 0, 3)), (3, "Dicts", (1, 2, 1)), (2, "Records", (1, 1, 1))):
            for v in ({}, {"sep": ","}, {"stale": "rows"}):
                cases.append(_wcase("writer", suffix, b, kind, tab4, sizes, ["suffixes"], v))
    # (c) default arguments: BufferedWriter(inner) buffers 1000 rows in a DataFrame; from_suffix(path, columns) does not buffer
    big = plain_table(["a", "b"], 2300)
    for suffix in (".tab", ".parquet"):
        for sizes in ((999, 1, 1), (1000,), (1001, 999, 5), (400, 400, 400, 400), (3, 2), (2300,), (0, 1000, 0, 1)):
            cases.append(_wcase("buffered", suffix, 1000, "DataFrame", big, sizes, ["defaults", "direct-BufferedWriter"], {"defaults": True}))
        cases.append(_wcase("writer", suffix, 1000, "Dicts", big, (999, 2, 1000), ["defaults-size"], {}))
        for sizes in ((2, 1), (0,), ()):
            cases.append(_wcase("writer", suffix, 0, "DataFrame", tab4, sizes, ["defaults"], {"defaults": True}))
    # (d) column names that need quoting / look like numbers / collide with pandas' own names
    rng = ctx.sub("writer-variants")
    for t in range(40 if ctx.thorough else 12):
        names = rng.sample(FANCY_NAMES, rng.randint(1, 4))
        tb = mk_table(rng, names, 7)
        for suffix, v in ((".tab", {}), (".csv", {"sep": ","}), (".parquet", {}), (".txt", {"sep": ";"})):
            kind = rng.choice(["DataFrame", "Dicts"])
            cases.append(_wcase("writer", suffix, rng.choice([0, 2, 3]) if kind == "DataFrame" else rng.choice([2, 3]), kind, tb,
                                rng.choice([(2, 1, 3), (1, 1, 2), (7,)]), ["fancy-names"], v))
    # (e) random combinations of variations on random tables and append sequences
    for t in range(1500 if ctx.thorough else 300):
        L = rng.randint(0, 8)
        kind = rng.choice(KINDS)
        sizes = [1] * L if kind == "Records" else [rng.choice([0, 1, 1, 2, 3, 5, 8]) for _ in range(L)]
        n = sum(sizes)
        pool = _Names()
        tb = mk_table(rng, [pool.fresh() for _ in range(rng.randint(1, 4))], n, nans="f" if kind == "Records" else "fs")
        if rng.random() < 0.3:
            tb["dt"] = rng.choice(["object", "narrow"])
        b = rng.choice([0, 1, 2, 2, 3, 4, 5, 7, 10, n, n + 1, max(2, n - 1)])
        if kind != "DataFrame" and b <= 1:
            b = 2
        suffix = rng.choice([".tab", ".csv", ".parquet", ".parquet", rng.choice(ALL_CSV_SUFFIXES), rng.choice(UNKNOWN_SUFFIXES)])
        fn = "writer" if rng.random() < 0.8 or b < 1 else "buffered"
        v = {}
        for _ in range(rng.choice([1, 2, 2, 3, 4])):
            cand = dict(rng.choice(_VARIATIONS))
            if cand.get("alias") and rng.random() < 0.6:
                continue
            if cand.get("colperm") is not None:
                cand["colperm"] = rng.randint(0, max(0, L - 1))
            if cand.get("rc"):
                cand["rc"] = rng.randint(1, n + 1)
            v.update(cand)
        if v.get("style") == "write":
            sizes = [n]
        if not _v_applicable(v, suffix, b, kind, fn, sizes):
            continue
        if kind == "Records" and v.get("style") == "write":
            continue
        cases.append(_wcase(fn, suffix, b, kind, tb, sizes, ["variation", "random"], v))
    return cases


def gen_writers(ctx):
    cases = []
    bmax = 6 if ctx.thorough else 4
    lmax = 4 if ctx.thorough else 3
    seqs = [()]
    for L in range(1, lmax + 1):
        seqs += list(itertools.product((0, 1, 2, 3), repeat=L))
    tab = plain_table(["a", "b", "s", "t"], 3 * lmax)
    suffixes = [".tab", ".parquet"]
    for suffix in suffixes:
        for b in range(0, bmax + 1):
            for kind in ("DataFrame", "Dicts"):
                if kind == "Dicts" and b <= 1:
                    sub = [(), (1,), (2, 1)]
                elif not ctx.thorough and b <= 1 and suffix == ".tab":
                    sub = seqs[::4]
                elif ctx.thorough or kind == "DataFrame" or suffix == ".parquet":
                    sub = seqs
                else:
                    sub = seqs[::3]
                for sizes in sub:
                    cases.append(_wcase("writer", suffix, b, kind, tab, sizes, ["exhaustive"]))
            for L in range(0, 2 * bmax):
                cases.append(_wcase("writer", suffix, b, "Records", tab, (1,) * min(L, 3 * lmax), ["exhaustive"]))
            for sizes in ((0,), (2,), (1, 2), (1, 1, 0)):
                cases.append(_wcase("writer", suffix, b, "Records", tab, sizes, ["malformed"]))
    rng = ctx.sub("writers")
    nrand = 400 if ctx.thorough else 100
    for t in range(nrand):
        L = rng.randint(0, 9)
        kind = rng.choice(KINDS)
        sizes = [1] * L if kind == "Records" else [rng.choice([0, 1, 1, 2, 3, 5, 8]) for _ in range(L)]
        n = sum(sizes)
        pool = _Names()
        tb = mk_table(rng, [pool.fresh() for _ in range(rng.randint(1, 4))], n, nans="f" if kind == "Records" else "fs")
        b = rng.choice([0, 1, 2, 2, 3, 4, 5, 7, 10, n, n + 1, max(2, n - 1)])
        if kind != "DataFrame" and b <= 1:
            b = 2
        suffix = rng.choice([".tab", ".csv", ".parquet", ".parquet", ".peptides"])
        cases.append(_wcase("writer", suffix, b, kind, tb, sizes, ["random"]))
    # rows that reached the file after each append (the invariant of the flush loop), CSV only
    for b in (2, 3, 4):
        for kind in KINDS:
            for sizes in ((), (1,), (2,), (1, 1), (1, 1, 1, 1), (b,), (b, b), (2 * b,), (b - 1, 1, 0, b), (3, 0, 2, 4),
                          (1, 1, 1, 1, 1, 1, 1)):
                if kind == "Records":
                    sizes = (1,) * len(sizes)
                cases.append(_wcase("trace", ".tab", b, kind, plain_table(["a", "b", "s"], 12), sizes, ["trace"]))
                if len(sizes) in (2, 4):
                    for v in ({"stale": "rows"}, {"sep": ","}, {"stale": "garbage", "sep": ";"}):
                        cases.append(_wcase("trace", ".csv", b, kind, plain_table(["a", "b", "s"], 12), sizes, ["trace"], v))
    for t in range(60 if ctx.thorough else 15):
        kind = rng.choice(KINDS)
        L = rng.randint(1, 8)
        sizes = [1] * L if kind == "Records" else [rng.choice([0, 1, 2, 3, 4, 6]) for _ in range(L)]
        b = rng.choice([2, 2, 3, 4, 5, 6])
        cases.append(_wcase("trace", rng.choice([".tab", ".csv"]), b, kind,
                            plain_table(["a", "b", "s"], max(1, sum(sizes))), sizes, ["trace", "random"]))
    for suffix in suffixes:
        for b in (1, 2, 3):
            for kind in KINDS:
                for sizes in ((), (1,), (1, 1, 1), (2, 0, 3), (3, 3), (0,), (1, 1, 1, 1, 1)):
                    if kind == "Records":
                        sizes = (1,) * len(sizes)
                    cases.append(_wcase("buffered", suffix, b, kind, tab, sizes, ["direct-BufferedWriter"]))
    return cases


def gen(ctx):
    return (gen_exhaustive(ctx) + gen_empty_projection(ctx) + gen_indexed(ctx) + gen_repeated(ctx) + gen_random(ctx)
            + gen_malformed(ctx) + gen_writers(ctx) + gen_writer_variants(ctx) + gen_finding_streams(ctx)
            + gen_shared_frames(ctx))


# ------------------------------------------------------------------------------------------------ known findings
def _model_of(c):
    out = lib.run_driver([encode(c)])[0]
    return decode(c, lib.Toks(out))


def _strip_index(c, r):
    """a reader result without its row labels (and, for get_column_names, without the stored index column)"""
    r = lib.jsonable(r)
    if r[0] != "ok":
        return r
    if c["fn"] == "names":
        return ["ok", [x for x in r[1] if x != 99999]]
    if c["fn"] == "read":
        return ["ok", r[1][1:]]
    return ["ok", [ch[1:] for ch in r[1]]]


def _mask_cols(c, r, names):
    """a reader result with the cells of the named columns blanked"""
    r = lib.jsonable(r)
    if r[0] != "ok" or c["fn"] == "names":
        return r
    ids = _ids(c)
    drop = {ids.look_name(n) for n in names}

    def f(fr):
        keep = [k for k, nm in enumerate(fr[1]) if nm not in drop]
        return [fr[0], fr[1], [[row[k] for k in keep] for row in fr[2]]]
    return ["ok", f(r[1]) if c["fn"] == "read" else [f(x) for x in r[1]]]


def finding_key(c, m, i):
    """known defects of /repo (known_findings.json, kind known); a key is given only when the known defect is ALL that is
    wrong with the case: the rest of the answer equals the model's.  Repaired defects have no key: a repeated-call case
    over a computed reader (af0267a) or a re-used dict appended to a Dicts buffer (6413561) that disagrees with the model is
    a violation like any other"""
    i = lib.jsonable(i)
    fn = c["fn"]
    if fn in ("read", "chunks", "names"):
        leaves = list(_walk_tables(c["reader"]))
        if any(l.get("pdindex") for l in leaves):
            if m is None:
                m = _model_of(c)
            if i[0] == "err":
                strs = any(isinstance(x, str) for l in leaves for x in (l["tab"].get("index") or []))
                return K_PQ_INDEX if (i[1] == "TypeError" and strs and fn == "chunks" and lib.jsonable(m)[0] == "ok") else None
            return K_PQ_INDEX if _strip_index(c, m) == _strip_index(c, i) else None
        mixed = [n for l in leaves for n in l.get("mixed") or []]
        if mixed and fn == "chunks":
            if m is None:
                m = _model_of(c)
            renamed = set(mixed) | {b for a, b in _all_maps(c["reader"]) if a in mixed}
            return K_CSV_MIXED if _mask_cols(c, m, renamed) == _mask_cols(c, i, renamed) else None
    return None


def _all_maps(spec):
    k = spec["k"]
    if k == "mapped":
        return [tuple(p) for p in spec["map"]] + _all_maps(spec["r"])
    if k == "computed":
        return _all_maps(spec["r"])
    if k == "joined":
        return [p for r in spec["rs"] for p in _all_maps(r)]
    return []


# ------------------------------------------------------------------------------------------------ shrinking
def _cut_rows(spec, n):
    spec = copy.deepcopy(spec)
    for leaf in _walk_tables(spec):
        leaf["tab"]["cols"] = [col[:n] for col in leaf["tab"]["cols"]]
        if leaf["tab"].get("index") is not None:
            leaf["tab"]["index"] = leaf["tab"]["index"][:n]
        if leaf.get("rgs") is not None:
            out, left = [], _nrows(leaf["tab"])
            for x in leaf["rgs"]:
                out.append(min(x, left))
                left -= out[-1]
            leaf["rgs"] = out + ([left] if left else [])
    return spec


def shrink(c):
    if c["fn"] in ("writer", "buffered", "trace"):
        for k in range(len(c["sizes"])):
            yield dict(c, sizes=c["sizes"][:k] + c["sizes"][k + 1:])
        for k in range(len(c["sizes"])):
            if c["sizes"][k] > 0:
                yield dict(c, sizes=c["sizes"][:k] + [c["sizes"][k] - 1] + c["sizes"][k + 1:])
        if c["b"] > 2:
            yield dict(c, b=c["b"] - 1)
        return
    if "reader" not in c:
        return
    n = max([_nrows(t["tab"]) for t in _walk_tables(c["reader"])] or [0])
    for m in (n // 2, n - 1):
        if 0 <= m < n:
            d = dict(copy.deepcopy(c), reader=_cut_rows(c["reader"], m))
            if c.get("others"):                             # the other readers over the same frames
                d["others"] = [dict(o, reader=_cut_rows(o["reader"], m)) for o in d["others"]]
            yield fix_oracles(d)
    for key in ("pre",):                                    # fewer earlier requests
        if c.get(key) and len(c[key]) > 1:
            for k in range(len(c[key])):
                yield dict(copy.deepcopy(c), **{key: c[key][:k] + c[key][k + 1:]})
    if c["fn"] == "chunks" and c["c"] > 1:
        yield fix_oracles(dict(copy.deepcopy(c), c=c["c"] - 1))
    if c.get("cols"):
        for k in range(len(c["cols"])):
            if len(c["cols"]) > 1:
                yield fix_oracles(dict(copy.deepcopy(c), cols=c["cols"][:k] + c["cols"][k + 1:]))
    rd = c["reader"]
    if rd["k"] in ("mapped", "computed") and c.get("cols") is None:
        yield fix_oracles(dict(copy.deepcopy(c), reader=copy.deepcopy(rd["r"])))
    if rd["k"] == "joined" and len(rd["rs"]) > 1:
        for k in range(len(rd["rs"])):
            r2 = dict(rd, rs=rd["rs"][:k] + rd["rs"][k + 1:])
            keep = set(spec_names(r2))
            cols = None if c.get("cols") is None else [x for x in c["cols"] if x in keep]
            yield fix_oracles(dict(copy.deepcopy(c), reader=copy.deepcopy(r2), cols=cols))


# ------------------------------------------------------------------------------------------------ extra checks
def _regression_probe(case, key, what):
    i = impl(case)
    msg = oracle(case, i)
    if msg:
        return {"key": key, "what": f"{what}: {msg}", "failing_input": case}
    return None


def extra_checks(ctx):
    """(a) contract of the recorded Parquet batch-length oracle; (b) the repaired defects of /repo (a CSV / Parquet leaf
    asked for no column: fixed findings csv-reader:columns=[], parquet-reader:columns=[]; a computed reader over a
    DataFrameReader asked again after a whole read: computed-reader:read-all-writes-into-wrapped-frame; a re-used dict
    appended to a Dicts buffer: buffered-writer:dicts-buffer-keeps-references) are probed with the property
    oracle directly: a failure here is a violation (the keys are not known findings any more)."""
    fails = list(_ORACLE_FAILS)
    info = {"oracle_contract_checks": _ORACLE_CHECKS[0]}
    ta, tb = plain_table(["a", "b"], 3), plain_table(["c", "d"], 3, 7)
    probes = [
        (_case("chunks", {"k": "joined", "rs": [_leaf("csv", ta, suffix=".tab"), _leaf("frame", tb)]}, ["d"], 2),
         "regression:csv-reader:columns=[]",
         "JoinedTabularDataReader over a CSV member none of whose columns is requested, chunked"),
        (_case("read", {"k": "computed", "r": _leaf("csv", ta, suffix=".tab"), "col": "k", "fn": ["const", True]},
               ["k"]), "regression:csv-reader:columns=[]",
         "ComputedTabularDataReader over a CSV reader, only the computed column requested"),
    ]
    tp = plain_table(["c", "d"], 5, 7)
    probes += [
        (_case("chunks", {"k": "computed", "r": _leaf("parquet", tp, rg=1), "col": "k", "fn": ["const", True]},
               ["k"], 2), "regression:parquet-reader:columns=[]",
         "ComputedTabularDataReader over a Parquet reader (row groups of 1), only the computed column requested, chunked"),
        (_case("chunks", {"k": "joined", "rs": [_leaf("frame", plain_table(["a", "b"], 9)),
                                                _leaf("parquet", plain_table(["c", "d"], 9, 7), rg=2)]},
               ["a"], 4), "regression:parquet-reader:columns=[]",
         "JoinedTabularDataReader over a Parquet member (row groups of 2) none of whose columns is requested, chunked"),
        (_case("chunks", _leaf("parquet", plain_table(["c", "d"], 7, 7), rg=3), [], 2),
         "regression:parquet-reader:columns=[]", "ParquetFileReader (row groups of 3) asked for columns=[], chunked"),
        (_case("chunks", _leaf("csv", plain_table(["c", "d"], 7, 7), suffix=".tab"), [], 3),
         "regression:csv-reader:columns=[]", "CSVFileReader asked for columns=[], chunked"),
    ]
    # af0267a: the second request on a reader whose computed member wraps a DataFrameReader, after one read() of everything
    comp = {"k": "computed", "r": _leaf("frame", plain_table(["a", "b"], 3)), "col": "k", "fn": ["const", True]}
    jn = {"k": "joined", "rs": [comp, _leaf("frame", plain_table(["c"], 3, 7))]}
    probes += [
        (_with_pre(_case("read", jn, ["c", "k"]), [["read", None]], tag="read-all"),
         "regression:computed-reader:read-all-writes-into-wrapped-frame",
         "JoinedTabularDataReader over ComputedTabularDataReader(DataFrameReader): read(['c','k']) after read()"),
        (_with_pre(_case("chunks", jn, ["c", "k"], 2), [["read", None]], tag="read-all"),
         "regression:computed-reader:read-all-writes-into-wrapped-frame",
         "JoinedTabularDataReader over ComputedTabularDataReader(DataFrameReader): chunks of ['c','k'] after read()"),
        (_with_pre(_case("read", comp, None), [["read", None]], tag="read-all"),
         "regression:computed-reader:read-all-writes-into-wrapped-frame",
         "ComputedTabularDataReader(DataFrameReader): read() after read()"),
        (_with_pre(_case("chunks", jn, None, 2), lazy=True),
         "regression:computed-reader:read-all-writes-into-wrapped-frame",
         "JoinedTabularDataReader over ComputedTabularDataReader(DataFrameReader): read() between two chunks"),
    ]
    # 6413561: one dict refilled and appended for every row, buffer of 3 rows
    tw = plain_table(["a", "b", "s"], 5)
    probes += [
        (_wcase(fn, suffix, 3, "Dicts", tw, [1, 1, 1, 1, 1], ["regression-probe"], v={"alias": True}),
         "regression:buffered-writer:dicts-buffer-keeps-references",
         f"{fn} {suffix}, Dicts buffer of 3 rows: the caller refills the dict it has just appended")
        for fn, suffix in (("writer", ".tab"), ("writer", ".parquet"), ("buffered", ".tab"))
    ] + [
        (_wcase("writer", ".tab", 4, "Dicts", tw, [2, 2, 1], ["regression-probe"], v={"alias": True}),
         "regression:buffered-writer:dicts-buffer-keeps-references",
         "writer .tab, Dicts buffer of 4 rows: the caller refills the list of dicts it has just appended"),
    ]
    seen = []
    for case, key, what in probes:
        f = _regression_probe(case, key, what)
        if f:
            fails.append(f)
            seen.append(key)
    info["repaired_defect_probes"] = {"run": len(probes), "failing": len(seen)}
    return fails, info
