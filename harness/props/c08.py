"""C08 — determinism with a fixed seed: the same analysis in fresh interpreters with different hash seeds,
repeated in one process, with different worker counts, and with the returned models fed back in
every order.  The order-independence theorems are in Props/C08.v; this module is the history check."""
import json
import os
import subprocess
import sys
import tempfile

from .. import lib, brewlib
from . import c15

PROP = "C08"
RULE = ("per dataset (PSM tables whose peptides come from a generated FASTA with subset / shared-peptide structures, fragments contained in two non-nested proteins, and "
        "decoys): the full analysis read_pin -> read_fasta -> brew (real PercolatorModel, fixed seed) -> assign_confidence "
        "with proteins is run in fresh interpreters under PYTHONHASHSEED in {0, 1, 2, random} x max_workers in {1, 4} (base datasets; the "
        "datasets of the white-box streams use three or four of these eight combinations), "
        "half of the base datasets carry a string-valued filename column in the spectrum key; twice in each process, and the returned models are fed back in every permutation (k! for k<=4 folds; reversed, rotated and two random orders for 10 folds), "
        "as lists and as tuples, and (persist) after a round trip through model files. Compared "
        "bit for bit (float.hex / sha256): fold numbers, model coefficients, scores, descs, best feature / direction / count of every fold model, every result file (PSM, "
        "peptide, protein level), read_fasta maps and has_decoys. Every dataset holds 'twin' PSMs: two spectra of the same fold (same first two spectrum-key columns, "
        "different ExpMass) with equal, top feature values on two peptides of one protein (and of one target/decoy protein pair), so that the best score of "
        "that protein is a tie which the seeded shuffle of groupby_max has to break (counted in the real call: 2-4 such groups per dataset). "
        "The confidence stage is run a second and a third time with the scores rounded to one "
        "decimal and to integers (exact ties at every level), and the interpreter-global numpy / "
        "random state is set differently before the two runs of a process. The spectrum key is (filename, ScanNr, ExpMass) or (ScanNr, ret_time, ExpMass). White-box dimensions, each present in both tiers (tags wb:*): "
        "MOKAPOT_* chunk-size environment smaller than the tables (several row chunks in read_pin, training-set assembly, prediction, "
        "confidence, merge sort; several column chunks) together with random delays in mokapot's worker functions so that threads finish "
        "in another order in every run; 2-3 collections of different size; subset_max_train below the training-set size; ensemble=True; "
        "the seed given as a fresh numpy Generator instead of an int; run 2 re-using the model object and the result directory of run 1; "
        "Parquet input; feature columns with missing values (dropped by read_pin); FASTA without decoys (target-only: decoy peptides are "
        "mapped through match_decoy), FASTA handed over as two files, missed_cleavages 1-2, clip_nterm_methionine, semi; "
        "brew(model=None) (the default model, which brew seeds from its rng), target-only FASTA with anagram target peptides (match_decoy "
        "has two candidates per decoy peptide and must choose with the rng of the run) and Parquet input WITH the protein level are "
        "ordinary cases of the generator (regressions of repairs 611ab32, ebd023e, 7b6f120, 9b4fbd9 in /repo); in a second anagram dataset "
        "(target-only-anagram-multi) the anagram peptides share their protein with a second peptide, so that their place among the keys of "
        "peptide_map - the candidates of match_decoy - comes from set iteration order. No input class is exempted: there is no finding_key. "
        "distinct = (dataset, options, hash seed, workers); "
        "every generated configuration is valid: an analysis that does not run through (a fold not trained, a result file of one of the three confidence runs missing, "
        "no feed-back run) is a disagreement, not a skipped case; "
        "non-trivial = the analysis ran through (every fold trained, all result files of the three confidence runs written, the feed-back "
        "runs done, the requested chunk sizes in force) and at least one protein pair had its best "
        "score on two peptides (counted in the real groupby_max call), so that the seeded tie-break decided an output row")
ASSUMPTIONS = [
    "bit-reproducibility of numpy Generators, liblinear and BLAS across processes is runtime: observed, not proved",
    "shared_peptides VALUES ('; '.join(set)) differ between hash seeds by design; only the key set is compared and used downstream",
    "PEP estimation replaced by a deterministic constant",
    "results are compared between runs with the SAME chunk-size environment; equality across chunk sizes is C05 / C03, not C08",
    "a seed given as numpy Generator is 'fixed' when every run constructs it afresh from the same integer",
    "make_decoys(reverse=False) has no seed argument (it draws from numpy's global state): outside 'with a fixed seed', not exercised",
    "'a fixed seed' = every rng argument of the public calls of the analysis (PercolatorModel, brew, assign_confidence) is given the seed, or the "
    "object is left to brew (model=None, which brew seeds itself); a PercolatorModel that the caller builds WITHOUT rng= has drawn the state of "
    "its grid-search KFold from OS entropy before any seed was supplied: a caller who did not fix all seeds, not generated",
]
TRUSTED_EXTRA = ["subprocess isolation; PYTHONHASHSEED handling of CPython"]

CHUNK_ENV = {
    "trainread": "MOKAPOT_CHUNK_SIZE_READ_ALL_DATA",
    "predict": "MOKAPOT_CHUNK_SIZE_ROWS_PREDICTION",
    "confidence": "MOKAPOT_CONFIDENCE_CHUNK_SIZE",
    "mergesort": "MOKAPOT_MERGE_SORT_CHUNK_SIZE",
    "rowscan": "MOKAPOT_CHUNK_SIZE_ROWS_FOR_DROP_COLUMNS",
    "colscan": "MOKAPOT_CHUNK_SIZE_COLUMNS_FOR_DROP_COLUMNS",
}


def _small_chunks(rng):
    """chunk sizes well below the table sizes (360+ rows), none dividing another"""
    return {CHUNK_ENV["trainread"]: rng.choice([83, 97, 151]), CHUNK_ENV["predict"]: rng.choice([61, 89, 131]),
            CHUNK_ENV["confidence"]: rng.choice([73, 113, 197]), CHUNK_ENV["mergesort"]: rng.choice([7, 19, 53]),
            CHUNK_ENV["rowscan"]: rng.choice([79, 101, 173]), CHUNK_ENV["colscan"]: rng.choice([2, 3, 5])}


def _comp(p):
    return "".join(sorted(p))


def _gen_fasta(rng, mode, fasta_args):
    """(FASTA text, real read_fasta result, anagram triples, peptides that get no PSM).  target-only: no decoy entries, and the unique target
    peptides have pairwise different amino-acid compositions (so that match_decoy has exactly one candidate per decoy
    peptide); target-only-anagram: three extra protein pairs whose only peptides are anagrams of each other;
    target-only-anagram-multi: six such pairs, each of these proteins with a second peptide."""
    for _ in range(200):
        fasta, tp, dp = c15.gen_fasta(rng, "mirror" if mode == "mirror" else "target-only", wide=True, trios=3)
        anagrams, silent = [], []
        if mode in ("target-only-anagram", "target-only-anagram-multi"):
            for t in range(3 if mode == "target-only-anagram" else 6):
                body = rng.sample(c15.AA, 6)
                x = "".join(body) + "K"
                y = "".join(body[2:] + body[:2]) + "K"
                if mode == "target-only-anagram-multi":
                    # the anagram peptide is one of TWO peptides of its protein: its place among the keys of
                    # peptide_map then comes from the iteration order of a set of strings (digest)
                    # (that second peptide gets no PSM: the protein is identified by its anagram peptide alone)
                    u, v = ("".join(rng.sample(c15.AA, 7)) + "R" for _ in range(2))
                    silent += [u, v]
                    fasta += ">ANA%dA first\n%s%s\n>ANA%dB second\n%s%s\n" % (t, x, u, t, y, v)
                else:
                    fasta += ">ANA%dA first\n%s\n>ANA%dB second\n%s\n" % (t, x, t, y)
                anagrams.append((x, y, "".join(body[::-1]) + "K"))
        P = c15._proteins({"fasta": fasta, "fasta_args": fasta_args})
        if P is None:
            continue
        if mode != "mirror":
            keys = [p for p in P.peptide_map if not any(p in a[:2] for a in anagrams)]
            if len({_comp(p) for p in keys}) != len(keys):
                continue
            if any(_comp(a[0]) in {_comp(p) for p in keys} for a in anagrams):
                continue
        return fasta, P, anagrams, silent
    raise RuntimeError("no FASTA of the requested shape found")


def _dataset(rng, k, shape):
    """one dataset: list of PSM tables (dicts of columns) + FASTA text + fasta_args.
    shape: fasta_mode, filename_col, nfiles, nan_feats, levels, n (lo, hi), sep (distance of good PSMs), fasta_args"""
    fasta_args = dict(c15.FASTA_ARGS)
    fasta_args.update(shape.get("fasta_args") or {})
    mode = shape.get("fasta_mode", "mirror")
    pre = fasta_args["decoy_prefix"]
    # exact score ties inside a protein / inside a target-decoy protein pair: twin PSMs with identical feature
    # values on two different peptides of the same pair, which occur in no other PSM, so that the picked-protein
    # step has to break the tie (with the seeded generator, never with interpreter-global state).
    # The twins carry feature values above those of all other PSMs, so that they are the two best peptides of their
    # pair and the tie is a tie for the best peptide of the protein (the worker counts such groups: `tie_groups`).
    for _ in range(100):
        fasta, P, anagrams, silent = _gen_fasta(rng, mode, fasta_args)
        pkey = lambda gname: P.protein_map.get(gname.split(",")[0].strip(), gname.split(",")[0].strip())
        bykey = {}
        for pep, gname in sorted(P.peptide_map.items()):
            if not any(pep in a for a in anagrams) and pep not in silent:
                bykey.setdefault(pkey(gname), []).append((pep, not gname.startswith(pre)))
        keys = sorted(bykey)
        rng.shuffle(keys)
        pairs = []
        for key in keys:                      # up to three proteins with two tied target peptides
            ts = [x for x in bykey[key] if x[1]]
            if len(ts) >= 2 and len(pairs) < 3:
                pairs.append(rng.sample(ts, 2))
        for key in keys:                      # and one pair in which a target and a decoy peptide tie
            ts = [x for x in bykey[key] if x[1]]
            ds = [x for x in bykey[key] if not x[1]]
            if ts and ds and not any(x in pr for pr in pairs for x in ts + ds):
                pairs.append([rng.choice(ts), rng.choice(ds)])
                break
        if len(pairs) >= 2:
            break
    else:
        raise RuntimeError("no FASTA with two proteins of two unique peptides found")
    allp = list(P.peptide_map.items()) + list(P.shared_peptides.items())
    tpeps = sorted(p for p, g in allp if not g.startswith(pre))
    dpeps = sorted(p for p, g in allp if g.startswith(pre))
    if mode != "mirror":
        # no decoy proteins: the decoy PSMs carry reversed target peptides (same composition, match_decoy maps them)
        ana = {p for a in anagrams for p in a[:2]} | set(silent)
        dpeps = sorted({c15.mirror(p, "reverse", rng) for p in tpeps if p not in ana} - set(tpeps))
    reserved = {pep for pr in pairs for pep, _ in pr} | {p for a in anagrams for p in a} | set(silent)
    tpool = [p_ for p_ in tpeps if p_ not in reserved] or tpeps
    dpool = [p_ for p_ in dpeps if p_ not in reserved] or dpeps
    n = rng.randint(*shape.get("n", (360, 520)))
    sep = shape.get("sep", 2.5)
    rows = []
    for i in range(n):
        tgt = rng.random() < 0.6
        pep = rng.choice(tpool if tgt else dpool)
        good = tgt and rng.random() < 0.75
        rows.append((tgt, pep, good))
    for x, y, rx in anagrams:
        # the first anagram is a good target, the second a poor one, the reversed sequence a decoy seen several times:
        # whichever of the two targets match_decoy picks decides with which protein the decoy competes
        rows += [(True, x, True), (True, y, False)] + [(False, rx, False)] * 4
    twins = {}
    for j, pr in enumerate(pairs):
        for pep, tgt in pr:
            twins[len(rows)] = 6.0 + 0.5 * j
            rows.append((tgt, pep, False))
    n = len(rows)
    cols = {"SpecId": ["psm%d" % i for i in range(n)], "Label": [1 if r[0] else -1 for r in rows],
            "ScanNr": [rng.randint(1, n // 2) for _ in range(n)], "ExpMass": [500 + rng.randint(0, 5) * 0.25 for _ in range(n)],
            # two equally informative features: the learned combination beats the best single feature on every fold
            "feat0": [round(rng.gauss(sep if r[2] else 0.0, 1.0), 4) for r in rows],
            "feat1": [round(rng.gauss(sep if r[2] else 0.0, 1.0), 4) for r in rows],
            "feat2": [round(rng.random(), 4) for _ in range(n)],
            "Peptide": ["K." + r[1] + ".A" for r in rows], "Proteins": ["x"] * n}
    # the spectrum key is (filename, ScanNr, ExpMass) or (ScanNr, ret_time, ExpMass); the fold of a spectrum is decided by
    # its first two key columns (dataset._split), and a fold model gives equal scores to equal feature rows: the twins of a
    # pair are two spectra (different ExpMass) with the same first two key columns, hence the same fold and the same score
    if shape.get("filename_col"):
        # a string-valued spectrum column: the spectrum key (filename, ScanNr) then contains a string, so that a
        # hash-seed dependent treatment of it (fold assignment) shows up between interpreter sessions
        lead = ("filename", [rng.choice(["runA.mzML", "runB.mzML", "runC.mzML"]) for _ in range(n)])
    else:
        lead = ("ret_time", [rng.randint(0, 40) * 0.5 for _ in range(n)])
    tw = sorted(twins)
    for j, (a, b) in enumerate(zip(tw[0::2], tw[1::2])):
        for i, mass in ((a, 700.25), (b, 701.5)):
            cols["ScanNr"][i] = n + j
            cols["ExpMass"][i] = mass
            lead[1][i] = lead[1][a]
            cols["feat0"][i], cols["feat1"][i], cols["feat2"][i] = twins[a], twins[a], 0.5
    if shape.get("nan_feats"):
        # feature columns with missing values: read_pin drops them (the surviving features and their order must not
        # depend on the order in which the dropped ones are found)
        for nm, pos in (("gapB", "feat1"), ("gapA", "feat2"), ("gapC", "Peptide")):
            vals = [round(rng.random(), 3) for _ in range(n)]
            for i in rng.sample(range(n), rng.randint(1, 5)):
                vals[i] = None
            new = {}
            for kk, v in cols.items():
                if kk == pos:
                    new[nm] = vals
                new[kk] = v
            cols = new
    for lv in shape.get("levels") or ():
        # extra roll-up levels (read_pin finds them by name); half of the values coincide with the Peptide string
        vals = [cols["Peptide"][i] if rng.random() < 0.5 else "%s%d" % (lv[:2].lower(), rng.randint(0, n // 3)) for i in range(n)]
        new = {}
        for kk, v in cols.items():
            if kk == "Proteins":
                new[lv] = vals
            new[kk] = v
        cols = new
    cols = {"SpecId": cols["SpecId"], "Label": cols["Label"], "ScanNr": cols["ScanNr"], lead[0]: lead[1],
            **{kk: v for kk, v in cols.items() if kk not in ("SpecId", "Label", "ScanNr")}}
    nfiles = shape.get("nfiles", 1)
    if nfiles == 1:
        files = [{"columns": list(cols.keys()), "data": cols}]
    else:
        # collections of different size (the first is the largest), rows dealt out at random
        weights = [[0.6, 0.4], [0.5, 0.3, 0.2]][nfiles - 2]
        owner = [rng.choices(range(nfiles), weights)[0] for _ in range(n)]
        tw = sorted(twins)
        for a, b in zip(tw[0::2], tw[1::2]):      # the two PSMs of a tie stay in one collection
            owner[b] = owner[a]
        files = []
        for f in range(nfiles):
            idx = [i for i in range(n) if owner[i] == f]
            for nm in ("gapA", "gapB", "gapC"):
                # every collection has to lose the same features (brew refuses collections with different features)
                if nm in cols and all(cols[nm][i] is not None for i in idx):
                    cols[nm][rng.choice(idx)] = None
            files.append({"columns": list(cols.keys()), "data": {kk: [v[i] for i in idx] for kk, v in cols.items()}})
    return files, fasta, fasta_args


MATRIX_FULL = [(hs, w) for hs in ("0", "1", "2", "R") for w in (1, 4)]
MATRIX_SMALL = [("0", 1), ("1", 4), ("R", 4), ("2", 1)]


def _plan(ctx, rng):
    """(name, shape, options, folds, matrix) per dataset.  The first entries are the same in both tiers, so that every
    white-box dimension is present in the quick tier as well."""
    plan = []
    nbase = 6 if ctx.thorough else 2
    for k in range(nbase):
        shape = {"filename_col": k % 2 == 0}
        opts = {}
        if k % 2 == 0:
            # the base analysis under a small-chunk environment with perturbed thread timing, run 2 re-using the
            # model object and the result directory of run 1
            opts = {"chunks": "small", "sleep": True, "reuse": True}
        else:
            opts = {"rng_kind": "generator", "persist": True}
        plan.append(("base%d" % k, shape, opts, (rng.choice([2, 3, 3, 4]) if k % 3 else 10), MATRIX_FULL))
    wb = [
        # several collections, training subset drawn with the seeded generator, chunks + delays, FASTA in two files
        ("multi-subset", {"nfiles": 2, "n": (640, 800), "fasta_args": {"missed_cleavages": 1}, "levels": ["ModifiedPeptide", "Precursor"]},
         {"chunks": "small", "sleep": True, "subset": 0.6, "fasta_files": 2, "persist": True}, 3),
        # FASTA without decoys (unique compositions), features with missing values, ensemble prediction
        ("target-only", {"fasta_mode": "target-only", "nan_feats": True, "filename_col": True},
         {"ensemble": True, "chunks": "small", "sleep": True}, 3),
        ("three-files-parquet", {"nfiles": 3, "n": (560, 700), "nan_feats": True, "fasta_args": {"clip_nterm_methionine": True}},
         {"fmt": "parquet", "rng_kind": "generator", "reuse": True, "chunks": "small", "sleep": True}, 2),
        # brew's default model (seeded by brew from its rng); match_decoy with two candidate targets per decoy peptide
        ("default-model", {"n": (1500, 1800), "sep": 3.5}, {"model": "default"}, 3),
        ("target-only-anagram", {"fasta_mode": "target-only-anagram"}, {}, 3),
        # the anagram peptides lie in proteins with two peptides: the key order of peptide_map depends on the hash seed
        ("target-only-anagram-multi", {"fasta_mode": "target-only-anagram-multi"}, {}, 3),
    ]
    for name, shape, opts, folds in wb:
        plan.append((name, shape, opts, folds, MATRIX_SMALL if name == "target-only-anagram-multi" else MATRIX_SMALL[:3]))
    if ctx.thorough:
        r2 = ctx.sub("c08-wb-random")
        for j in range(14):
            mode = r2.choice(["mirror", "mirror", "target-only"])
            shape = {"fasta_mode": mode, "filename_col": r2.random() < 0.5, "nfiles": r2.choice([1, 1, 2, 3]),
                     "nan_feats": r2.random() < 0.4, "levels": r2.choice([None, None, ["ModifiedPeptide"], ["Precursor", "PeptideGroup"]]),
                     "fasta_args": {"missed_cleavages": r2.choice([0, 0, 1, 2]), "clip_nterm_methionine": r2.random() < 0.3,
                                    "semi": r2.random() < 0.15}}
            if shape["nfiles"] > 1:
                shape["n"] = (600, 760)
            opts = {"chunks": r2.choice(["small", "small", None]), "sleep": True, "ensemble": r2.random() < 0.25,
                    "rng_kind": r2.choice(["int", "generator"]), "reuse": r2.random() < 0.5, "persist": r2.random() < 0.5,
                    "fmt": r2.choice(["tsv", "tsv", "parquet"]), "fasta_files": r2.choice([1, 2])}
            if shape["nfiles"] <= 2 and r2.random() < 0.4:
                opts["subset"] = r2.choice([0.5, 0.7])
                shape["n"] = (640, 800)
            plan.append(("random%d" % j, shape, opts, r2.choice([2, 3, 4, 10] if shape["nfiles"] == 1 else [2, 3]), MATRIX_SMALL))
    return plan


def gen(ctx):
    cases = []
    rng = ctx.sub("c08")
    for k, (name, shape, opts, folds, matrix) in enumerate(_plan(ctx, rng)):
        drng = ctx.sub("c08-data-%s" % name)
        files, fasta, fasta_args = _dataset(drng, k, shape)
        defaults = {"rng_kind": "int", "fmt": "tsv", "fasta_files": 1, "model": "percolator"}
        o = {kk: v for kk, v in opts.items() if kk not in ("chunks", "subset") and v is not None and v is not False
             and defaults.get(kk) != v}
        chunks = _small_chunks(drng) if opts.get("chunks") == "small" else {}
        if opts.get("subset"):
            # below the size of every training set, and each collection's share below that collection's training rows
            sizes = [len(f["data"]["Label"]) for f in files]
            per_file = int(min(sizes) * (folds - 1) / folds * opts["subset"])
            o["subset_max_train"] = per_file * len(files)
        base = {"fn": "history", "name": name, "files": files, "fasta": fasta, "fasta_args": fasta_args, "seed": drng.randint(1, 10 ** 6),
                "folds": folds, "train_fdr": 0.05, "test_fdr": 0.2, "opts": o, "chunks": chunks,
                "fasta_mode": shape.get("fasta_mode", "mirror"), "levels": list(shape.get("levels") or ())}
        wbtags = (["wb:" + kk + ("" if o[kk] is True else "=%s" % o[kk]) for kk in sorted(o) if kk not in ("model", "subset_max_train")]
                  + (["wb:subset_max_train"] if o.get("subset_max_train") else [])
                  + (["wb:model=default"] if o.get("model") == "default" else [])
                  + (["wb:small-chunks"] if chunks else [])
                  + ["wb:files=%d" % len(files), "wb:fasta=" + base["fasta_mode"]]
                  + (["wb:nan-features"] if shape.get("nan_feats") else [])
                  + (["wb:extra-levels"] if shape.get("levels") else [])
                  + ["wb:fasta-arg:%s" % a for a, v in sorted((shape.get("fasta_args") or {}).items()) if v]
                  + ["folds=%d" % folds])
        rnd = str(drng.randint(3, 4000000))
        for hs, w in matrix:
            c = dict(base)
            c.update({"hashseed": rnd if hs == "R" else hs, "workers": w,
                      "tags": ["history", "ds:" + name.rstrip("0123456789"), "hashseed=" + ("random" if hs == "R" else hs),
                               f"workers={w}"] + wbtags})
            cases.append(c)
    # the worker interpreters are independent: start them all now, 8 at a time
    from concurrent.futures import ThreadPoolExecutor
    pool = ThreadPoolExecutor(max_workers=8)
    for c in cases:
        _FUT[_ckey(c)] = pool.submit(_run_worker, c)
    pool.shutdown(wait=False)
    return cases


_FUT = {}


def _ckey(c):
    return lib.stable_hash({k: v for k, v in c.items() if k != "tags"})


_REF = {}
_NONTRIVIAL = {}


def _run_worker(c):
    d = tempfile.mkdtemp(prefix="c08case_", dir=os.environ.get("VERIF_TMP", "/tmp"))
    try:
        p = os.path.join(d, "case.json")
        with open(p, "w") as f:
            json.dump({k: v for k, v in c.items() if k != "tags"}, f)
        env = {k: v for k, v in os.environ.items() if not k.startswith("MOKAPOT_")}
        env["PYTHONHASHSEED"] = c["hashseed"]
        # the chunk sizes are read from the environment when mokapot is imported: this is the user's interface to them
        for name, v in (c.get("chunks") or {}).items():
            env[name] = str(v)
        r = subprocess.run([sys.executable, "-W", "ignore", "-m", "harness.c08_worker", p], env=env, cwd=str(lib.VERIF),
                           stdout=subprocess.PIPE, stderr=subprocess.PIPE, timeout=1800)
        for line in r.stdout.decode().splitlines():
            if line.startswith("C08RESULT "):
                return json.loads(line[len("C08RESULT "):])
        return {"crash": r.stderr.decode()[-400:]}
    finally:
        import shutil
        shutil.rmtree(d, ignore_errors=True)


def run_case(c):
    from ..c08_worker import diff_keys, observed
    fut = _FUT.pop(_ckey(c), None)
    res = fut.result() if fut is not None else _run_worker(c)
    # everything but the history (hash seed, worker count) identifies the analysis
    key = lib.stable_hash({k: v for k, v in c.items() if k not in ("tags", "hashseed", "workers")})
    # every generated configuration is a valid one: the analysis runs through and writes all its result files ("yields ...
    # result files (PSM, peptide and protein level)"); a failure that is the same in every run is not "reproducible", it
    # is a configuration without results
    model = {"ran_through": True, "run2_equal": True, "perms_ok": True, "same_as_reference": True}
    if "crash" in res:
        return ("ok", model), ("err", "worker crashed: " + res["crash"])
    ref = _REF.setdefault(key, res["run1"])
    impl = {"run2_equal": bool(res["run2_equal"]),
            "perms_ok": all(p["scores_equal"] and p["folds_equal"] and not p["error"] for p in res["perms"]),
            "same_as_reference": observed(res["run1"]) == observed(ref),
            "n_perms": len(res["perms"]), "error": res["run1"].get("error"), "conf_error": res["run1"].get("conf_error"),
            "conf_tied_error": res["run1"].get("conf_tied_error"),
            "all_trained": all(res["run1"].get("trained") or [False]),
            # groups (protein pairs) whose best score is shared by two or more peptides, untied / rounded scores
            "protein_ties": sum(x for x in res["run1"].get("_tie_groups") or [] if x > 0),
            "protein_ties_rounded": sum(x for x in res["run1"].get("_tie_groups_tied") or [] if x > 0),
            "protein_ties_coarse": sum(x for x in res["run1"].get("_tie_groups_coarse") or [] if x > 0),
            "conf_coarse_error": res["run1"].get("conf_coarse_error"),
            "chunk_env_applied": all(int(v) in res.get("chunk_constants", {}).values() for v in (c.get("chunks") or {}).values())}
    want_files = (6 + 2 * len(c.get("levels") or ())) * len(c["files"])
    impl["ran_through"] = bool(impl["all_trained"] and not impl["error"] and not impl["conf_error"] and not impl["conf_tied_error"]
                               and not impl["conf_coarse_error"]
                               and len(res["run1"].get("files") or {}) == want_files
                               and len(res["run1"].get("files_tied") or {}) == want_files
                               and len(res["run1"].get("files_coarse") or {}) == want_files
                               and impl["n_perms"] > 0)
    _NONTRIVIAL[_ckey(c)] = bool(impl["ran_through"] and impl["protein_ties"] > 0 and impl["chunk_env_applied"])
    if not impl["same_as_reference"]:
        impl["diff_keys"] = diff_keys(ref, res["run1"])
    if not impl["run2_equal"]:
        impl["run2_diff"] = res.get("run2_diff")
    if not impl["perms_ok"]:
        impl["bad_perms"] = [p for p in res["perms"] if not (p["scores_equal"] and p["folds_equal"] and not p["error"])][:3]
    return ("ok", model), ("ok", impl)


def same(c, m, i):
    return i[0] == "ok" and all(i[1][k] == m[1][k] for k in ("ran_through", "run2_equal", "perms_ok", "same_as_reference"))


def nontrivial(c):
    """the analysis ran through (models trained on every fold, confidence written) — recorded by run_case"""
    return _NONTRIVIAL.get(_ckey(c), False)


def oracle(c, i):
    if i[0] != "ok":
        return str(i[1])
    o = i[1]
    if not o["ran_through"]:
        return ("the analysis of a valid configuration did not run through (no complete set of result files to compare): "
                f"{[o.get(k) for k in ('error', 'conf_error', 'conf_tied_error', 'conf_coarse_error') if o.get(k)] or 'files missing / a fold not trained / no feed-back run'}")
    if not o["run2_equal"]:
        return f"repeating the analysis in the same process gives different results: {o.get('run2_diff')}"
    if not o["perms_ok"]:
        return f"feeding the returned models back in another order does not reproduce the scores: {o.get('bad_perms')}"
    if not o["same_as_reference"]:
        return (f"results differ between interpreter sessions (PYTHONHASHSEED={c['hashseed']}, workers={c['workers']}): "
                f"{o.get('diff_keys')}")
    return None
