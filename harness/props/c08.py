"""C08 — determinism with a fixed seed: the same analysis in fresh interpreters with different hash seeds,
repeated in one process, with different worker counts, and with the returned models fed back in
every order.  The order-independence theorems are in Props/C08.v; this module is the history check."""
import json
import os
import subprocess
import sys
import tempfile

from .. import lib, brewlib
from . import c15

PROP = "C08"
RULE = ("per dataset (PSM table whose peptides come from a generated FASTA with subset / shared-peptide structures, fragments contained in two non-nested proteins, and "
        "decoys): the full analysis read_pin -> read_fasta -> brew (real PercolatorModel, fixed seed) -> assign_confidence "
        "with proteins is run in fresh interpreters under PYTHONHASHSEED in {0, 1, 2, random} x max_workers in {1, 4}, "
        "half of the datasets carry a string-valued filename column in the spectrum key; twice in each process, and the returned models are fed back in every permutation (k! for k<=4 folds; reversed, rotated and two random orders for 10 folds). Compared "
        "bit for bit (float.hex / sha256): fold numbers, model coefficients, scores, descs, every result file (PSM, "
        "peptide, protein level), read_fasta maps. The confidence stage is run a second time with the scores rounded to one "
        "decimal (exact ties at every level, inside proteins and target/decoy protein pairs), and the interpreter-global numpy / "
        "random state is set differently before the two runs of a process. distinct = (dataset, hash seed, workers); "
        "non-trivial = the analysis ran through (every fold trained, all six result files written)")
ASSUMPTIONS = [
    "bit-reproducibility of numpy Generators, liblinear and BLAS across processes is runtime: observed, not proved",
    "shared_peptides VALUES ('; '.join(set)) differ between hash seeds by design; only the key set is compared and used downstream",
    "PEP estimation replaced by a deterministic constant",
]
TRUSTED_EXTRA = ["subprocess isolation; PYTHONHASHSEED handling of CPython"]


def gen(ctx):
    cases = []
    rng = ctx.sub("c08")
    nds = 6 if ctx.thorough else 2
    for k in range(nds):
        fasta, tp, dp = c15.gen_fasta(rng, "mirror", wide=True, trios=3)
        fc = {"fn": "picked", "fasta": fasta, "fasta_args": dict(c15.FASTA_ARGS), "rows": [], "seed": 1, "ties": False}
        P = c15._proteins(fc)
        allp = list(P.peptide_map.items()) + list(P.shared_peptides.items())
        tpeps = sorted(p for p, g in allp if not g.startswith("decoy_"))
        dpeps = sorted(p for p, g in allp if g.startswith("decoy_"))
        # exact score ties inside a protein / inside a target-decoy protein pair: twin PSMs with identical feature
        # values on two different peptides of the same pair, which occur in no other PSM, so that the picked-protein
        # step has to break the tie (with the seeded generator, never with interpreter-global state)
        pkey = lambda gname: P.protein_map.get(gname.split(",")[0].strip(), gname.split(",")[0].strip())
        bykey = {}
        for pep, gname in sorted(P.peptide_map.items()):
            bykey.setdefault(pkey(gname), []).append((pep, not gname.startswith("decoy_")))
        pairs = []
        for key in sorted(bykey):
            if len(bykey[key]) >= 2 and len(pairs) < 6 and rng.random() < 0.5:
                pairs.append(rng.sample(bykey[key], 2))
        reserved = {pep for pr in pairs for pep, _ in pr}
        tpool = [p_ for p_ in tpeps if p_ not in reserved] or tpeps
        dpool = [p_ for p_ in dpeps if p_ not in reserved] or dpeps
        n = rng.randint(360, 520)
        rows = []
        for i in range(n):
            tgt = rng.random() < 0.6
            pep = rng.choice(tpool if tgt else dpool)
            good = tgt and rng.random() < 0.75
            rows.append((tgt, pep, good))
        twins = {}
        for j, pr in enumerate(pairs):
            for pep, tgt in pr:
                twins[len(rows)] = 0.5 + 0.375 * j
                rows.append((tgt, pep, False))
        n = len(rows)
        cols = {"SpecId": ["psm%d" % i for i in range(n)], "Label": [1 if r[0] else -1 for r in rows],
                "ScanNr": [rng.randint(1, n // 2) for _ in range(n)], "ExpMass": [500 + rng.randint(0, 5) * 0.25 for _ in range(n)],
                # two equally informative features: the learned combination beats the best single feature on every fold
                "feat0": [round(rng.gauss(2.5 if r[2] else 0.0, 1.0), 4) for r in rows],
                "feat1": [round(rng.gauss(2.5 if r[2] else 0.0, 1.0), 4) for r in rows],
                "feat2": [round(rng.random(), 4) for _ in range(n)],
                "Peptide": ["K." + r[1] + ".A" for r in rows], "Proteins": ["x"] * n}
        for i, v in twins.items():
            cols["ScanNr"][i] = n + i
            cols["feat0"][i], cols["feat1"][i], cols["feat2"][i] = v, 0.5, 0.5
        if k % 2 == 0:
            # a string-valued spectrum column: the spectrum key (filename, ScanNr) then contains a string, so that a
            # hash-seed dependent treatment of it (fold assignment) shows up between interpreter sessions
            cols = {"SpecId": cols["SpecId"], "Label": cols["Label"], "ScanNr": cols["ScanNr"],
                    "filename": [rng.choice(["runA.mzML", "runB.mzML", "runC.mzML"]) for _ in range(n)],
                    **{kk: v for kk, v in cols.items() if kk not in ("SpecId", "Label", "ScanNr")}}
        files = [{"columns": list(cols.keys()), "data": cols}]
        base = {"fn": "history", "files": files, "fasta": fasta, "fasta_args": dict(c15.FASTA_ARGS), "seed": rng.randint(1, 10 ** 6),
                "folds": rng.choice([2, 3, 3, 4]) if k % 3 else 10, "train_fdr": 0.05, "test_fdr": 0.2}
        for hs in ["0", "1", "2", str(rng.randint(3, 4000000))]:
            for w in (1, 4):
                c = dict(base)
                c.update({"hashseed": hs, "workers": w, "tags": ["history", "hashseed=" + ("random" if int(hs) > 2 else hs), f"workers={w}"]})
                cases.append(c)
    # the worker interpreters are independent: start them all now, 8 at a time
    from concurrent.futures import ThreadPoolExecutor
    pool = ThreadPoolExecutor(max_workers=8)
    for c in cases:
        _FUT[_ckey(c)] = pool.submit(_run_worker, c)
    pool.shutdown(wait=False)
    return cases


_FUT = {}


def _ckey(c):
    return lib.stable_hash({k: v for k, v in c.items() if k != "tags"})


_REF = {}
_NONTRIVIAL = {}


def _run_worker(c):
    d = tempfile.mkdtemp(prefix="c08case_", dir=os.environ.get("VERIF_TMP", "/tmp"))
    try:
        p = os.path.join(d, "case.json")
        with open(p, "w") as f:
            json.dump({k: v for k, v in c.items() if k != "tags"}, f)
        env = dict(os.environ)
        env["PYTHONHASHSEED"] = c["hashseed"]
        r = subprocess.run([sys.executable, "-W", "ignore", "-m", "harness.c08_worker", p], env=env, cwd=str(lib.VERIF),
                           stdout=subprocess.PIPE, stderr=subprocess.PIPE, timeout=1200)
        for line in r.stdout.decode().splitlines():
            if line.startswith("C08RESULT "):
                return json.loads(line[len("C08RESULT "):])
        return {"crash": r.stderr.decode()[-400:]}
    finally:
        import shutil
        shutil.rmtree(d, ignore_errors=True)


def run_case(c):
    fut = _FUT.pop(_ckey(c), None)
    res = fut.result() if fut is not None else _run_worker(c)
    key = lib.stable_hash({"files": c["files"], "fasta": c["fasta"], "seed": c["seed"], "folds": c["folds"]})
    model = {"run2_equal": True, "perms_ok": True, "same_as_reference": True}
    if "crash" in res:
        return ("ok", model), ("err", "worker crashed: " + res["crash"])
    ref = _REF.setdefault(key, res["run1"])
    impl = {"run2_equal": bool(res["run2_equal"]),
            "perms_ok": all(p["scores_equal"] and not p["error"] for p in res["perms"]),
            "same_as_reference": res["run1"] == ref,
            "n_perms": len(res["perms"]), "error": res["run1"].get("error"), "conf_error": res["run1"].get("conf_error"),
            "all_trained": all(res["run1"].get("trained") or [False])}
    _NONTRIVIAL[_ckey(c)] = bool(impl["all_trained"] and not impl["error"] and not impl["conf_error"] and res["run1"].get("files"))
    if not impl["same_as_reference"]:
        impl["diff_keys"] = [k for k in set(ref) | set(res["run1"]) if ref.get(k) != res["run1"].get(k)]
    return ("ok", model), ("ok", impl)


def same(c, m, i):
    return i[0] == "ok" and all(i[1][k] == m[1][k] for k in ("run2_equal", "perms_ok", "same_as_reference"))


def nontrivial(c):
    """the analysis ran through (models trained on every fold, confidence written) — recorded by run_case"""
    return _NONTRIVIAL.get(_ckey(c), False)


def oracle(c, i):
    if i[0] != "ok":
        return str(i[1])
    o = i[1]
    if not o["run2_equal"]:
        return "repeating the analysis in the same process gives different results"
    if not o["perms_ok"]:
        return "feeding the returned models back in another order does not reproduce the scores"
    if not o["same_as_reference"]:
        return (f"results differ between interpreter sessions (PYTHONHASHSEED={c['hashseed']}, workers={c['workers']}): "
                f"{o.get('diff_keys')}")
    return None


def finding_key(c, m, i):
    return None
