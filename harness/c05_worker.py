"""Worker for C05: runs ONE configuration of the pipeline (harness/props/c05.py: _run) in THIS interpreter, whose
MOKAPOT_* chunk-size variables and PYTHONHASHSEED the parent chose — mokapot reads the variables when it is imported,
so only a fresh interpreter exercises the way a user sets them.  Prints one line `C05OBS <json>`."""
import json
import logging
import sys


def main(path):
    logging.disable(logging.CRITICAL)
    import warnings
    warnings.filterwarnings("ignore")
    from harness.props import c05
    cfg = json.load(open(path))
    obs = c05._run(cfg)
    sys.stdout.write("C05OBS " + json.dumps(obs, default=lambda o: o.item() if hasattr(o, "item") else repr(o)) + "\n")
    sys.stdout.flush()


if __name__ == "__main__":
    main(sys.argv[1])
