"""Generic check runner: proof stage + correspondence stage + violation protocol."""
import collections
import importlib
import json
import os
import sys
import time
import traceback

from . import lib
from .lib import Toks, ModelError


def _impl(mod, case):
    try:
        return mod.impl(case)
    except BaseException as e:  # noqa
        if isinstance(e, (KeyboardInterrupt, SystemExit, MemoryError)):
            raise
        return ("crash", f"{type(e).__name__}: {e}"[:300])


def _run_case(mod, case, built=True):
    if not built:
        return ("model-error", "build failed"), ("skipped", "")
    try:
        return mod.run_case(case)
    except ModelError as e:
        return ("model-error", str(e)[:300]), ("unknown", "")
    except BaseException as e:  # noqa
        if isinstance(e, (KeyboardInterrupt, SystemExit, MemoryError)):
            raise
        return ("harness", ""), ("crash", f"{type(e).__name__}: {e}"[:300] + " | " + traceback.format_exc()[-600:])


def _model_batch(mod, cases):
    lines = [mod.encode(c) for c in cases]
    outs = lib.run_driver(lines)
    res = []
    for c, o in zip(cases, outs):
        try:
            t = Toks(o)
            res.append(mod.decode(c, t))
        except ModelError as e:
            res.append(("model-error", str(e)[:200]))
    return res


def _same(mod, c, m, i):
    f = getattr(mod, "same", None)
    if f:
        try:
            return bool(f(c, m, i))
        except Exception:
            return False
    return lib.jsonable(m) == lib.jsonable(i)


def _oracle(mod, c, i):
    f = getattr(mod, "oracle", None)
    if not f:
        return None
    try:
        return f(c, i)
    except Exception as e:  # an oracle that cannot evaluate finds nothing
        return None


def _shrink(mod, case, still_bad, budget=400):
    f = getattr(mod, "shrink", None)
    if not f:
        return case
    cur = case
    n = 0
    improved = True
    while improved and n < budget:
        improved = False
        for cand in f(cur):
            n += 1
            if n >= budget:
                break
            try:
                if still_bad(cand):
                    cur = cand
                    improved = True
                    break
            except Exception:
                continue
    return cur


def run(prop, tier, seed, replay=None):
    import logging
    logging.disable(logging.CRITICAL)
    mod = importlib.import_module(f"harness.props.{prop.lower()}")
    ctx = lib.Ctx(prop, tier, seed)
    known = [k for k in lib.load_known() if k.get("property") == prop]
    known_keys = {k["key"]: k for k in known if k.get("kind") == "known"}

    # ---- stage 1: proofs
    proof = lib.proof_stage(prop, thorough=(tier == "thorough"))

    # ---- stage 2: correspondence
    if replay:
        rp = json.loads(open(replay).read())
        cases = [rp["case"]] if "case" in rp else []
    else:
        cases = []
        cdir = lib.CORPUS / prop
        if cdir.is_dir():
            for f in sorted(cdir.glob("*.json")):
                c = json.loads(f.read_text())
                c.setdefault("tags", []).append("corpus")
                cases.append(c)
        cases.extend(mod.gen(ctx))

    # ---- textual half of the source tie: which anchored functions are not the text the model was written against
    try:
        from . import anchors
        tie = anchors.compare(prop)
    except Exception as e:           # the sentinel must not decide anything by crashing
        tie = {"changed": [], "note": f"not compared: {type(e).__name__}: {e}"[:200]}
    if tie.get("changed") and not replay and os.environ.get("VERIF_NO_ESCALATE") != "1":
        # the code moved under this property: a second batch under an independent seed
        n0 = len(cases)
        try:
            for c in mod.gen(lib.Ctx(prop, tier, seed + 7919)):
                c.setdefault("tags", []).append("escalated")
                cases.append(c)
        except Exception as e:
            tie["escalation_failed"] = f"{type(e).__name__}: {e}"[:200]
        tie["escalated_cases"] = len(cases) - n0

    model_problem = None
    if hasattr(mod, "run_case"):
        # per-case pipeline: the module runs implementation and model itself (the model's
        # inputs depend on oracle values recorded from the implementation run)
        mres, ires = [], []
        for c in cases:
            m, i = _run_case(mod, c, proof["build_rc"] == 0)
            mres.append(m)
            ires.append(i)
    else:
        try:
            mres = _model_batch(mod, cases) if proof["build_rc"] == 0 else [("model-error", "build failed")] * len(cases)
        except Exception as e:
            model_problem = f"{type(e).__name__}: {e}"[:500]
            mres = [("model-error", model_problem)] * len(cases)
        ires = [_impl(mod, c) for c in cases]

    if (tier == "thorough" or os.environ.get("VERIF_VMCHECK")) and proof["build_rc"] == 0 and not replay:
        try:
            from . import vmcheck
            vinfo, vprobs = vmcheck.run(prop, seed=seed)
            proof["vmcheck"] = vinfo
            proof["problems"].extend(vprobs)
        except Exception as e:       # the cross-check itself must not decide anything by crashing
            proof["vmcheck"] = {"crashed": f"{type(e).__name__}: {e}"[:300]}

    extra_fail = []
    extra = getattr(mod, "extra_checks", None)
    extra_info = {}
    if extra and not replay:
        try:
            extra_fail, extra_info = extra(ctx)
        except Exception as e:
            extra_fail = [{"what": f"extra_checks crashed: {type(e).__name__}: {e}", "trace": traceback.format_exc()[-800:]}]

    diffs = []
    hist = collections.Counter()
    seen = set()
    nontriv = set()
    for c, m, i in zip(cases, mres, ires):
        for t in c.get("tags", []):
            hist[t] += 1
        h = lib.stable_hash({k: v for k, v in c.items() if k != "tags"})
        seen.add(h)
        try:
            if mod.nontrivial(c):
                nontriv.add(h)
        except Exception:
            pass
        if not _same(mod, c, m, i):
            diffs.append((c, m, i))

    # ---- known findings
    fk = getattr(mod, "finding_key", None)
    unknown = []
    known_hit = collections.OrderedDict()
    for c, m, i in diffs:
        key = None
        if fk:
            try:
                key = fk(c, m, i)
            except Exception:
                key = None
        if key is not None and key in known_keys:
            known_hit.setdefault(key, (c, m, i))
        else:
            unknown.append((c, m, i))
    for key, (c, m, i) in known_hit.items():
        print(f"KNOWN-FINDING: property={prop} {known_keys[key]['what']}")
    unknown_extra = []
    for f in extra_fail:
        key = f.get("key")
        if key is not None and key in known_keys:
            if key not in known_hit:
                print(f"KNOWN-FINDING: property={prop} {known_keys[key]['what']}")
                known_hit[key] = None
        else:
            unknown_extra.append(f)

    violations = []
    # ---- stage 3: violation protocol
    if proof["problems"] or unknown or unknown_extra or model_problem:
        failing = None
        # (a) disagreeing cases, shrunk
        for c, m, i in unknown[:20]:
            def bad(cc):
                if hasattr(mod, "run_case"):
                    mm, ii = _run_case(mod, cc)
                else:
                    mm = _model_batch(mod, [cc])[0]
                    ii = _impl(mod, cc)
                if _same(mod, cc, mm, ii):
                    return False
                if fk and fk(cc, mm, ii) in known_keys:
                    return False
                return True
            cs = _shrink(mod, c, bad)
            if hasattr(mod, "run_case"):
                mm, ii = _run_case(mod, cs)
            else:
                ii = _impl(mod, cs)
                mm = None
            msg = _oracle(mod, cs, ii)
            if msg:
                if mm is None:
                    mm = _model_batch(mod, [cs])[0]
                failing = {"case": cs, "impl": ii, "model": mm, "property_failure": msg}
                break
        # (b) the whole batch
        if failing is None:
            for c, i in zip(cases, ires):
                msg = _oracle(mod, c, i)
                if msg:
                    key = None
                    if fk:
                        try:
                            key = fk(c, None, i)
                        except Exception:
                            key = None
                    if key in known_keys:
                        continue
                    failing = {"case": c, "impl": i, "property_failure": msg}
                    break
        # (c) extra checks may carry their own failing input
        if failing is None:
            for f in unknown_extra:
                if f.get("failing_input") is not None:
                    failing = {"case": f.get("failing_input"), "property_failure": f.get("what")}
                    break
        # (d) wider search (thorough)
        wider = getattr(mod, "search", None)
        if failing is None and wider:
            try:
                failing = wider(ctx)
            except Exception:
                failing = None
        payload = {
            "property": prop, "tier": tier, "seed": seed,
            "proof_problems": proof["problems"],
            "model_problem": model_problem,
            "n_disagreements": len(unknown),
            "first_disagreements": [{"case": c, "model": m, "impl": i} for c, m, i in unknown[:3]],
            "extra_failures": unknown_extra[:5],
            "how_to_replay": f"cd /verif && ./check {prop} --replay <this file>",
        }
        if failing:
            payload.update(failing)
            payload["kind"] = "failing-input"
            path = lib.write_replay(prop, payload)
            print(f"VIOLATION property={prop} replay={path}")
        else:
            if unknown:
                payload["case"] = unknown[0][0]
            payload["kind"] = "no-failing-input-found"
            payload["no_longer_checks"] = (
                [f"theorem/proof stage: {p}" for p in proof["problems"]]
                + ([f"correspondence {prop}: model and implementation disagree on {len(unknown)} cases"] if unknown else [])
                + [f"correspondence {prop}: {f.get('what')}" for f in unknown_extra[:5]]
                + ([f"model execution: {model_problem}"] if model_problem else []))
            path = lib.write_replay(prop, payload)
            print(f"VIOLATION property={prop} replay={path} no-failing-input-found")
        violations.append(str(path))

    # ---- evidence
    samples = [{"case": c, "model": m, "impl": i} for c, m, i in list(zip(cases, mres, ires))[:: max(1, len(cases) // 4)][:5]]
    cov = {
        "evaluations": len(cases),
        "distinct": len(seen),
        "distinct_nontrivial": len(nontriv),
        "rule": getattr(mod, "RULE", ""),
        "traces_validated_against_impl": len(cases) - len(diffs),
        "disagreements": len(diffs),
        "known_findings_seen": list(known_hit.keys()),
        "input_distribution": dict(hist),
        "samples": samples,
        "trusted_base_extra": getattr(mod, "TRUSTED_EXTRA", []),
    }
    cov.update(extra_info)
    cov["source_text_tie"] = tie
    lib.write_evidence(ctx, proof, cov, getattr(mod, "ASSUMPTIONS", []), len(violations))
    if replay and not violations:
        print(f"replay {replay}: no longer fails")
    return 1 if violations else 0


def main(argv):
    import argparse
    ap = argparse.ArgumentParser()
    ap.add_argument("prop")
    ap.add_argument("--tier", default=os.environ.get("VERIF_TIER", "quick"))
    ap.add_argument("--replay")
    a = ap.parse_args(argv)
    seed = int(os.environ.get("VERIF_SEED", "20260930"))
    try:
        rc = run(a.prop.upper(), a.tier, seed, a.replay)
    except Exception:
        # a crash of the harness itself is not a verdict about the property
        traceback.print_exc()
        sys.stdout.flush()
        return 2
    sys.stdout.flush()
    return rc


if __name__ == "__main__":
    sys.exit(main(sys.argv[1:]))
