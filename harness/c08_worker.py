"""Worker for C08: runs one full analysis (read_pin -> read_fasta -> brew -> assign_confidence with
proteins) in THIS interpreter (whose PYTHONHASHSEED and MOKAPOT_* chunk-size environment the parent chose),
twice, then feeds the models back in every permutation; prints a JSON summary with bit-exact fingerprints.

Options of a case (`opts`, all optional; the defaults are the analysis of the first version of this check):
  fmt            "tsv" | "parquet"     format of the PSM tables
  fasta_files    1 | 2                 the FASTA text is handed to read_fasta as one file or as a tuple of two
  model          "percolator" (PercolatorModel with the case's seed) | "default" (brew(model=None): brew builds the model and seeds it from its rng)
  rng_kind       "int" | "generator"   the fixed seed is passed as an int or as a freshly seeded numpy Generator
  subset_max_train, ensemble           passed to brew
  sleep          bool                  worker functions of mokapot get short random delays (thread completion order
                                       differs from run to run and between interpreters) when max_workers > 1
  reuse          bool                  run 2 re-uses the (untrained) model OBJECT of run 1 and writes into the
                                       result directory of run 1 (which still holds the files of run 1)
  persist        bool                  one more feed-back run with the models saved to files and loaded again
                                       (what the command line does with --load_models), in reversed order
"""
import hashlib
import itertools
import json
import logging
import os
import shutil
import sys
import tempfile
import zlib
from pathlib import Path


def _hex(a):
    import numpy as np
    return [float(v).hex() for v in np.asarray(a, dtype=float).ravel()]


class _NoSleep:
    def __enter__(self):
        return self

    def __exit__(self, *a):
        return False


def main(path):
    logging.disable(logging.CRITICAL)
    import warnings
    warnings.filterwarnings("ignore")
    import numpy as np
    import pandas as pd
    import mokapot
    import mokapot.confidence as mconf
    case = json.load(open(path))
    opts = case.get("opts") or {}
    d = Path(tempfile.mkdtemp(prefix="c08_", dir=os.environ.get("VERIF_TMP", "/tmp")))
    out = {"hashseed": os.environ.get("PYTHONHASHSEED")}
    # the chunk constants the interpreter really runs with (they come from the MOKAPOT_* environment)
    import mokapot.constants as mconst
    out["chunk_constants"] = {k: int(getattr(mconst, k)) for k in dir(mconst) if k.isupper()}
    try:
        paths = []
        for i, f in enumerate(case["files"]):
            df = pd.DataFrame(f["data"], columns=f["columns"])
            if opts.get("fmt") == "parquet":
                p = d / ("file%d.parquet" % i)
                df.to_parquet(p, index=False)
            else:
                p = d / ("file%d.pin" % i)
                df.to_csv(p, sep="\t", index=False)
            paths.append(p)
        if opts.get("fasta_files", 1) == 2:
            entries = case["fasta"].split("\n>")
            cut = max(1, len(entries) // 2)
            fa, fb = d / "db_a.fasta", d / "db_b.fasta"
            fa.write_text("\n>".join(entries[:cut]) + "\n")
            fb.write_text(">" + "\n>".join(entries[cut:]))
            fasta = (fa, fb)
        else:
            fasta = d / "db.fasta"
            fasta.write_text(case["fasta"])
        # PEPs are outside this property and the spline fit refuses tiny tables: deterministic stub
        mconf.peps_from_scores = lambda scores, targets, *a, **k: np.zeros(len(scores))

        def errtext(e):
            # the scratch directory has another name in every run, its sub-directories carry the name of the run
            # (run1 / run2): not part of the observation - a failure that is the same in every run must compare equal
            import re
            text = re.sub(r"\b(out|tied|coarse)_(run1|run2|perm)\b", r"\1_<run>", str(e).replace(str(d), "<tmp>"))
            return type(e).__name__ + ": " + text[:160]

        def fixed_seed():
            """the user's fixed seed, in the form the case chose; a Generator is made afresh for every use,
            as a user does who writes default_rng(seed) in his script"""
            if opts.get("rng_kind") == "generator":
                return np.random.default_rng(case["seed"])
            return case["seed"]

        def new_model():
            if opts.get("model") == "default":
                return None
            return mokapot.PercolatorModel(train_fdr=case["train_fdr"], max_iter=3, rng=fixed_seed())

        def sleeps(tag):
            if opts.get("sleep") and case["workers"] > 1:
                from harness import brewlib
                s = zlib.crc32(("%s|%s|%s" % (os.environ.get("PYTHONHASHSEED"), case["seed"], tag)).encode())
                return brewlib.Sleeps(s)
            return _NoSleep()

        # coverage only: how many groups of a groupby_max call have their maximum on two or more rows (a tie that the
        # seeded shuffle has to break); the call itself goes through unchanged
        import mokapot.utils as mutils
        real_groupby_max = mutils.groupby_max
        tie_log = []

        def counting_groupby_max(df, by_cols, max_col, rng):
            try:
                by = list(mutils.tuplize(by_cols))
                top = df.groupby(by)[max_col].transform("max")
                tie_log.append(int(((df[max_col] == top).groupby([df[b] for b in by]).sum() > 1).sum()))
            except Exception:
                tie_log.append(-1)
            return real_groupby_max(df, by_cols, max_col, rng)

        mutils.groupby_max = counting_groupby_max
        mconf.groupby_max = counting_groupby_max

        prefixes = [None] * len(paths) if len(paths) == 1 else ["c%d" % i for i in range(len(paths))]
        shared = {"model": new_model() if opts.get("reuse") else None}

        def analysis(tag, models=None, outdir=None):
            res = {}
            with sleeps(tag):
                dss = mokapot.read_pin(paths, max_workers=case["workers"])
                res["features"] = [list(x.feature_columns) for x in dss]
                P = mokapot.read_fasta(fasta, **case["fasta_args"])
                res["peptide_map"] = sorted(P.peptide_map.items())
                res["shared_keys"] = sorted(P.shared_peptides.keys())
                res["protein_map"] = sorted(P.protein_map.items())
                res["has_decoys"] = bool(P.has_decoys)
                try:
                    if models is not None:
                        model = models
                    elif opts.get("reuse"):
                        model = shared["model"]
                    else:
                        model = new_model()
                    _, ms, scores, descs = mokapot.brew(dss, model, test_fdr=case["test_fdr"], folds=case["folds"],
                                                        max_workers=case["workers"], rng=fixed_seed(),
                                                        subset_max_train=opts.get("subset_max_train"),
                                                        ensemble=bool(opts.get("ensemble")))
                except Exception as e:
                    res["error"] = errtext(e)
                    return res, None
                res["scores"] = [_hex(s) for s in scores]
                res["descs"] = [bool(x) for x in descs]
                res["folds"] = [m.fold for m in ms]
                res["trained"] = [bool(m.is_trained) for m in ms]
                res["coef"] = [(_hex(m.estimator.coef_) + _hex(m.estimator.intercept_)) if hasattr(m.estimator, "coef_") else None
                               for m in ms]
                res["best_feat"] = [str(m.best_feat) if isinstance(m.best_feat, str) else None for m in ms]
                res["feat_pass"] = [None if m.feat_pass is None else int(m.feat_pass) for m in ms]
                res["model_desc"] = [None if m.desc is None else bool(m.desc) for m in ms]
                if models is None:
                    o = outdir or (d / ("out_" + tag))
                    o.mkdir(exist_ok=True)
                    del tie_log[:]
                    try:
                        mokapot.assign_confidence(dss, max_workers=case["workers"], scores=list(scores), descs=list(descs),
                                                  eval_fdr=0.5, dest_dir=o, prefixes=prefixes, decoys=True,
                                                  proteins=P, rng=fixed_seed())
                        res["files"] = {fn: hashlib.sha256((o / fn).read_bytes()).hexdigest() for fn in sorted(os.listdir(o))}
                    except Exception as e:
                        res["conf_error"] = errtext(e)
                    res["_tie_groups"] = list(tie_log)
                    del tie_log[:]
                    # the same with coarse scores (one decimal): exact ties at every level, inside proteins and inside
                    # target/decoy protein pairs, so that every tie-break of the confidence stage is exercised
                    o2 = d / ("tied_" + tag)
                    o2.mkdir()
                    try:
                        mokapot.assign_confidence(dss, max_workers=case["workers"], scores=[np.round(s, 1) for s in scores],
                                                  descs=list(descs), eval_fdr=0.5, dest_dir=o2, prefixes=prefixes,
                                                  decoys=True, proteins=P,
                                                  rng=fixed_seed())
                        res["files_tied"] = {fn: hashlib.sha256((o2 / fn).read_bytes()).hexdigest() for fn in sorted(os.listdir(o2))}
                    except Exception as e:
                        res["conf_tied_error"] = errtext(e)
                    res["_tie_groups_tied"] = list(tie_log)
                    # and with scores rounded to integers: a handful of distinct values, so that the best score of most
                    # protein pairs is shared by several peptides
                    del tie_log[:]
                    o3 = d / ("coarse_" + tag)
                    o3.mkdir()
                    try:
                        mokapot.assign_confidence(dss, max_workers=case["workers"], scores=[np.round(s, 0) for s in scores],
                                                  descs=list(descs), eval_fdr=0.5, dest_dir=o3, prefixes=prefixes,
                                                  decoys=True, proteins=P,
                                                  rng=fixed_seed())
                        res["files_coarse"] = {fn: hashlib.sha256((o3 / fn).read_bytes()).hexdigest() for fn in sorted(os.listdir(o3))}
                    except Exception as e:
                        res["conf_coarse_error"] = errtext(e)
                    res["_tie_groups_coarse"] = list(tie_log)
            return res, ms

        # interpreter-global generator state is not part of the analysis: it differs between the two runs (and
        # between worker interpreters), as it does between any two sessions of a user
        import random as _random
        g0 = int(os.environ.get("PYTHONHASHSEED") or 0) % 1000003
        np.random.seed(g0 + 1)
        _random.seed(g0 + 1)
        r1, ms = analysis("run1")
        out["run1"] = r1
        np.random.seed(g0 + 77)
        _random.seed(g0 + 77)
        r2, _ = analysis("run2", outdir=(d / "out_run1") if opts.get("reuse") else None)
        out["run2_equal"] = (observed(r1) == observed(r2))
        if not out["run2_equal"]:
            out["run2_diff"] = diff_keys(r1, r2)
        out["perms"] = []
        if ms is not None and all(m.is_trained for m in ms):
            k = len(ms)
            if k <= 4:
                perms = list(itertools.permutations(range(k)))
            else:
                import random
                r = random.Random(case["seed"])
                perms = [tuple(reversed(range(k))), tuple(list(range(1, k)) + [0])]
                for _ in range(2):
                    p_ = list(range(k))
                    r.shuffle(p_)
                    perms.append(tuple(p_))

            def fed_back(label, given):
                rp, _ = analysis("perm", models=given)
                out["perms"].append({"perm": label, "error": rp.get("error"),
                                     "scores_equal": rp.get("scores") == r1.get("scores") and rp.get("descs") == r1.get("descs"),
                                     "folds_equal": rp.get("folds") == r1.get("folds")})

            for j, perm in enumerate(perms):
                given = [ms[i] for i in perm]
                # brew takes any sequence of models: lists and tuples alternate
                fed_back(list(perm), given if j % 2 == 0 else tuple(given))
            if opts.get("persist"):
                # the models written to files and loaded again, handed over in reversed order
                loaded = []
                for i, m in enumerate(ms):
                    mp = d / ("model_%d.pkl" % i)
                    m.save(mp)
                    loaded.append(mokapot.load_model(mp))
                fed_back("loaded-from-files-reversed", loaded[::-1])
    finally:
        shutil.rmtree(d, ignore_errors=True)
    print("C08RESULT " + json.dumps(out))


def observed(r):
    """the observations of a run; keys with a leading underscore are coverage counters of the harness"""
    return {k: v for k, v in r.items() if not k.startswith("_")}


def diff_keys(a, b):
    """names of the observations that differ; result files are named one by one"""
    a, b = observed(a), observed(b)
    outk = []
    for k in sorted(set(a) | set(b)):
        if a.get(k) == b.get(k):
            continue
        if isinstance(a.get(k), dict) and isinstance(b.get(k), dict):
            for fn in sorted(set(a[k]) | set(b[k])):
                if a[k].get(fn) != b[k].get(fn):
                    outk.append(k + ":" + fn)
        else:
            outk.append(k)
    return outk


if __name__ == "__main__":
    main(sys.argv[1])
