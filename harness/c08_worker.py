"""Worker for C08: runs one full analysis (read_pin -> read_fasta -> brew -> assign_confidence with
proteins) in THIS interpreter (whose PYTHONHASHSEED the parent chose), twice, then feeds the models
back in every permutation; prints a JSON summary with bit-exact fingerprints."""
import hashlib
import itertools
import json
import logging
import os
import shutil
import sys
import tempfile
from pathlib import Path


def _hex(a):
    import numpy as np
    return [float(v).hex() for v in np.asarray(a, dtype=float).ravel()]


def main(path):
    logging.disable(logging.CRITICAL)
    import warnings
    warnings.filterwarnings("ignore")
    import numpy as np
    import pandas as pd
    import mokapot
    import mokapot.confidence as mconf
    case = json.load(open(path))
    d = Path(tempfile.mkdtemp(prefix="c08_", dir=os.environ.get("VERIF_TMP", "/tmp")))
    out = {"hashseed": os.environ.get("PYTHONHASHSEED")}
    try:
        paths = []
        for i, f in enumerate(case["files"]):
            df = pd.DataFrame(f["data"], columns=f["columns"])
            p = d / ("file%d.pin" % i)
            df.to_csv(p, sep="\t", index=False)
            paths.append(p)
        fasta = d / "db.fasta"
        fasta.write_text(case["fasta"])
        # PEPs are outside this property and the spline fit refuses tiny tables: deterministic stub
        mconf.peps_from_scores = lambda scores, targets, *a, **k: np.zeros(len(scores))

        def analysis(tag, models=None):
            res = {}
            dss = mokapot.read_pin(paths, max_workers=case["workers"])
            res["features"] = [list(x.feature_columns) for x in dss]
            P = mokapot.read_fasta(fasta, **case["fasta_args"])
            res["peptide_map"] = sorted(P.peptide_map.items())
            res["shared_keys"] = sorted(P.shared_peptides.keys())
            res["protein_map"] = sorted(P.protein_map.items())
            try:
                model = models if models is not None else mokapot.PercolatorModel(
                    train_fdr=case["train_fdr"], max_iter=3, rng=case["seed"])
                _, ms, scores, descs = mokapot.brew(dss, model, test_fdr=case["test_fdr"], folds=case["folds"],
                                                    max_workers=case["workers"], rng=case["seed"])
            except Exception as e:
                res["error"] = type(e).__name__ + ": " + str(e)[:120]
                return res, None
            res["scores"] = [_hex(s) for s in scores]
            res["descs"] = [bool(x) for x in descs]
            res["folds"] = [m.fold for m in ms]
            res["trained"] = [bool(m.is_trained) for m in ms]
            res["coef"] = [(_hex(m.estimator.coef_) + _hex(m.estimator.intercept_)) if hasattr(m.estimator, "coef_") else None
                           for m in ms]
            res["best_feat"] = [str(m.best_feat) if isinstance(m.best_feat, str) else None for m in ms]
            if models is None:
                o = d / ("out_" + tag)
                o.mkdir()
                try:
                    mokapot.assign_confidence(dss, max_workers=case["workers"], scores=list(scores), descs=list(descs),
                                              eval_fdr=0.5, dest_dir=o, prefixes=[None] * len(paths) if len(paths) == 1 else
                                              ["c%d" % i for i in range(len(paths))], decoys=True, proteins=P,
                                              rng=case["seed"])
                    res["files"] = {fn: hashlib.sha256((o / fn).read_bytes()).hexdigest() for fn in sorted(os.listdir(o))}
                except Exception as e:
                    res["conf_error"] = type(e).__name__ + ": " + str(e)[:120]
                # the same with coarse scores (one decimal): exact ties at every level, inside proteins and inside
                # target/decoy protein pairs, so that every tie-break of the confidence stage is exercised
                o2 = d / ("tied_" + tag)
                o2.mkdir()
                try:
                    mokapot.assign_confidence(dss, max_workers=case["workers"], scores=[np.round(s, 1) for s in scores],
                                              descs=list(descs), eval_fdr=0.5, dest_dir=o2,
                                              prefixes=[None] * len(paths) if len(paths) == 1 else
                                              ["c%d" % i for i in range(len(paths))], decoys=True, proteins=P,
                                              rng=case["seed"])
                    res["files_tied"] = {fn: hashlib.sha256((o2 / fn).read_bytes()).hexdigest() for fn in sorted(os.listdir(o2))}
                except Exception as e:
                    res["conf_tied_error"] = type(e).__name__ + ": " + str(e)[:120]
            return res, ms

        # interpreter-global generator state is not part of the analysis: it differs between the two runs (and
        # between worker interpreters), as it does between any two sessions of a user
        import random as _random
        g0 = int(os.environ.get("PYTHONHASHSEED") or 0) % 1000003
        np.random.seed(g0 + 1)
        _random.seed(g0 + 1)
        r1, ms = analysis("run1")
        out["run1"] = r1
        np.random.seed(g0 + 77)
        _random.seed(g0 + 77)
        r2, _ = analysis("run2")
        out["run2_equal"] = (r1 == r2)
        if r1 != r2:
            out["run2"] = r2
        out["perms"] = []
        if ms is not None and all(m.is_trained for m in ms):
            k = len(ms)
            if k <= 4:
                perms = list(itertools.permutations(range(k)))
            else:
                import random
                r = random.Random(case["seed"])
                perms = [tuple(reversed(range(k))), tuple(list(range(1, k)) + [0])]
                for _ in range(2):
                    p_ = list(range(k))
                    r.shuffle(p_)
                    perms.append(tuple(p_))
            for perm in perms:
                rp, _ = analysis("perm", models=[ms[i] for i in perm])
                out["perms"].append({"perm": list(perm), "scores_equal": rp.get("scores") == r1.get("scores"),
                                     "error": rp.get("error")})
    finally:
        shutil.rmtree(d, ignore_errors=True)
    print("C08RESULT " + json.dumps(out))


if __name__ == "__main__":
    main(sys.argv[1])
