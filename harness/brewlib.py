"""Shared machinery for driving the real mokapot.brew from the harness: dataset generation,
transparent estimator, recording scaler, observation of training sets / routing / scores."""
import os
import shutil
import tempfile
import threading
import zlib
from fractions import Fraction
from pathlib import Path

from . import lib

_LOCK = threading.Lock()
LOG = {"fit": [], "transform": [], "est_fit": []}
_TOKEN = [0]


def reset_log():
    with _LOCK:
        LOG["fit"] = []
        LOG["transform"] = []
        LOG["est_fit"] = []
        _TOKEN[0] = 0


def _new_token():
    with _LOCK:
        _TOKEN[0] += 1
        return _TOKEN[0]


def make_classes():
    """sklearn-compatible classes are created lazily (sklearn import is slow)"""
    from sklearn.base import BaseEstimator, TransformerMixin, ClassifierMixin
    import numpy as np

    class RecScaler(BaseEstimator, TransformerMixin):
        """identity scaler that records the row ids it sees: fit_transform = all training rows of the
        fold, transform = every row the fold model scores"""

        def fit(self, X, y=None):
            self.token_ = _new_token()
            return self

        def fit_transform(self, X, y=None):
            self.token_ = _new_token()
            with _LOCK:
                LOG["fit"].append((self.token_, [int(v) for v in X[:, 0]]))
            return X

        def transform(self, X):
            with _LOCK:
                LOG["transform"].append((self.token_, [int(v) for v in X[:, 0]]))
            return X

    class Transparent(BaseEstimator, ClassifierMixin):
        """decision_function = one integer feature column; which column depends on the rows the
        estimator was fitted on (so that a mis-routed row gets a visibly different score)"""

        def __init__(self, mode="decision", learn=True, kind="col"):
            self.mode = mode
            self.learn = learn
            self.kind = kind      # col: a feature column; neg: its negation; const: constant; col32 / colint: the column as float32 / int64;
            # pp-<values>-<shape>: as col, with a predict_proba that returns other values; dec-only: as col, no predict_proba

        def fit(self, X, y):
            ids = [int(v) for v in X[:, 0]]
            self.col_ = 1 + (sum(ids) % (X.shape[1] - 1)) if self.learn else 1
            self.classes_ = np.array([0, 1])
            with _LOCK:
                LOG["est_fit"].append((ids, [int(v) for v in y], int(self.col_)))
            return self

        def _score(self, X):
            if self.kind == "const":
                return np.zeros(X.shape[0])
            s = np.asarray(X[:, self.col_], dtype=float)
            if self.kind == "col32":      # an estimator whose decision values are float32 (additive kinds, C11 review)
                return s.astype(np.float32)
            if self.kind == "colint":     # ... or integers
                return s.astype(np.int64)
            return -s if self.kind == "neg" else s

        def __getattr__(self, name):
            # expose decision_function only in "decision" mode (mokapot probes with AttributeError)
            if name == "decision_function" and self.__dict__.get("mode") == "decision":
                return self._score
            raise AttributeError(name)

        def __getattribute__(self, name):
            # kind "dec-only": an estimator WITHOUT predict_proba (additive, C11 round 5; every other kind is untouched)
            if name == "predict_proba" and object.__getattribute__(self, "__dict__").get("kind") == "dec-only":
                raise AttributeError(name)
            return object.__getattribute__(self, name)

        def predict_proba(self, X):
            s = self._score(X)
            kind = self.kind if isinstance(self.kind, str) else ""
            if kind.startswith("pp-"):
                # additive kinds "pp-<values>-<shape>" (C11 round 5): the decision function is the feature column as for
                # "col", but predict_proba returns DIFFERENT values, so that it is visible which of the two methods the
                # code under test took for the raw scores.  values: sq = column squared (same ranking, not affine),
                # other = the next feature column (another ranking), neg = the negated column, sig = a logistic image
                # (what scikit-learn classifiers do), same = the column itself; shape: 2col (class 0, class 1), 1col, 1d
                _, what, shape = kind.split("-")
                if what == "sq":
                    p = s * s
                elif what == "other":
                    p = np.asarray(X[:, 1 + (self.col_ % (X.shape[1] - 1))], dtype=float)
                    if X.shape[1] <= 2:
                        p = 100.0 - s
                elif what == "neg":
                    p = -s
                elif what == "sig":
                    p = 1.0 / (1.0 + np.exp(-(s - 50.0) / 8.0))
                else:
                    p = s
                if shape == "1d":
                    return np.array(p)
                if shape == "1col":
                    return np.array(p).reshape(-1, 1)
                return np.vstack([(1.0 - p) if what == "sig" else -p, p]).T
            return np.vstack([-s, s]).T

    class Memoriser(BaseEstimator, ClassifierMixin):
        """a learner of unbounded capacity: it remembers the label of every row it was fitted on
        (returns +-1000 for those) and ranks unseen rows by one feature column"""

        def __init__(self, col=1):
            self.col = col

        def fit(self, X, y):
            self.mem_ = {int(i): int(l) for i, l in zip(X[:, 0], y)}
            self.classes_ = np.array([0, 1])
            self.col_ = self.col
            if not hasattr(self, "seen_"):
                self.seen_ = {}
            return self

        def decision_function(self, X):
            out = np.empty(X.shape[0])
            for j in range(X.shape[0]):
                i = int(X[j, 0])
                if i in self.mem_:
                    out[j] = 1000.0 if self.mem_[i] == 1 else -1000.0
                else:
                    out[j] = float(X[j, self.col_])
                self.seen_[i] = out[j]
            return out

    make_classes.Memoriser = Memoriser
    return RecScaler, Transparent


# ----------------------------------------------------------------------------- datasets
KEYSETS = {
    1: [],
    2: ["ExpMass"],
    3: ["filename", "ExpMass"],
    4: ["filename", "ret_time", "ExpMass"],
}


def gen_file(rng, n, nkeycols, nfeat=3, mult=(1, 6), file_idx=0, label_enc="pm1", quality=0.7, levels=(), npep=None,
             distinct=False):
    """one PSM table as dict of columns; spectra with 1..mult PSMs; integer-valued features"""
    rows = []
    spec = 0
    while len(rows) < n:
        m = rng.randint(*mult)
        scan = rng.randint(1, max(3, n // 2))
        fn = "run%d.mzML" % rng.randint(0, 1)
        rt = rng.randint(0, 40) * 0.5
        mass = 500 + rng.randint(0, 30) * 0.25
        for _ in range(m):
            if len(rows) >= n:
                break
            rows.append((scan, fn, rt, mass))
        spec += 1
    rng.shuffle(rows)
    cols = {}
    tg = [rng.random() < 0.55 for _ in range(n)]
    cols["SpecId"] = ["f%d_psm%d" % (file_idx, i) for i in range(n)]
    if label_enc == "pm1":
        cols["Label"] = [1 if t else -1 for t in tg]
    elif label_enc == "01":
        cols["Label"] = [1 if t else 0 for t in tg]
    else:
        cols["Label"] = [bool(t) for t in tg]
    cols["ScanNr"] = [r[0] for r in rows]
    extra = KEYSETS[nkeycols]
    if "filename" in extra:
        cols["filename"] = [r[1] for r in rows]
    if "ret_time" in extra:
        cols["ret_time"] = [r[2] for r in rows]
    if "ExpMass" in extra:
        cols["ExpMass"] = [r[3] for r in rows]
    cols["rid"] = [file_idx * 100000 + i for i in range(n)]
    for j in range(nfeat):
        vals = []
        for i in range(n):
            good = tg[i] and rng.random() < quality
            vals.append(rng.randint(40, 100) if good else rng.randint(0, 60))
        if distinct:
            # pairwise distinct values with the same ranking tendency
            order = sorted(range(n), key=lambda i: (vals[i], rng.random()))
            for rank, i in enumerate(order):
                vals[i] = 3 * rank + rng.randint(0, 2)
        cols["feat%d" % j] = vals
    npep = npep or max(2, n // 3)
    cols["Peptide"] = ["K.PEP%dK.A" % rng.randint(0, npep) for _ in range(n)]
    # level values: own name space per level, or (half of the tables with levels) strings shared between the level columns
    # and the Peptide column — an unmodified peptide has the same string as Peptide, ModifiedPeptide and PeptideGroup —
    # so that keys of different levels coincide as strings
    shared_names = bool(levels) and rng.random() < 0.5
    for lv in levels:
        if shared_names:
            cols[lv] = [cols["Peptide"][i] if rng.random() < 0.5 else "K.PEP%dK.A" % rng.randint(0, npep) for i in range(n)]
        else:
            cols[lv] = ["%s%d" % (lv[:2].lower(), rng.randint(0, max(1, npep // 2))) for _ in range(n)]
    cols["Proteins"] = ["prot%d" % rng.randint(0, 5) for _ in range(n)]
    return {"columns": list(cols.keys()), "data": cols, "targets": tg}


def write_file(f, d, name, fmt="tsv", row_group=None):
    import pandas as pd
    df = pd.DataFrame(f["data"], columns=f["columns"])
    if fmt == "parquet":
        p = Path(d) / (name + ".parquet")
        df.to_parquet(p, index=False, row_group_size=row_group or max(1, len(df)))
    else:
        p = Path(d) / (name + ".pin")
        df.to_csv(p, sep="\t", index=False)
    return p


def spectrum_keys(ds):
    """the hashes _split computes (recomputed here; must be taken BEFORE brew, which deletes
    spectra_dataframe)"""
    vals = ds.spectra_dataframe[ds.spectrum_columns].values
    return [zlib.crc32(str(tuple(x[:2])).encode()) for x in vals]


class Chunking:
    """temporarily set mokapot's chunk-size module constants"""
    NAMES = {
        "predict": ("mokapot.brew", "CHUNK_SIZE_ROWS_PREDICTION"),
        "trainread": ("mokapot.brew", "CHUNK_SIZE_READ_ALL_DATA"),
        "confidence": ("mokapot.confidence", "CONFIDENCE_CHUNK_SIZE"),
        "mergesort": ("mokapot.utils", "MERGE_SORT_CHUNK_SIZE"),
        "colscan": ("mokapot.parsers.pin", "CHUNK_SIZE_COLUMNS_FOR_DROP_COLUMNS"),
        "rowscan": ("mokapot.parsers.pin", "CHUNK_SIZE_ROWS_FOR_DROP_COLUMNS"),
    }

    def __init__(self, **kw):
        self.kw = {k: v for k, v in kw.items() if v is not None}
        self.old = {}

    def __enter__(self):
        import importlib
        for k, v in self.kw.items():
            mod, attr = self.NAMES[k]
            m = importlib.import_module(mod)
            self.old[k] = getattr(m, attr)
            setattr(m, attr, int(v))
        return self

    def __exit__(self, *a):
        import importlib
        for k, v in self.old.items():
            mod, attr = self.NAMES[k]
            setattr(importlib.import_module(mod), attr, v)


class Sleeps:
    """perturb task durations: wrap mokapot's worker functions with short random sleeps so that
    worker threads finish in a different order from run to run"""
    TARGETS = [("mokapot.brew", "_fit_model"), ("mokapot.brew", "predict_fold"),
               ("mokapot.parsers.pin", "get_rows_from_dataframe"),
               ("mokapot.parsers.pin", "drop_missing_values_and_fill_spectra_dataframe"),
               ("mokapot.parsers.pin", "concat_and_reindex_chunks"),
               ("mokapot.confidence", "_save_sorted_metadata_chunks")]

    def __init__(self, seed=None):
        self.seed = seed
        self.old = []

    def __enter__(self):
        if self.seed is None:
            return self
        import importlib
        import random
        import time
        rng = random.Random(self.seed)
        lock = threading.Lock()

        def wrap(f):
            def g(*a, **k):
                with lock:
                    dt = rng.random() * 0.004
                time.sleep(dt)
                return f(*a, **k)
            g.__name__ = getattr(f, "__name__", "wrapped")
            return g
        for mod, name in self.TARGETS:
            m = importlib.import_module(mod)
            f = getattr(m, name)
            self.old.append((m, name, f))
            setattr(m, name, wrap(f))
        return self

    def __exit__(self, *a):
        for m, name, f in self.old:
            setattr(m, name, f)
        self.old = []


def parse_result_file(path, level_cols=()):
    import pandas as pd
    if path.suffix == ".parquet":
        df = pd.read_parquet(path)
    else:
        df = pd.read_csv(path, sep="\t", float_precision="round_trip")
    rows = []
    for _, r in df.iterrows():
        rows.append({"id": str(r["PSMId"]), "peptide": str(r["peptide"]), "proteins": str(r["proteinIds"]),
                     "score": float(r["score"]), "q": Fraction(float(r["q-value"])),
                     "extra": {lv: str(r[lv]) for lv in level_cols if lv in df.columns}})
    return rows


def _const_peps(scores, targets, *a, **k):
    import numpy as np
    return np.zeros(len(scores))


def run_brew(case, keep_dir=None):
    """run the real read_pin + brew on the case; returns the observation dict"""
    import numpy as np
    import mokapot
    from mokapot.model import Model
    RecScaler, Transparent = make_classes()
    d = keep_dir or tempfile.mkdtemp(prefix="brew_", dir=os.environ.get("VERIF_TMP", "/tmp"))
    try:
        paths = [write_file(f, d, "file%d" % i, case.get("fmt", "tsv"), case.get("row_group"))
                 for i, f in enumerate(case["files"])]
        ch = case.get("chunks", {})
        with Chunking(**ch), Sleeps(case.get("sleep_seed")):
            dss = mokapot.read_pin(paths, max_workers=case.get("read_workers", 1))
            keys = [spectrum_keys(ds) for ds in dss]
            reset_log()
            if case.get("learner") == "memoriser":
                est = make_classes.Memoriser()
                model = Model(est, scaler=RecScaler(), train_fdr=case.get("train_fdr", 1.0),
                              max_iter=case.get("max_iter", 2), override=True, rng=case["seed"])
            elif case.get("learner") == "percolator":
                model = mokapot.PercolatorModel(train_fdr=case.get("train_fdr", 0.2), max_iter=3, rng=case["seed"])
            else:
                est = Transparent(mode=case.get("est_mode", "decision"), learn=case.get("learn", True),
                                  kind=case.get("est_kind", "col"))
                model = Model(est, scaler=RecScaler(), train_fdr=case.get("train_fdr", 1.0),
                              max_iter=case.get("max_iter", 1), override=case.get("override", True),
                              rng=case["seed"])
            try:
                _, models, scores, descs = mokapot.brew(
                    dss, model, test_fdr=float(case["test_fdr"]), folds=case["folds"],
                    max_workers=case.get("workers", 1), rng=case["seed"],
                    subset_max_train=case.get("subset_max_train"))
            except BaseException as e:   # noqa
                if isinstance(e, (KeyboardInterrupt, SystemExit, MemoryError)):
                    raise
                # what the estimators of the fold models learned is known even though brew raised afterwards
                return {"keys": keys, "error": lib.err_kind(e), "message": str(e)[:200],
                        "est_fits": [(sorted(x[0]), x[2]) for x in LOG["est_fit"] if len(x) > 2]}
            conf_files, leftovers = None, None
            if case.get("confidence"):
                import mokapot.confidence as conf
                out = Path(d) / "out"
                out.mkdir(exist_ok=True)
                oldp = conf.peps_from_scores
                conf.peps_from_scores = _const_peps
                try:
                    prefixes = ["coll%d" % i for i in range(len(paths))] if len(paths) > 1 else [None]
                    conf_scores = [np.asarray(sc, dtype=float) for sc in scores]
                    if case.get("tiebreak"):
                        # break ties between folds deterministically (row index * 2^-20) so that the result
                        # files are a function of the scores alone, whatever the sort / file order
                        conf_scores = [sc + np.arange(len(sc)) * 2.0 ** -20 for sc in conf_scores]
                    mokapot.assign_confidence(dss, max_workers=case.get("workers", 1), scores=conf_scores,
                                              descs=list(descs), eval_fdr=0.5, dest_dir=out, prefixes=prefixes,
                                              decoys=True)
                finally:
                    conf.peps_from_scores = oldp
                conf_files, leftovers = {}, []
                for fn in sorted(os.listdir(out)):
                    parts = fn.split(".")
                    if "targets" in parts or "decoys" in parts:
                        conf_files[fn] = [(r["id"], r["score"], r["q"]) for r in parse_result_file(out / fn)]
                    else:
                        leftovers.append(fn)
        fit_by_token = dict(LOG["fit"])
        tr = {}
        for tok, ids in LOG["transform"]:
            tr.setdefault(tok, []).extend(ids)
        obs = {
            "keys": keys, "error": None,
            "model_folds": [m.fold for m in models],
            "trained": [bool(m.is_trained) for m in models],
            "cols": [getattr(m.estimator, "col_", None) for m in models],
            "train_ids": [sorted(fit_by_token.get(getattr(m.scaler, "token_", None), [])) for m in models],
            "scored_ids": [sorted(tr.get(getattr(m.scaler, "token_", None), [])) for m in models],
            "coef": [getattr(m.estimator, "coef_", None).tolist() if getattr(m.estimator, "coef_", None) is not None else None for m in models],
            "scores": [[Fraction(float(v)) if np.isfinite(v) else None for v in np.asarray(s).ravel()] for s in scores],
            "descs": [bool(x) for x in descs],
            "feat_pass": [int(m.feat_pass) if m.feat_pass is not None else None for m in models],
            "best_feat": [m.best_feat if isinstance(m.best_feat, str) else None for m in models],
            "model_desc": [None if m.desc is None else bool(m.desc) for m in models],
            "conf": conf_files, "leftovers": leftovers,
            "conf_scores": [[Fraction(float(v)) for v in sc] for sc in conf_scores] if case.get("confidence") else None,
            "memory": [sorted(getattr(m.estimator, "mem_", {}).keys()) for m in models],
            "seen": [dict(getattr(m.estimator, "seen_", {})) for m in models],
            "features": [list(ds.feature_columns) for ds in dss],
            "override": [bool(m.override) for m in models],
        }
        return obs
    finally:
        if keep_dir is None:
            shutil.rmtree(d, ignore_errors=True)
