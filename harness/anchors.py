"""Source tie, textual half: which of the modelled functions differ from the text the model was written against.

`anchors.lock.json` (committed, written by `python3 -m harness.anchors --write`) holds, for every file that a
property's `anchors.files` names, one digest per function / method / module-level statement group: the SHA-256 of
its `ast.dump` without positions and docstrings (comments, blank lines and formatting do not count).  A check
computes the same digests for the implementation it is about to run and reports the units that changed, appeared
or disappeared.  That report decides nothing: a changed function is neither a violation nor a reason to trust the
model less than the differential run says.  It is used for two things only:

* the evidence file names the modelled units whose text is not the text the model was written against, and
* the correspondence stage runs a second, independently seeded batch of cases when any anchored unit changed
  (a deeper look exactly where the code moved).
"""
import ast
import hashlib
import json
import os
import sys
from pathlib import Path

ROOT = Path(__file__).resolve().parent.parent
LOCK = ROOT / "anchors.lock.json"


def _strip_doc(node):
    body = getattr(node, "body", None)
    if isinstance(body, list) and body and isinstance(body[0], ast.Expr) \
            and isinstance(getattr(body[0], "value", None), ast.Constant) and isinstance(body[0].value.value, str):
        node.body = body[1:] or [ast.Pass()]


def _digest(node):
    for n in ast.walk(node):
        if isinstance(n, (ast.FunctionDef, ast.AsyncFunctionDef, ast.ClassDef, ast.Module)):
            _strip_doc(n)
    return hashlib.sha256(ast.dump(node, annotate_fields=True, include_attributes=False).encode()).hexdigest()[:16]


def units(path):
    """{qualified name: digest} of one source file; module-level statements that are neither def nor class go
    into the unit '<module>' (constants such as the chunk sizes live there)."""
    import warnings
    with warnings.catch_warnings():
        warnings.simplefilter("ignore")
        tree = ast.parse(Path(path).read_text())
    out = {}
    rest = []

    def walk(body, prefix):
        for n in body:
            if isinstance(n, (ast.FunctionDef, ast.AsyncFunctionDef)):
                out[prefix + n.name] = _digest(n)
            elif isinstance(n, ast.ClassDef):
                hdr = ast.ClassDef(name=n.name, bases=n.bases, keywords=n.keywords, decorator_list=n.decorator_list,
                                   body=[m for m in n.body if not isinstance(m, (ast.FunctionDef, ast.AsyncFunctionDef, ast.ClassDef))] or [ast.Pass()])
                out[prefix + n.name + ".<class>"] = _digest(hdr)
                walk(n.body, prefix + n.name + ".")
            elif not prefix:
                rest.append(n)

    walk(tree.body, "")
    out["<module>"] = _digest(ast.Module(body=rest or [ast.Pass()], type_ignores=[]))
    return out


def anchor_files():
    res = {}
    for line in (ROOT / "properties.jsonl").read_text().splitlines():
        if line.strip():
            p = json.loads(line)
            res[p["id"]] = sorted(set(p.get("anchors", {}).get("files", [])))
    return res


def impl_root():
    """directory that contains the `mokapot` package the harness is going to run"""
    try:
        import mokapot
        return Path(os.path.abspath(mokapot.__file__)).parent.parent
    except Exception:
        return Path("/repo")


def snapshot(root):
    files = sorted({f for fs in anchor_files().values() for f in fs})
    snap = {}
    for f in files:
        p = Path(root) / f
        try:
            snap[f] = units(p)
        except Exception as e:          # unreadable / syntactically broken: everything in it counts as changed
            snap[f] = {"<unreadable>": type(e).__name__}
    return snap


def compare(prop, root=None):
    """-> dict for the evidence file; key 'changed' lists 'file::unit' strings (empty on the locked text)"""
    root = Path(root) if root else impl_root()
    info = {"lock": str(LOCK.name), "implementation_root": str(root)}
    try:
        lock = json.loads(LOCK.read_text())
    except Exception as e:
        info.update({"changed": [], "note": f"no usable lock file ({type(e).__name__}); nothing compared"})
        return info
    info["locked_at_repo_commit"] = lock.get("repo_commit")
    if lock.get("python") != list(sys.version_info[:2]):
        # ast.dump is not stable across interpreter versions: digests of another version say nothing
        info.update({"changed": [], "note": f"lock written by python {lock.get('python')}, running {list(sys.version_info[:2])}; nothing compared"})
        return info
    changed = []
    n = 0
    for f in anchor_files().get(prop, []):
        old = lock.get("files", {}).get(f, {})
        try:
            new = units(root / f)
        except Exception as e:
            new = {"<unreadable>": type(e).__name__}
        n += len(new)
        for u in sorted(set(old) | set(new)):
            if old.get(u) != new.get(u):
                changed.append(f"{f}::{u}" + (" (new)" if u not in old else " (gone)" if u not in new else ""))
    info["units_compared"] = n
    info["changed"] = changed
    return info


def main(argv):
    if "--write" in argv:
        import subprocess
        root = Path("/repo")
        try:
            head = subprocess.run(["git", "-C", str(root), "rev-parse", "HEAD"], capture_output=True, text=True).stdout.strip()
        except Exception:
            head = None
        LOCK.write_text(json.dumps({"repo_commit": head, "python": list(sys.version_info[:2]), "files": snapshot(root)}, indent=1, sort_keys=True) + "\n")
        print("wrote", LOCK)
        return 0
    root = argv[0] if argv else None
    for prop in sorted(anchor_files()):
        c = compare(prop, root or "/repo")
        print(prop, c.get("units_compared"), "units;", "changed:", c["changed"] or "none", c.get("note", ""))
    return 0


if __name__ == "__main__":
    sys.exit(main(sys.argv[1:]))
