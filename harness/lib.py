"""Shared machinery for all checks: build, proof stage, model driver I/O, evidence,
violation protocol, known findings.  Run with /venv/bin/python, PYTHONPATH=/repo."""
import fcntl
import hashlib
import json
import os
import random
import re
import subprocess
import sys
import time
import traceback
from fractions import Fraction
from pathlib import Path

VERIF = Path(__file__).resolve().parent.parent
COQ = VERIF / "coq"
BUILD = VERIF / "build"
DRIVER = BUILD / "driver"
REPLAYS = VERIF / "replays"
# runs against a modified copy of the repository (tools/try_seed_wt.sh) must not overwrite the evidence of /repo
EVIDENCE = Path(os.environ["VERIF_EVIDENCE_DIR"]) if os.environ.get("VERIF_EVIDENCE_DIR") else VERIF / "evidence"
CORPUS = VERIF / "corpus"
KNOWN = VERIF / "known_findings.json"

ERR_CODES = {1: "StopIteration", 2: "AssertionError", 3: "ValueError", 4: "IndexError",
             5: "RuntimeError", 6: "KeyError", 7: "TypeError", 8: "FUEL"}

ALLOWED_AXIOMS = set()   # the development is closed under the global context

GREP_GATE = re.compile(
    r"\b(Admitted|admit|Axiom|Axioms|Parameter|Parameters|Conjecture|Conjectures|"
    r"Admit\s+Obligations|bypass_check)\b|Unset\s+Guard|Unset\s+Positivity|"
    r"Unset\s+Universe|type-in-type|impredicative-set|Hypothesis|Hypotheses|Variable|Variables")


# ----------------------------------------------------------------------------- encoding
def z(i):
    i = int(i)
    return ("-b" + bin(-i)[2:]) if i < 0 else ("b" + bin(i)[2:])


def b(x):
    return "1" if x else "0"


def lst(xs, f=z):
    xs = list(xs)
    return " ".join([str(len(xs))] + [f(x) for x in xs])


def opt(x, f=z):
    return "0" if x is None else "1 " + f(x)


def q(fr):
    fr = Fraction(fr)
    return z(fr.numerator) + " " + z(fr.denominator)


def s(text):
    """string -> list of character codes"""
    return lst([ord(c) for c in text], z)


def pair(fa, fb):
    return lambda p: fa(p[0]) + " " + fb(p[1])


class Toks:
    def __init__(self, line):
        self.t = line.split()
        self.i = 0
        if self.t[:1] == ["BAD"]:
            raise ModelError(line)

    def raw(self):
        v = self.t[self.i]
        self.i += 1
        return v

    def z(self):
        t = self.raw()
        neg = t.startswith("-")
        if neg:
            t = t[1:]
        assert t[0] == "b", t
        v = int(t[1:], 2)
        return -v if neg else v

    nat = z

    def int(self):
        return int(self.raw())

    def b(self):
        return self.raw() == "1"

    def lst(self, f=None):
        n = self.int()
        f = f or self.z
        return [f() for _ in range(n)]

    def opt(self, f=None):
        f = f or self.z
        return f() if self.raw() == "1" else None

    def q(self):
        n = self.z()
        d = self.z()
        return Fraction(n, d)

    def s(self):
        return "".join(chr(c) for c in self.lst())

    def result(self, f):
        """-> ('ok', v) | ('err', kind)"""
        if self.raw() == "0":
            return ("ok", f())
        return ("err", ERR_CODES[self.int()])

    def done(self):
        assert self.i == len(self.t), (self.i, self.t)


class ModelError(Exception):
    pass


DRIVER_LOG = []          # (case line, answer line) of every driver call of this process (capped); used by harness/vmcheck.py


def run_driver(lines):
    """Run the extracted model on a batch of case lines; returns the output lines."""
    if not lines:
        return []
    data = ("\n".join(lines) + "\n").encode()
    p = subprocess.run(
        ["bash", "-c", f"ulimit -s unlimited 2>/dev/null || ulimit -s 1000000; exec {DRIVER}"],
        input=data, stdout=subprocess.PIPE, stderr=subprocess.PIPE, timeout=3000)
    if p.returncode != 0:
        raise ModelError(f"driver exit {p.returncode}: {p.stderr.decode()[:500]}")
    out = p.stdout.decode().split("\n")
    if out and out[-1] == "":
        out.pop()
    if len(out) != len(lines):
        raise ModelError(f"driver returned {len(out)} lines for {len(lines)} cases")
    if len(DRIVER_LOG) < 40000:
        step = max(1, len(lines) // 2000)
        DRIVER_LOG.extend(list(zip(lines, out))[::step])
    return out


# ----------------------------------------------------------------------------- build / proof stage
def ensure_built():
    """(Re)build the Coq development, the extracted model and the driver (incremental)."""
    BUILD.mkdir(exist_ok=True)
    p = subprocess.run(["timeout", "3400", "make", "-C", str(VERIF), "setup"],
                       stdout=subprocess.PIPE, stderr=subprocess.STDOUT)
    return p.returncode, p.stdout.decode(errors="replace")


def grep_gate():
    """Forbidden vernacular anywhere in the development (Section variables are allowed
    only inside Model/ and Proofs/ files between Section ... End)."""
    hits = []
    for f in sorted(COQ.rglob("*.v")):
        depth = 0
        txt = f.read_text()
        # strip comments (non-nested is enough for our files; nested handled by loop)
        prev = None
        while prev != txt:
            prev = txt
            txt = re.sub(r"\(\*(?:(?!\(\*|\*\)).)*\*\)", lambda m: "\n" * m.group(0).count("\n"), txt, flags=re.S)
        for n, line in enumerate(txt.split("\n"), 1):
            if re.match(r"\s*Section\b", line):
                depth += 1
            if re.match(r"\s*End\b", line) and depth > 0:
                depth -= 1
                continue
            for m in GREP_GATE.finditer(line):
                w = m.group(0)
                if w.startswith(("Variable", "Hypothes")) and depth > 0:
                    continue
                hits.append(f"{f.relative_to(VERIF)}:{n}: {w}")
    return hits


def coqchk_stage(prop):
    """independent re-check of Props/<prop>.vo and everything it depends on; -o lists the axioms"""
    p = subprocess.run(["timeout", "1500", "coqchk", "-silent", "-o", "-Q", ".", "Mokaverif", f"Mokaverif.Props.{prop}"],
                       cwd=COQ, stdout=subprocess.PIPE, stderr=subprocess.STDOUT)
    txt = p.stdout.decode(errors="replace")
    info = {"rc": p.returncode, "summary": txt[txt.find("CONTEXT SUMMARY"):][:1500] if "CONTEXT SUMMARY" in txt else txt[-800:]}
    problems = []
    if p.returncode != 0:
        problems.append("coqchk failed: " + txt[-600:])
    else:
        for head in ("Axioms", "Constants/Inductives relying on type-in-type", "Constants/Inductives relying on unsafe (co)fixpoints",
                     "Inductives whose positivity is assumed"):
            m = re.search(r"\* " + re.escape(head) + r":(.*?)(?=\n\* |\Z)", txt, flags=re.S)
            body = m.group(1).strip() if m else "?"
            info[head] = body
            if body != "<none>":
                names = [x.strip() for x in body.split("\n") if x.strip()]
                bad = [x for x in names if x.split()[0] not in ALLOWED_AXIOMS]
                if bad:
                    problems.append(f"coqchk: {head}: {bad[:5]}")
    return info, problems


def proof_stage(prop, thorough=False):
    """Recompile Props/<prop>.v and read Print Assumptions.  Returns dict."""
    rc, out = ensure_built()
    res = {"build_rc": rc, "theorems": [], "obligations": 0, "discharged": 0, "problems": [],
           "axioms": []}
    if rc != 0:
        res["problems"].append("coq build failed: " + out[-1500:])
        return res
    vfile = COQ / "Props" / f"{prop}.v"
    (BUILD / "props").mkdir(exist_ok=True)
    # the dependency chain of this property's theorems must build (strict, this property only)
    p = subprocess.run(["timeout", "3000", "make", "--no-print-directory", "-f", "Makefile.coq", "-j8", f"Props/{prop}.vo"],
                       cwd=COQ, stdout=subprocess.PIPE, stderr=subprocess.STDOUT)
    if p.returncode != 0:
        res["problems"].append(f"Props/{prop}.vo or a file it depends on does not build: " + p.stdout.decode(errors="replace")[-1500:])
        return res
    src = vfile.read_text()
    thms = re.findall(r"^\s*(?:Theorem|Corollary|Lemma)\s+(\w+)", src, flags=re.M)
    printed = re.findall(r"^\s*Print Assumptions\s+(\w+)\s*\.", src, flags=re.M)
    res["theorems"] = thms
    res["obligations"] = len(thms)
    for t in thms:
        if t not in printed:
            res["problems"].append(f"theorem {t} has no Print Assumptions")
    p = subprocess.run(["timeout", "600", "coqc", "-Q", ".", "Mokaverif", "-w", "-notation-overridden",
                        f"Props/{prop}.v", "-o", str(BUILD / "props" / f"{prop}.vo")],
                       cwd=COQ, stdout=subprocess.PIPE, stderr=subprocess.STDOUT)
    txt = p.stdout.decode(errors="replace")
    if p.returncode != 0:
        res["problems"].append(f"Props/{prop}.v does not compile: {txt[-1500:]}")
        return res
    # split output per Print Assumptions
    blocks = re.split(r"(?=Closed under the global context|Axioms:)", txt)
    blocks = [bl for bl in blocks if bl.startswith(("Closed", "Axioms:"))]
    if len(blocks) != len(printed):
        res["problems"].append(f"{len(printed)} Print Assumptions but {len(blocks)} reports")
    ok = 0
    for name, bl in zip(printed, blocks):
        if bl.startswith("Closed"):
            ok += 1
            continue
        axs = re.findall(r"^(\S+)\s*:", bl[len("Axioms:"):], flags=re.M)
        bad = [a for a in axs if a not in ALLOWED_AXIOMS]
        res["axioms"].append({name: axs})
        if bad:
            res["problems"].append(f"{name} depends on axioms {bad}")
        else:
            ok += 1
    res["discharged"] = ok if not res["problems"] else min(ok, len(thms) - 1)
    hits = grep_gate()
    if hits:
        res["problems"].append("grep gate: " + "; ".join(hits[:10]))
    if thorough and not res["problems"]:
        info, probs = coqchk_stage(prop)
        res["coqchk"] = info
        res["problems"].extend(probs)
    return res


# ----------------------------------------------------------------------------- known findings
def load_known():
    if KNOWN.exists():
        return json.loads(KNOWN.read_text())
    return []


# ----------------------------------------------------------------------------- context
class Ctx:
    def __init__(self, prop, tier, seed):
        self.prop = prop
        self.tier = tier
        self.seed = seed
        self.rng = random.Random(seed)
        self.t0 = time.time()
        self.thorough = tier == "thorough"

    def sub(self, label):
        """derive an independent PRNG from the run seed"""
        h = hashlib.sha256(f"{self.seed}:{label}".encode()).digest()
        return random.Random(int.from_bytes(h[:8], "big"))


def err_kind(exc):
    """map a Python exception raised by the implementation to the small enum"""
    for cls, name in ((StopIteration, "StopIteration"), (AssertionError, "AssertionError"),
                      (IndexError, "IndexError"), (KeyError, "KeyError"),
                      (ValueError, "ValueError"), (RuntimeError, "RuntimeError"),
                      (TypeError, "TypeError")):
        if isinstance(exc, cls):
            return name
    return type(exc).__name__


def call_impl(fn, *a, **k):
    """-> ('ok', value) | ('err', kind)"""
    try:
        return ("ok", fn(*a, **k))
    except BaseException as e:      # noqa: the implementation may raise anything
        if isinstance(e, (KeyboardInterrupt, SystemExit, MemoryError)):
            raise
        return ("err", err_kind(e))


def jsonable(x):
    if isinstance(x, Fraction):
        return f"{x.numerator}/{x.denominator}"
    if isinstance(x, (list, tuple)):
        return [jsonable(v) for v in x]
    if isinstance(x, dict):
        return {str(k): jsonable(v) for k, v in x.items()}
    if isinstance(x, (set, frozenset)):
        return sorted(jsonable(v) for v in x)
    if isinstance(x, (str, int, bool)) or x is None:
        return x
    if isinstance(x, float):
        return x if x == x and abs(x) != float("inf") else repr(x)
    if isinstance(x, bytes):
        return x.decode("latin1")
    try:
        import numpy as np
        if isinstance(x, np.generic):
            return jsonable(x.item())
        if isinstance(x, np.ndarray):
            return jsonable(x.tolist())
    except Exception:
        pass
    return repr(x)


def write_replay(prop, payload):
    REPLAYS.mkdir(exist_ok=True)
    blob = json.dumps(jsonable(payload), indent=1, sort_keys=True)
    h = hashlib.sha256(blob.encode()).hexdigest()[:12]
    path = REPLAYS / f"{prop}-{h}.json"
    path.write_text(blob)
    return path


def write_evidence(ctx, proof, cov, assumptions, violations):
    EVIDENCE.mkdir(exist_ok=True)
    coverage = {
        "obligations": max(1, proof["obligations"]),
        "discharged": max(0, proof["discharged"]),
        "checker_cmd": f"make -C /verif setup && coqc -Q . Mokaverif Props/{ctx.prop}.v (Print Assumptions per theorem) + grep gate",
        "trusted_base": [
            "Coq 8.16.1 kernel (coqc); no native_compute; vm_compute only in Examples/_refuted witnesses",
            "axioms reported by Print Assumptions: " + (json.dumps(proof["axioms"]) if proof["axioms"] else "none (closed under the global context)"),
            "extraction: Coq.extraction.ExtrOcamlBasic only (Extract Inductive bool/option/unit/list/prod/sumbool/sumor, Extract Inlined Constant andb/orb); OCaml 4.13.1; ocaml/driver.ml",
            "hand-written Gallina model tied to /repo by differential execution (this harness)",
        ] + list(cov.pop("trusted_base_extra", [])),
        "theorems": proof["theorems"],
        "proof_problems": proof["problems"],
        "extraction_crosscheck": proof.get("vmcheck", "not run in this tier (thorough tier: a sample of the driver calls is re-evaluated with vm_compute inside Coq, harness/vmcheck.py)"),
        "coqchk": proof.get("coqchk", "not run in this tier (thorough tier runs coqchk -o on Props/%s.vo and its dependencies)" % ctx.prop),
    }
    coverage.update(cov)
    # keys the evidence schema types: a harness must not reuse them for something else
    typed = {"evaluations": int, "distinct_nontrivial": int, "states": int, "transitions": int,
             "traces_validated_against_impl": int, "obligations": int, "discharged": int, "programs": int,
             "disagreements_checked": int, "rule": str, "checker_cmd": str, "explanation": str,
             "samples": list, "trusted_base": list, "exhaustive": bool}
    for k, ty in typed.items():
        if k in coverage and (not isinstance(coverage[k], ty) or (ty is int and isinstance(coverage[k], bool))):
            coverage[k + "_detail"] = coverage.pop(k)
    try:
        import mokapot as _mk
        coverage["implementation_under_test"] = os.path.dirname(os.path.abspath(_mk.__file__))
    except Exception as e:
        coverage["implementation_under_test"] = "mokapot not importable: " + type(e).__name__
    if coverage["discharged"] < 1:
        # schema wants >= 1 for the proof keys; fall back to the generic keys
        coverage.pop("obligations")
        coverage.pop("discharged")
        coverage["obligations_total"] = proof["obligations"]
        coverage["discharged_total"] = proof["discharged"]
        coverage.setdefault("evaluations", 1)
        coverage["evaluations"] = max(1, coverage["evaluations"])
        coverage["distinct_nontrivial"] = max(2, coverage.get("distinct_nontrivial", 0))
    ev = {
        "property_id": ctx.prop,
        "tier": ctx.tier,
        "seed": ctx.seed,
        "level": "proof",
        "coverage": jsonable(coverage),
        "assumptions": assumptions,
        "wall_s": round(time.time() - ctx.t0, 2),
        "violations": violations,
    }
    (EVIDENCE / f"{ctx.prop}.json").write_text(json.dumps(ev, indent=1))


def stable_hash(x):
    return hashlib.sha256(json.dumps(jsonable(x), sort_keys=True).encode()).hexdigest()[:16]
