"""Cross-check of the extraction: a sample of the driver lines of a run (entry + tokens, and the line the extracted OCaml
model answered) is turned into Coq goals `normalise (f args) = answer` and closed with `vm_compute; reflexivity` by coqc,
i.e. the same Gallina function is evaluated by Coq's own reduction machine on the same inputs.  A failure means that
the extracted program and the definitions the theorems are about disagree (extraction, OCaml compiler, driver glue).

Used in the thorough tier (harness/runner.py).  Entries are described by a small type language; entries without a
description are skipped (reported in the evidence)."""
import os
import random
import subprocess

from . import lib

ERRS = {1: "EStopIteration", 2: "EAssertion", 3: "EValue", 4: "EIndex", 5: "ERuntime", 6: "EKey", 7: "EType", 8: "EFuel"}
Z, NAT, B, Q = "z", "nat", "bool", "q"


def L(t):
    return ("list", t)


def O(t):
    return ("opt", t)


def P(a, b):
    return ("pair", a, b)


def R(t):
    return ("result", t)


def E(*names):
    return ("enum", names)


def REC(ctor, *fields):
    return ("rec", ctor, fields)


def REF(thunk, name):
    """a recursive reference to a type description"""
    return ("ref", thunk, name)


def SUM(*alts):
    """alts: (tag, constructor, field types)"""
    return ("sum", {a[0]: (a[1], a[2]) for a in alts})


ERR = ("err",)
STR = L(Z)
CFROW = REC("Build_cf_row", Z, Z, L(Z), B, Z)
ZROW = P(Z, Z)

FNAME = SUM((0, "NChunk", [Z, NAT, B]), (1, "NLevel", [NAT, B]), (2, "NResult", [Z, B, NAT]), (3, "NPin", [Z]),
            (4, "NTmpTsv", [Z]), (5, "NOther", [Z]))
FSCOLL = REC("Build_fs_coll", Z, L(CFROW), O(P(L(Z), L(CFROW))))
FSCFG = REC("Build_fs_cfg", B, NAT, B, NAT, B, B, B, B, L(FSCOLL))
CROW_IN = P(CFROW, Q)
CROW_OUT = P(("proj", "cf_id", CFROW), Q)

# entry -> (argument types, Coq function, result type)
SPEC = {
    "c01.tdc": ([B, L(Z), E("LBool", "LInt", "LFloat"), L(Z)], "tdc", R(L(Q))),
    "c01.labels": ([B, L(Z), L(B), Q], "update_labels", R(L(Z))),
    "c14.merge_all": ([L(L(ZROW))], "mg_merge_all_z", L(ZROW)),
    "c14.merge_sort": ([L(L(ZROW))], "mg_merge_sort_z", R(L(ZROW))),
    "c14.merge_checked": ([B, L(L(ZROW))], "mg_merge_checked_z", R(L(ZROW))),
    "c17.digest_class": ([STR, STR, STR, Z, Z, Z, B, B], "dg_digest_class", L(STR)),
    "c17.class_sites": ([STR, STR, STR], "dg_class_sites", L(NAT)),
    "c17.digest_ends": ([STR, L(NAT), Z, Z, Z, B, B], "dg_digest_ends", L(STR)),
    "c19.convert_file": ([Z, STR, STR], "convert_file_sep", R(STR)),
    "c19.is_valid": ([Z, STR], "is_valid_sep", R(B)),
    "c19.convert_line": ([Z, STR, STR, NAT, NAT], "convert_line_sep", STR),
    "c19.parse_header": ([Z, STR], "parse_header_sep", R(P(NAT, NAT))),
    "c19.convert_file_default": ([STR], "convert_file", R(STR)),
    "c19.is_valid_default": ([STR], "is_valid", R(B)),
    "c03.levels": ([NAT, B, B, NAT, L(CFROW)], "(cf_levels cf_row cf_score cf_lkey)", L(L(("proj", "cf_id", CFROW)))),
    "c11.calibrate": ([L(Z), L(B), Q], "calibrate", R(L(Q))),
    "c02.split": ([L(Z), NAT], "bw_split", R(L(L(NAT)))),
    "c02.plan": ([O(NAT), L(NAT)], "bw_subset_plan", R(L(O(NAT)))),
    "c10.chunks": ([L(Z), L(Z), NAT], "pc_chunks_with_ids", L(L(Z))),
    "c09.run": ([FSCFG, O(NAT), L(P(FNAME, L(CROW_IN)))], "fs_run", O(L(P(FNAME, L(CROW_OUT))))),
    "c09.trace": ([FSCFG], "fs_run_trace", L(P(NAT, FNAME))),
    "c09.verify": ([B, Z, L(P(FNAME, STR))], "fs_verify", O(L(P(FNAME, STR)))),
}
FDK = E("FdCorrect", "FdNull")
PKP = REC("Build_pk_proteins", L(P(STR, STR)), L(STR), L(P(STR, STR)), B, STR)
PKROW = REC("Build_pk_row", B, STR, Z)
PKENTRY = REC("Build_pk_entry", STR, STR, STR, Z, B)
QOUT = SUM((0, "PepFinite", [L(Q)]), (1, "PepAllInf", [NAT]))
SPEC.update({
    "c04.fdp": ([Q, L(FDK), L(B)], "(fun a r w => (fd_fdp a r w, (fdp_via_tdc a r w, fd_ratio a r w)))", P(Q, P(Q, Q))),
    "c04.sums": ([Q, L(FDK)], "(fun a r => (fd_qsum (map (fd_fdp a r) (fd_labs (fd_count_n r))), "
                              "fd_qsum (map (fd_ratio a r) (fd_labs (fd_count_n r)))))", P(Q, Q)),
    "c06.mono": ([B, L(Q)], "pep_monotonize_simple", L(Q)),
    "c06.interp": ([L(Z), L(Q), L(Z)], "pep_interp_all", R(L(Q))),
    "c06.qvality": ([L(Z), L(B), L(Q)], "pep_qvality", R(L(Q))),
    "c06.qvality_sorted": ([L(Q)], "pep_qvality_sorted_order", L(Q)),
    "c06.nnls": ([B, L(Z), L(B), L(Z), L(Q)], "pep_nnls_peps", R(L(Q))),
    "c06.counts": ([L(Z), L(B), L(P(Z, B)), Q], "pep_qvalues_from_counts", R(QOUT)),
    "c06.frompeps": ([L(Z), L(B), L(P(Z, P(B, Q)))], "pep_qvalues_from_peps", R(L(Q))),
    "c07.decide": ([Q, L(P(NAT, B)), L(P(L(Z), L(B)))],
                   "(fun thr ms fs => match bd_pred_total thr fs with Ok pt => Ok (pt, bd_decide ms pt) | Err e => Err e end)",
                   R(P(NAT, O(NAT)))),
    "c07.best_feature": ([Q, L(L(Z)), L(B)], "(fun thr feats tg => bd_best_feature feats tg thr)", O(P(P(NAT, NAT), B))),
    "c14.merge_stream": ([B, L(L(ZROW))], "mg_merge_stream_z", P(L(ZROW), O(ERR))),
    "c15.unmod": ([STR], "st_unmod", STR),
    "c15.unprefix": ([STR], "st_unprefix", STR),
    "c15.before_dot": ([STR], "st_before_dot", STR),
    "c15.core": ([STR], "st_core", STR),
    "c15.strip_all": ([L(STR)], "st_strip_all", L(STR)),
    "c15.pair_key": ([PKP, STR], "pk_pair_key", STR),
    "c15.prefix_members": ([STR, STR], "pk_prefix_members", STR),
    "c15.picked": ([PKP, L(P(STR, STR)), L(NAT), L(PKROW)], "pk_picked", R(L(PKENTRY))),
    "c15.picked_q": ([PKP, L(P(STR, STR)), L(NAT), L(PKROW)], "pk_picked_q", R(L(P(PKENTRY, Q)))),
    "c16.group": ([NAT, L(P(STR, L(NAT))), L(P(NAT, L(L(STR))))], "gr_group_str",
                  R(P(L(P(L(STR), L(NAT))), L(P(NAT, L(L(STR))))))),
    "c18.wrap70": ([STR], "fa_wrap70", L(STR)),
    "c18.sites": ([STR, STR], "dc_sites", L(NAT)),
    "c18.parse": ([L(STR)], "fa_parse_files", R(L(P(STR, STR)))),
    "c20.insert_mods": ([STR, L(P(Z, STR))], "px_insert_mods", STR),
    "c20.label": ([STR, STR, L(STR)], "px_label", B),
    "c20.file_name": ([STR, STR], "px_file_name", STR),
})
def T(*ts):
    """right-nested pairs"""
    return ts[0] if len(ts) == 1 else P(ts[0], T(*ts[1:]))


OZ = O(Z)
PXHIT = REC("Build_px_hit", STR, STR, OZ, OZ, OZ, OZ, L(L(P(Z, STR))), L(STR), L(P(STR, STR)))
PXSPEC = REC("Build_px_spectrum", OZ, OZ, OZ, OZ, L(L(PXHIT)))
PXRUN = REC("Build_px_run", STR, O(STR), L(PXSPEC))
PXFILE = REC("Build_px_file", L(PXRUN), B)
SPEC.update({
    "c16.read_fasta": ([NAT, STR, L(P(STR, L(NAT)))],
                       "(fun k pre es => match gr_read_fasta_str k pre es with Ok o => Ok (@gr_unique _ o, (@gr_shared _ o, "
                       "(@gr_protein_map _ o, @gr_has_decoys _ o))) | Err e => Err e end)",
                       R(T(L(P(NAT, L(STR))), L(P(NAT, L(L(STR)))), L(P(STR, STR)), B))),
    "c20.read": ([STR, L(PXFILE)],
                 "(fun pre fs => match px_read pre fs with Ok l => Ok (map (fun p => (p_file p, (p_scan p, (p_charge p, (p_rt p, "
                 "(p_exp p, (p_calc p, (p_peptide p, (p_proteins p, (px_join_tab (p_proteins p), (p_label p, (p_mc p, (p_ntt p, "
                 "(p_nmp p, p_scores p)))))))))))))) l) | Err e => Err e end)",
                 R(L(T(STR, Z, Z, Z, Z, Z, STR, L(STR), STR, B, OZ, OZ, OZ, L(P(STR, STR)))))),
})
OS = O(STR)
SPEC.update({
    "c19.verify_text": ([STR], "pin_verify_text", R(STR)),
    "c15.match_decoy": ([B, L(NAT), L(STR), L(STR)], "md_match", R(L(P(STR, STR)))),
    "c15.match_steps": ([B, L(NAT), L(STR), L(STR)], "md_steps", R(L(P(STR, O(STR))))),
    "c15.md_key_mods": ([STR], "md_key_mods", STR),
    "c15.md_key_plain": ([STR], "md_key_plain", STR),
    "c15.md_sort_strs": ([L(STR)], "md_sort_strs", L(STR)),
    "c11.calibrate_d": ([B, L(Z), L(B), Q], "calibrate_d", R(L(Q))),
    "c10.read_rc": ([B, NAT, NAT, L(STR), OS, OS, OS, OS, OS, B, L(P(L(Z), L(B)))],
                    "(fun ec cr cc cols o1 o2 o3 o4 o5 lb rowsm => pc_read_rc ec cr cc cols (Build_pc_opts o1 o2 o3 o4 o5) lb rowsm)",
                    R(REC("Build_pc_dataset", L(STR), L(STR), L(STR), L(STR), STR, STR, STR, STR, STR, OS, OS, OS, OS, OS,
                          L(L(Z)), L(B)))),
    "c10.read": ([NAT, L(STR), OS, OS, OS, OS, OS, B, L(L(Z)), L(STR)],
                 "(fun cs cols o1 o2 o3 o4 o5 lb rows nan => pc_read cs cols (Build_pc_opts o1 o2 o3 o4 o5) lb rows nan)",
                 R(REC("Build_pc_dataset", L(STR), L(STR), L(STR), L(STR), STR, STR, STR, STR, STR, OS, OS, OS, OS, OS,
                       L(L(Z)), L(B)))),
})
TRTABLE = REC("Build_tr_table", L(NAT), L(L(Z)))
TRFN = SUM((0, "tr_fn_const", [Z]), (1, "tr_fn_copy", [NAT]), (2, "tr_fn_len", []), (3, "tr_fn_short", [Z]))
TRREF = REF(lambda: TRREADER, "tr_reader")
TRREADER = SUM((0, "TrFrame", [TRTABLE]), (1, "TrCsv", [TRTABLE]), (2, "TrParquet", [TRTABLE, L(NAT), L(NAT)]),
               (3, "TrMapped", [TRREF, L(P(NAT, NAT))]), (4, "TrJoined", [L(TRREF)]), (5, "TrComputed", [TRREF, NAT, TRFN]))
CHFRAME = REC("Build_ch_frame", L(NAT), L(NAT), L(L(Z)))
BWKIND = E("BwFrame", "BwDicts", "BwRecords")
SPEC.update({
    "c13.read": ([TRREADER, O(L(NAT))], "tr_read", R(CHFRAME)),
    "c13.chunks": ([TRREADER, NAT, O(L(NAT))], "tr_chunks", R(L(CHFRAME))),
    "c13.names": ([TRREADER], "tr_names", L(NAT)),
    "c13.writer": ([NAT, BWKIND, L(L(L(Z)))], "bw_from_suffix", R(P(L(L(L(Z))), NAT))),
    "c13.buffered": ([NAT, BWKIND, L(L(L(Z)))],
                     "(fun b k ds => match bw_run b k ds with Ok s => Ok (bw_emitted s, bw_pending s) | Err e => Err e end)",
                     R(P(L(L(L(Z))), L(L(Z))))),
    "c13.pure": ([NAT, L(Z)], "(fun c l => (ch_chunks c l, ch_ranges c l))", P(L(L(Z)), L(L(NAT)))),
})
PXCELL = SUM((0, "CText", [STR]), (1, "CBool", [B]), (2, "CInt", [Z]), (3, "CAttr", [Z]), (4, "CNum", [Q]), (5, "CNaN", []), (6, "CNegInf", []))
PXCOL = T(STR, E("KText", "KBool", "KInt", "KFloat"), E("RMeta", "RFeature"), B, L(PXCELL))
PXROLES = REC("Build_px_roles", STR, L(STR), STR, STR, L(STR), STR, STR, STR, STR, STR, STR)
SPEC.update({
    "c02.brew_scores_ens": ([NAT, NAT, L(Z), L(P(NAT, L(Z)))], "bw_brew_scores_ens", R(L(Q))),
    "c07.brew_ens": ([NAT, NAT, Q, L(REC("Build_bw_fitted", NAT, B, NAT, B, NAT, B, L(L(Z)))), L(REC("Build_bw_coll", L(Z), L(B), L(L(Z))))],
                     "bw_brew_ens", R(P(L(NAT), P(L(L(Q)), L(B))))),
    "c20.table": ([STR, L(PXFILE), L(STR), O(Q), B, L(P(STR, O(Q))), L(P(Q, Q)), L(P(P(Z, Z), Q)), L(P(P(Z, P(Z, Z)), Q)), L(P(Q, P(Q, Z))), L(P(Q, STR)), O(P(Q, Q))],
                  "(fun pre fs ex bin df tnum tlg tmd tmz trp tsf (_ : option (Q * Q)) => match px_read_table "
                  "(fun s => match find (fun kv => str_eqb s (fst kv)) tnum with Some kv => snd kv | None => None end) "
                  "(fun x => match find (fun kv => Qeq_bool x (fst kv)) tlg with Some kv => snd kv | None => 0%Q end) "
                  "(fun a b => match find (fun kv => Z.eqb a (fst (fst kv)) && Z.eqb b (snd (fst kv))) tmd with Some kv => snd kv | None => 0%Q end) "
                  "(fun a b c => match find (fun kv => Z.eqb a (fst (fst kv)) && Z.eqb b (fst (snd (fst kv))) && Z.eqb c (snd (snd (fst kv)))) tmz with Some kv => snd kv | None => 0%Q end) "
                  "(fun x => match find (fun kv => Qeq_bool x (fst kv)) trp with Some kv => snd kv | None => (0%Q, 0) end) "
                  "(fun _ _ _ x => match find (fun kv => Qeq_bool x (fst kv)) tsf with Some kv => snd kv | None => [] end) "
                  "pre fs ex bin df with "
                  "| Ok (l, t) => Ok (map (fun p => (p_file p, (p_scan p, (p_charge p, (p_rt p, (p_exp p, (p_calc p, (p_peptide p, (p_proteins p, (px_join_tab (p_proteins p), (p_label p, (p_mc p, (p_ntt p, (p_nmp p, p_scores p)))))))))))))) l, "
                  "(map (fun c => (c_name c, (c_kind c, (c_role c, (c_logged c, c_cells c))))) (o_cols t), o_roles t)) | Err e => Err e end)",
                  R(P(L(T(STR, Z, Z, Z, Z, Z, STR, L(STR), STR, B, OZ, OZ, OZ, L(P(STR, STR)))), P(L(PXCOL), O(PXROLES))))),
})
IMPORTS = "Model.Base Model.Tdc Model.Merge Model.Digest Model.PinTsv Model.Confidence Model.Calibrate Model.Brew Model.PinCols Model.Fs Model.Fdr Model.Peps Model.BrewDecision Model.Strip Model.Picked Model.Grouping Model.Fasta Model.Decoys Model.Pepxml Model.PinVerify Model.CalibrateD Model.Chunks Model.Readers Model.Buffered Model.MatchDecoy Model.PepxmlPost"


class _Toks:
    def __init__(self, toks):
        self.t, self.i = toks, 0

    def nxt(self):
        v = self.t[self.i]
        self.i += 1
        return v


def _int(tok):
    neg = tok.startswith("-")
    if neg:
        tok = tok[1:]
    assert tok[0] == "b"
    v = int(tok[1:], 2)
    return -v if neg else v


def parse(t, ty):
    if ty[0] == "ref":
        ty = ty[1]()
    if ty in (Z, NAT):
        return _int(t.nxt())
    if ty == B:
        return t.nxt() == "1"
    if ty == Q:
        return (_int(t.nxt()), _int(t.nxt()))
    k = ty[0]
    if k == "list":
        n = int(t.nxt())
        return [parse(t, ty[1]) for _ in range(n)]
    if k == "opt":
        return parse(t, ty[1]) if t.nxt() == "1" else None
    if k == "pair":
        return (parse(t, ty[1]), parse(t, ty[2]))
    if k == "result":
        if t.nxt() == "0":
            return ("ok", parse(t, ty[1]))
        return ("err", int(t.nxt()))
    if k == "enum" or k == "err":
        return int(t.nxt())
    if k == "rec":
        return [parse(t, f) for f in ty[2]]
    if k == "proj":          # the driver printed one field of a record
        return parse(t, Z)
    if k == "sum":
        tag = int(t.nxt())
        ctor, fields = ty[1][tag]
        return (tag, [parse(t, f) for f in fields])
    raise ValueError(ty)


class TooBig(Exception):
    pass


def coqty(ty):
    """Coq type of a description, when it can be written without knowing a record / inductive name"""
    if ty in (Z, NAT, B, Q):
        return {Z: "Z", NAT: "nat", B: "bool", Q: "Q"}[ty]
    k = ty[0]
    if k == "ref":
        return ty[2]
    if k == "list":
        t = coqty(ty[1])
        return "(list %s)" % t if t else None
    if k == "opt":
        t = coqty(ty[1])
        return "(option %s)" % t if t else None
    if k == "pair":
        a, b = coqty(ty[1]), coqty(ty[2])
        return "(%s * %s)%%type" % (a, b) if a and b else None
    return None


def lit(v, ty):
    if ty[0] == "ref":
        ty = ty[1]()
    if ty == Z:
        return "(%d)%%Z" % v
    if ty == NAT:
        if v > 3000:
            raise TooBig()
        return "%d%%nat" % v
    if ty == B:
        return "true" if v else "false"
    if ty == Q:
        return "((%d) # %d)%%Q" % v
    k = ty[0]
    if k == "list":
        if not v and coqty(ty[1]):
            return "(@nil %s)" % coqty(ty[1])
        return "[" + "; ".join(lit(x, ty[1]) for x in v) + "]"
    if k == "opt":
        return "None" if v is None else "(Some %s)" % lit(v, ty[1])
    if k == "pair":
        return "(%s, %s)" % (lit(v[0], ty[1]), lit(v[1], ty[2]))
    if k == "result":
        return "(Ok %s)" % lit(v[1], ty[1]) if v[0] == "ok" else "(Err %s)" % ERRS[v[1]]
    if k == "enum":
        return ty[1][v]
    if k == "err":
        return ERRS[v]
    if k == "rec":
        return "(%s %s)" % (ty[1], " ".join(lit(x, f) for x, f in zip(v, ty[2])))
    if k == "proj":
        return "(%d)%%Z" % v
    if k == "sum":
        ctor, fields = ty[1][v[0]]
        return "(%s %s)" % (ctor, " ".join(lit(x, f) for x, f in zip(v[1], fields))) if fields else ctor
    raise ValueError(ty)


def norm(ty):
    """Coq function that brings a computed value into the form the driver prints (None: nothing to do)"""
    if ty in (Z, NAT, B) or ty[0] in ("enum", "rec", "err", "ref"):
        return None
    if ty == Q:
        return "Qred"
    k = ty[0]
    if k == "sum":
        alts, any_ = [], False
        for tag, (ctor, fields) in sorted(ty[1].items()):
            vs = ["a%d" % j for j in range(len(fields))]
            ns = [norm(f) for f in fields]
            any_ = any_ or any(ns)
            alts.append("| %s %s => %s %s" % (ctor, " ".join(vs), ctor,
                                               " ".join(("(%s %s)" % (n, v)) if n else v for n, v in zip(ns, vs))))
        return "(fun x => match x with %s end)" % " ".join(alts) if any_ else None
    if k == "list":
        n = norm(ty[1])
        return "(map %s)" % n if n else None
    if k == "opt":
        n = norm(ty[1])
        return "(option_map %s)" % n if n else None
    if k == "pair":
        n1, n2 = norm(ty[1]), norm(ty[2])
        if not n1 and not n2:
            return None
        return "(fun p => (%s, %s))" % ("%s (fst p)" % n1 if n1 else "fst p", "%s (snd p)" % n2 if n2 else "snd p")
    if k == "result":
        n = norm(ty[1])
        return "(fun r => match r with Ok v => Ok (%s v) | Err e => Err e end)" % n if n else None
    if k == "proj":
        return ty[1]
    raise ValueError(ty)


def goal(line, answer):
    parts = line.split()
    entry = parts[0]
    if entry not in SPEC:
        return None
    argt, fn, rest = SPEC[entry]
    t = _Toks(parts[1:])
    args = [parse(t, a) for a in argt]
    if t.i != len(t.t):
        return None
    ta = _Toks(answer.split())
    if ta.t[:1] == ["BAD"]:
        return None
    res = parse(ta, rest)
    call = "%s %s" % (fn, " ".join(lit(a, ty) for a, ty in zip(args, argt)))
    n = norm(rest)
    return "Goal %s (%s) = %s. Proof. vm_compute. reflexivity. Qed." % (n or "", call, lit(res, rest))


def run(prop, max_goals=150, seed=1):
    """-> (info dict, problems list)"""
    log = list(lib.DRIVER_LOG)
    by_entry = {}
    for line, ans in log:
        by_entry.setdefault(line.split(" ", 1)[0], []).append((line, ans))
    info = {"entries_seen": {k: len(v) for k, v in by_entry.items()}, "entries_checked": {}, "goals": 0,
            "entries_without_description": sorted(k for k in by_entry if k not in SPEC)}
    rng = random.Random(seed)
    goals = []
    for entry, items in sorted(by_entry.items()):
        if entry not in SPEC:
            continue
        items = [x for x in items if len(x[0]) < 15000]          # keep the literals small
        rng.shuffle(items)
        n = 0
        for line, ans in items:
            if n >= max(10, max_goals // max(1, len([e for e in by_entry if e in SPEC]))):
                break
            try:
                g = goal(line, ans)
            except (TooBig, AssertionError, IndexError, ValueError, KeyError):
                continue
            if g:
                goals.append((entry, line, g))
                n += 1
        info["entries_checked"][entry] = n
    info["goals"] = len(goals)
    if not goals:
        return info, []
    d = lib.BUILD / "vmcheck"
    d.mkdir(exist_ok=True)
    f = d / f"{prop}.v"
    head = ("From Coq Require Import List ZArith QArith Bool.\nImport ListNotations.\n"
            f"From Mokaverif Require Import {IMPORTS}.\nOpen Scope Z_scope.\n")
    body = "\n".join(g for _, _, g in goals)
    f.write_text(head + body + "\n")
    p = subprocess.run(["bash", "-c", f"ulimit -s unlimited 2>/dev/null; timeout 1500 coqc -Q {lib.COQ} Mokaverif -w -notation-overridden {f}"],
                       cwd=str(d), stdout=subprocess.PIPE, stderr=subprocess.STDOUT)
    out = p.stdout.decode(errors="replace")
    for ext in (".vo", ".vok", ".vos", ".glob"):
        try:
            os.remove(str(f)[:-2] + ext)
        except OSError:
            pass
    if p.returncode == 0:
        return info, []
    import re
    m = re.search(r"line (\d+)", out)
    bad = None
    if m:
        ln = int(m.group(1)) - head.count("\n") - 1
        if 0 <= ln < len(goals):
            bad = goals[ln]
    info["failed"] = {"entry": bad[0] if bad else None, "driver_line": bad[1][:500] if bad else None, "coqc": out[-600:]}
    return info, [f"vm_compute cross-check of the extraction failed for entry {bad[0] if bad else '?'}: {out[-300:]}"]
