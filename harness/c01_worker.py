"""Worker for C01: evaluates a batch of C01 cases with the implementation under test in THIS interpreter, which the
parent started with NUMBA_DISABLE_JIT=1 (so mokapot.qvalues._fdr2qvalue runs as plain Python).  stdin: JSON list of
cases; stdout (last line): {"nojit": bool, "results": [...]}."""
import json
import logging
import sys


def main():
    logging.disable(logging.CRITICAL)
    import warnings
    warnings.filterwarnings("ignore")
    import numba
    from harness.props import c01
    cases = json.loads(sys.stdin.read())
    res = [c01._ser(c01.impl_here(c)) for c in cases]
    print(json.dumps({"nojit": bool(numba.config.DISABLE_JIT), "results": res}))


if __name__ == "__main__":
    main()
