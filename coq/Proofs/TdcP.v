(* Proofs about Model/Tdc.v (C01). *)
From Coq Require Import Lia Permutation Sorted.
From Mokaverif Require Import Model.Base Model.Tdc.
Open Scope Z_scope.

(* ====================== rationals: qmin ====================== *)
Lemma qmin_le_l a b : (qmin a b <= a)%Q.
Proof.
  unfold qmin. destruct (Qle_bool a b) eqn:E; [apply Qle_refl|].
  apply Qlt_le_weak, Qnot_le_lt. intros H. apply Qle_bool_iff in H. congruence.
Qed.

Lemma qmin_le_r a b : (qmin a b <= b)%Q.
Proof.
  unfold qmin. destruct (Qle_bool a b) eqn:E; [apply Qle_bool_iff; exact E | apply Qle_refl].
Qed.

Lemma qmin_cases a b : qmin a b = a \/ qmin a b = b.
Proof. unfold qmin. destruct (Qle_bool a b); auto. Qed.

Lemma qmin_glb a b c : (c <= a)%Q -> (c <= b)%Q -> (c <= qmin a b)%Q.
Proof. intros. destruct (qmin_cases a b) as [-> | ->]; assumption. Qed.

(* ====================== the declarative specification ====================== *)
(* [s'] is at least as good as [s] *)
Definition better_eq (desc : bool) (s' s : Z) : Prop := tdc_key desc s' <= tdc_key desc s.

Lemma better_eq_spec desc s' s : better_eq desc s' s <-> if desc then s <= s' else s' <= s.
Proof. unfold better_eq, tdc_key. destruct desc; lia. Qed.

Definition count {A} (f : A -> bool) (l : list A) : Z := Z.of_nat (length (filter f l)).

(* number of targets / decoys scoring at least as well as threshold [s] *)
Definition n_targets (desc : bool) (st : list (Z * bool)) (s : Z) : Z :=
  count (fun p => snd p && (tdc_key desc (fst p) <=? tdc_key desc s)) st.
Definition n_decoys (desc : bool) (st : list (Z * bool)) (s : Z) : Z :=
  count (fun p => negb (snd p) && (tdc_key desc (fst p) <=? tdc_key desc s)) st.

(* (decoys + 1) / targets, 1 where no target qualifies *)
Definition fdr_at (desc : bool) (st : list (Z * bool)) (s : Z) : Q :=
  tdc_fdr (n_targets desc st s) (n_decoys desc st s).

(* v is the minimum of {1} ∪ { fdr_at s' | s' a score of the input, s' at or worse than s } *)
Definition is_qvalue (desc : bool) (st : list (Z * bool)) (s : Z) (v : Q) : Prop :=
  (v <= 1)%Q /\
  (forall s', In s' (map fst st) -> better_eq desc s s' -> (v <= fdr_at desc st s')%Q) /\
  ((v == 1)%Q \/ exists s', In s' (map fst st) /\ better_eq desc s s' /\ (v == fdr_at desc st s')%Q).

Lemma is_qvalue_unique desc st s v w : is_qvalue desc st s v -> is_qvalue desc st s w -> (v == w)%Q.
Proof.
  intros (Hv1 & Hvl & Hva) (Hw1 & Hwl & Hwa). apply Qle_antisym.
  - destruct Hwa as [E | (s' & Hin & Hb & E)]; rewrite E; [exact Hv1 | apply Hvl; assumption].
  - destruct Hva as [E | (s' & Hin & Hb & E)]; rewrite E; [exact Hw1 | apply Hwl; assumption].
Qed.

Lemma tdc_fdr_pos ct cd : 0 <= cd -> (0 < tdc_fdr ct cd)%Q.
Proof.
  intros H. unfold tdc_fdr. destruct (ct =? 0); [reflexivity|].
  unfold Qlt. simpl. lia.
Qed.

Lemma count_nonneg {A} (f : A -> bool) l : 0 <= count f l.
Proof. unfold count. lia. Qed.

(* ====================== abstract minimum over keys ====================== *)
Section MinF.
Variable F : Z -> Q.
Definition is_min (ks : list Z) (k : Z) (v : Q) : Prop :=
  (v <= 1)%Q /\ (forall c, In c ks -> k <= c -> (v <= F c)%Q) /\
  ((v == 1)%Q \/ exists c, In c ks /\ k <= c /\ (v == F c)%Q).

Lemma is_min_unique ks k v w : is_min ks k v -> is_min ks k w -> (v == w)%Q.
Proof.
  intros (Hv1 & Hvl & Hva) (Hw1 & Hwl & Hwa). apply Qle_antisym.
  - destruct Hwa as [E | (c & Hin & Hb & E)]; rewrite E; [exact Hv1 | apply Hvl; assumption].
  - destruct Hva as [E | (c & Hin & Hb & E)]; rewrite E; [exact Hw1 | apply Hwl; assumption].
Qed.

Lemma is_min_compat ks k v w : (v == w)%Q -> is_min ks k v -> is_min ks k w.
Proof.
  intros E (H1 & Hl & Ha). split; [rewrite <- E; exact H1|]. split.
  - intros c Hc Hk. rewrite <- E. apply Hl; assumption.
  - destruct Ha as [Ha | (c & Hc & Hk & Ha)]; [left; rewrite <- E; exact Ha|].
    right. exists c. repeat split; try assumption. rewrite <- E. exact Ha.
Qed.

Lemma is_min_same_elems ks ks' k v :
  (forall c, In c ks <-> In c ks') -> is_min ks k v -> is_min ks' k v.
Proof.
  intros HE (H1 & Hl & Ha). split; [exact H1|]. split.
  - intros c Hc Hk. apply Hl; [apply HE; exact Hc | exact Hk].
  - destruct Ha as [Ha | (c & Hc & Hk & Ha)]; [left; exact Ha|].
    right. exists c. repeat split; try assumption. apply HE; exact Hc.
Qed.
End MinF.

(* ====================== sortedness helpers ====================== *)
Definition kle (a b : krow) : Prop := kkey a <= kkey b.

Lemma ss_app_inv (a b : list krow) :
  StronglySorted kle (a ++ b) ->
  StronglySorted kle a /\ StronglySorted kle b /\ (forall x y, In x a -> In y b -> kle x y).
Proof.
  induction a as [|h a IH]; simpl; intros H.
  - split; [constructor|]. split; [exact H|]. intros x y [].
  - inversion H as [|? ? Hs Hf]; subst. destruct (IH Hs) as (Ha & Hb & Hab).
    rewrite Forall_app in Hf. destruct Hf as [Hfa Hfb].
    split; [constructor; assumption|]. split; [exact Hb|].
    intros x y [<-|Hx] Hy.
    + rewrite Forall_forall in Hfb. apply Hfb; exact Hy.
    + apply Hab; assumption.
Qed.

Lemma insert_perm x l : Permutation (tdc_insert x l) (x :: l).
Proof.
  induction l as [|y l IH]; simpl; [reflexivity|].
  destruct (kkey x <=? kkey y); [reflexivity|].
  rewrite IH. apply perm_swap.
Qed.

Lemma sort_perm l : Permutation (tdc_sort l) l.
Proof.
  induction l as [|x l IH]; simpl; [reflexivity|].
  rewrite insert_perm. constructor. exact IH.
Qed.

Lemma insert_sorted x l : StronglySorted kle l -> StronglySorted kle (tdc_insert x l).
Proof.
  induction l as [|y l IH]; simpl; intros H.
  - constructor; [constructor|constructor].
  - inversion H as [|? ? Hs Hf]; subst.
    destruct (Z.leb_spec (kkey x) (kkey y)) as [Hle|Hgt].
    + constructor; [exact H|]. constructor; [exact Hle|].
      eapply Forall_impl; [|exact Hf]. intros z Hz. unfold kle in *. lia.
    + constructor; [apply IH; exact Hs|].
      assert (Forall (kle y) (x :: l)) as Hf' by (constructor; [unfold kle; lia | exact Hf]).
      eapply Permutation_Forall; [|exact Hf']. symmetry. apply insert_perm.
Qed.

Lemma sort_sorted l : StronglySorted kle (tdc_sort l).
Proof. induction l as [|x l IH]; simpl; [constructor | apply insert_sorted; exact IH]. Qed.

(* ====================== counting ====================== *)
Lemma count_app {A} (f : A -> bool) a b : count f (a ++ b) = count f a + count f b.
Proof. unfold count. rewrite filter_app, app_length. lia. Qed.

Lemma count_ext_in {A} (f g : A -> bool) l : (forall x, In x l -> f x = g x) -> count f l = count g l.
Proof. intros H. unfold count. rewrite (filter_ext_in f g l H). reflexivity. Qed.

Lemma count_zero {A} (f : A -> bool) l : (forall x, In x l -> f x = false) -> count f l = 0.
Proof.
  intros H. unfold count. induction l as [|x l IH]; [reflexivity|]. simpl.
  rewrite (H x (or_introl eq_refl)). apply IH. intros y Hy. apply H. right. exact Hy.
Qed.

Lemma count_map {A B} (f : B -> bool) (g : A -> B) l : count f (map g l) = count (fun x => f (g x)) l.
Proof.
  unfold count. induction l as [|x l IH]; [reflexivity|]. simpl.
  destruct (f (g x)); simpl; lia.
Qed.

Lemma count_perm {A} (f : A -> bool) l l' : Permutation l l' -> count f l = count f l'.
Proof.
  unfold count. intros H. induction H as [|x l l' H IH|x y l|l l' l'' H1 IH1 H2 IH2]; simpl.
  - reflexivity.
  - destruct (f x); simpl; lia.
  - destruct (f x), (f y); simpl; lia.
  - lia.
Qed.

Definition cT (l : list krow) : Z := count ktarget l.
Definition cD (l : list krow) : Z := count (fun x => negb (ktarget x)) l.
Definition kT (l : list krow) (c : Z) : Z := count (fun x => ktarget x && (kkey x <=? c)) l.
Definition kD (l : list krow) (c : Z) : Z := count (fun x => negb (ktarget x) && (kkey x <=? c)) l.
Definition kF (l : list krow) (c : Z) : Q := tdc_fdr (kT l c) (kD l c).

Lemma cT_snoc pre x : cT (pre ++ [x]) = if ktarget x then cT pre + 1 else cT pre.
Proof. unfold cT. rewrite count_app. unfold count at 2. simpl. destruct (ktarget x); simpl; lia. Qed.

Lemma cD_snoc pre x : cD (pre ++ [x]) = if ktarget x then cD pre else cD pre + 1.
Proof. unfold cD. rewrite count_app. unfold count at 2. simpl. destruct (ktarget x); simpl; lia. Qed.

(* positional counts at the end of a tie group are the threshold counts *)
Lemma counts_at_group_end pre x r :
  StronglySorted kle (pre ++ x :: r) -> (forall y, In y r -> kkey x < kkey y) ->
  kT (pre ++ x :: r) (kkey x) = cT (pre ++ [x]) /\ kD (pre ++ x :: r) (kkey x) = cD (pre ++ [x]).
Proof.
  intros Hs Hr.
  assert (forall z, In z (pre ++ [x]) -> kkey z <= kkey x) as Hpre.
  { intros z Hz. apply in_app_or in Hz. destruct Hz as [Hz|[<-|[]]]; [|lia].
    destruct (ss_app_inv _ _ Hs) as (_ & _ & H). apply (H z x Hz). left; reflexivity. }
  replace (pre ++ x :: r) with ((pre ++ [x]) ++ r) by (rewrite <- app_assoc; reflexivity).
  unfold kT, kD, cT, cD. rewrite !(count_app _ (pre ++ [x]) r). split.
  - rewrite (count_zero _ r).
    + rewrite Z.add_0_r. apply count_ext_in. intros z Hz. specialize (Hpre z Hz).
      destruct (Z.leb_spec (kkey z) (kkey x)); [apply andb_true_r|lia].
    + intros y Hy. specialize (Hr y Hy). destruct (Z.leb_spec (kkey y) (kkey x)); [lia|apply andb_false_r].
  - rewrite (count_zero _ r).
    + rewrite Z.add_0_r. apply count_ext_in. intros z Hz. specialize (Hpre z Hz).
      destruct (Z.leb_spec (kkey z) (kkey x)); [apply andb_true_r|lia].
    + intros y Hy. specialize (Hr y Hy). destruct (Z.leb_spec (kkey y) (kkey x)); [lia|apply andb_false_r].
Qed.

(* ====================== the walk computes the minimum ====================== *)
Lemma walk_length ct cd l : length (tdc_walk ct cd l) = length l.
Proof.
  revert ct cd; induction l as [|x r IH]; intros ct cd; [reflexivity|].
  cbn [tdc_walk]. 
  set (ct' := if ktarget x then ct + 1 else ct). set (cd' := if ktarget x then cd else cd + 1).
  specialize (IH ct' cd').
  destruct r as [|y r']; [destruct (tdc_walk ct' cd' []); simpl in *; lia|].
  destruct (tdc_walk ct' cd' (y :: r')) as [|q' qr'] eqn:E; [simpl in IH; lia|].
  destruct (kkey x =? kkey y); simpl in *; lia.
Qed.

Lemma Forall2_cons_inv {A B} (P : A -> B -> Prop) x l y l' :
  Forall2 P (x :: l) (y :: l') -> P x y /\ Forall2 P l l'.
Proof. intros H. inversion H; subst. split; assumption. Qed.

Lemma walk_spec l : StronglySorted kle l -> forall suf pre, l = pre ++ suf ->
  Forall2 (fun x q => is_min (kF l) (map kkey l) (kkey x) q) suf (tdc_walk (cT pre) (cD pre) suf).
Proof.
  intros Hs. induction suf as [|x r IH]; intros pre El; [constructor|].
  cbn [tdc_walk]. rewrite <- cT_snoc, <- cD_snoc.
  assert (l = (pre ++ [x]) ++ r) as El' by (rewrite El, <- app_assoc; reflexivity).
  specialize (IH (pre ++ [x]) El').
  pose proof (walk_length (cT (pre ++ [x])) (cD (pre ++ [x])) r) as Hlen.
  (* facts from sortedness *)
  rewrite El in Hs.
  destruct (ss_app_inv _ _ Hs) as (_ & Hsx & Hpre_x).
  assert (forall z, In z (pre ++ [x]) -> kkey z <= kkey x) as Hle_x.
  { intros z Hz. apply in_app_or in Hz. destruct Hz as [Hz|[<-|[]]]; [|lia].
    apply (Hpre_x z x Hz). left; reflexivity. }
  apply StronglySorted_inv in Hsx. destruct Hsx as [Hsr Hxr].
  assert (forall c, In c (map kkey l) -> kkey x <= c ->
            c = kkey x \/ exists z, In z r /\ c = kkey z) as Hkeys.
  { intros c Hc Hk. apply in_map_iff in Hc. destruct Hc as (z & <- & Hz).
    rewrite El' in Hz. apply in_app_or in Hz. destruct Hz as [Hz|Hz].
    - left. specialize (Hle_x z Hz). lia.
    - right. exists z. split; [exact Hz|reflexivity]. }
  assert (In (kkey x) (map kkey l)) as Hxin.
  { apply in_map. rewrite El. apply in_or_app. right. left. reflexivity. }
  destruct r as [|y r'].
  - (* x is the last row *)
    cbn [tdc_walk]. constructor; [|constructor].
    destruct (counts_at_group_end pre x [] Hs) as [HT HD]; [intros ? []|].
    assert (kF l (kkey x) = tdc_fdr (cT (pre ++ [x])) (cD (pre ++ [x]))) as HF.
    { unfold kF. rewrite El, HT, HD. reflexivity. }
    rewrite <- HF. split; [apply qmin_le_r|]. split.
    + intros c Hc Hk. destruct (Hkeys c Hc Hk) as [-> | (z & [] & _)]. apply qmin_le_l.
    + destruct (qmin_cases (kF l (kkey x)) 1%Q) as [E|E]; rewrite E.
      * right. exists (kkey x). split; [exact Hxin|]. split; [lia|reflexivity].
      * left. reflexivity.
  - destruct (tdc_walk (cT (pre ++ [x])) (cD (pre ++ [x])) (y :: r')) as [|q' qr'] eqn:EW;
      [simpl in Hlen; lia|].
    apply Forall2_cons_inv in IH. destruct IH as [Hy Hrest].
    rewrite Forall_forall in Hxr.
    destruct (Z.eqb_spec (kkey x) (kkey y)) as [Exy|Nxy].
    + constructor; [|constructor; assumption]. rewrite Exy. exact Hy.
    + assert (kkey x < kkey y) as Hlt.
      { specialize (Hxr y (or_introl eq_refl)). unfold kle in Hxr. lia. }
      assert (forall z, In z (y :: r') -> kkey y <= kkey z) as Hyr.
      { intros z [<-|Hz]; [lia|]. apply StronglySorted_inv in Hsr. destruct Hsr as [_ Hf].
        rewrite Forall_forall in Hf. apply (Hf z Hz). }
      destruct (counts_at_group_end pre x (y :: r') Hs) as [HT HD].
      { intros z Hz. specialize (Hyr z Hz). lia. }
      assert (kF l (kkey x) = tdc_fdr (cT (pre ++ [x])) (cD (pre ++ [x]))) as HF.
      { unfold kF. rewrite El, HT, HD. reflexivity. }
      rewrite <- HF.
      pose proof Hy as Hy0.
      destruct Hy as (Hy1 & Hyl & Hya).
      constructor; [|constructor; assumption].
      split; [eapply Qle_trans; [apply qmin_le_r|exact Hy1]|]. split.
      * intros c Hc Hk. destruct (Hkeys c Hc Hk) as [-> | (z & Hz & ->)]; [apply qmin_le_l|].
        eapply Qle_trans; [apply qmin_le_r|]. apply Hyl; [apply in_map_iff; exists z; split; [reflexivity|]|apply Hyr; exact Hz].
        rewrite El. apply in_or_app. right. right. exact Hz.
      * destruct (qmin_cases (kF l (kkey x)) q') as [E|E]; rewrite E.
        -- right. exists (kkey x). split; [exact Hxin|]. split; [lia|reflexivity].
        -- destruct Hya as [Hya | (c & Hc & Hk & Hya)]; [left; exact Hya|].
           right. exists c. split; [exact Hc|]. split; [lia|exact Hya].
Qed.

(* ====================== undoing the sort ====================== *)
Lemma index_of_spec i l d : In i l -> (index_of i l < length l)%nat /\ nth (index_of i l) l d = i.
Proof.
  induction l as [|x l IH]; [intros []|]. intros H. simpl.
  destruct (Nat.eqb_spec x i) as [E|N]; [split; [lia|exact E]|].
  destruct H as [H|H]; [congruence|]. destruct (IH H) as [H1 H2]. split; [lia|exact H2].
Qed.

Lemma Forall2_nth {A B} (P : A -> B -> Prop) l l' p da db :
  Forall2 P l l' -> (p < length l)%nat -> P (nth p l da) (nth p l' db).
Proof.
  intros H. revert p. induction H as [|x y l l' Hxy H IH]; intros p Hp; [simpl in Hp; lia|].
  destruct p; [exact Hxy|]. simpl. apply IH. simpl in Hp. lia.
Qed.

Definition proj (x : krow) : Z * bool := (kkey x, ktarget x).

Lemma rows_shape desc scores targets start :
  length scores = length targets ->
  map proj (combine (map (tdc_key desc) scores) (combine targets (seq start (length scores))))
  = combine (map (tdc_key desc) scores) targets
  /\ map kidx (combine (map (tdc_key desc) scores) (combine targets (seq start (length scores))))
  = seq start (length scores).
Proof.
  revert targets start. induction scores as [|s scores IH]; intros [|t targets] start H; simpl in *; try lia.
  - split; reflexivity.
  - destruct (IH targets (S start)) as [H1 H2]; [lia|]. split; f_equal; assumption.
Qed.

Lemma in_rows desc scores targets x :
  length scores = length targets -> In x (tdc_rows desc scores targets) ->
  (kidx x < length scores)%nat /\
  kkey x = tdc_key desc (nth (kidx x) scores 0) /\ ktarget x = nth (kidx x) targets false.
Proof.
  unfold tdc_rows. intros Hlen.
  assert (forall start, In x (combine (map (tdc_key desc) scores) (combine targets (seq start (length scores)))) ->
          (start <= kidx x < start + length scores)%nat /\
          kkey x = tdc_key desc (nth (kidx x - start) scores 0) /\
          ktarget x = nth (kidx x - start) targets false) as G.
  { revert targets Hlen. induction scores as [|s scores IH]; intros [|t targets] Hlen start Hin; simpl in *; try lia; try contradiction.
    destruct Hin as [<-|Hin].
    - unfold kidx, kkey, ktarget. simpl. rewrite Nat.sub_diag. repeat split; lia.
    - destruct (IH targets ltac:(lia) (S start) Hin) as (Hr & Hk & Ht).
      replace (kidx x - start)%nat with (S (kidx x - S start)) by lia. repeat split; try lia; assumption. }
  intros Hin. destruct (G 0%nat Hin) as (Hr & Hk & Ht). rewrite Nat.sub_0_r in *. repeat split; try lia; assumption.
Qed.

Lemma combine_map_l {A B C} (f : A -> C) (a : list A) (b : list B) :
  combine (map f a) b = map (fun p => (f (fst p), snd p)) (combine a b).
Proof. revert b; induction a as [|x a IH]; intros [|y b]; simpl; try reflexivity. rewrite IH. reflexivity. Qed.

Lemma map_fst_combine {A B} (a : list A) (b : list B) : length a = length b -> map fst (combine a b) = a.
Proof. revert b; induction a as [|x a IH]; intros [|y b] H; simpl in *; try lia; [reflexivity|]. rewrite IH by lia. reflexivity. Qed.

(* the threshold counts of the sorted rows are the user-level counts *)
Lemma kF_bridge desc scores targets srt s' :
  length scores = length targets -> Permutation srt (tdc_rows desc scores targets) ->
  kF srt (tdc_key desc s') = fdr_at desc (combine scores targets) s'.
Proof.
  intros Hlen Hperm. unfold kF, fdr_at, kT, kD, n_targets, n_decoys.
  destruct (rows_shape desc scores targets 0%nat Hlen) as [Hshape _].
  assert (forall g : Z * bool -> bool, count (fun x => g (proj x)) srt
            = count (fun p => g (tdc_key desc (fst p), snd p)) (combine scores targets)) as G.
  { intros g. rewrite <- (count_map g proj srt).
    rewrite (count_perm g _ _ (Permutation_map proj Hperm)).
    unfold tdc_rows. rewrite Hshape, combine_map_l, count_map. reflexivity. }
  f_equal.
  - apply (G (fun p => snd p && (fst p <=? tdc_key desc s'))).
  - apply (G (fun p => negb (snd p) && (fst p <=? tdc_key desc s'))).
Qed.

Lemma keys_bridge desc scores targets srt c :
  length scores = length targets -> Permutation srt (tdc_rows desc scores targets) ->
  (In c (map kkey srt) <-> exists s', In s' (map fst (combine scores targets)) /\ c = tdc_key desc s').
Proof.
  intros Hlen Hperm. rewrite map_fst_combine by exact Hlen.
  destruct (rows_shape desc scores targets 0%nat Hlen) as [Hshape _].
  assert (map kkey (tdc_rows desc scores targets) = map (tdc_key desc) scores) as Hk.
  { unfold tdc_rows. change (map kkey ?l) with (map (fun x => fst (proj x)) l).
    rewrite <- map_map, Hshape. apply map_fst_combine. rewrite map_length. exact Hlen. }
  assert (forall c, In c (map kkey srt) <-> In c (map (tdc_key desc) scores)) as Hin.
  { intros c0. rewrite <- Hk. split; apply Permutation_in; [|symmetry]; apply Permutation_map; exact Hperm. }
  rewrite Hin, in_map_iff. split.
  - intros (s' & <- & Hs). exists s'. split; [exact Hs|reflexivity].
  - intros (s' & Hs & ->). exists s'. split; [reflexivity|exact Hs].
Qed.

Theorem tdc_core_spec desc scores targets :
  length scores = length targets ->
  length (tdc_core desc scores targets) = length scores /\
  forall i, (i < length scores)%nat ->
    is_qvalue desc (combine scores targets) (nth i scores 0) (nth i (tdc_core desc scores targets) 1%Q).
Proof.
  intros Hlen. unfold tdc_core, tdc_unsort.
  set (rows := tdc_rows desc scores targets). set (srt := tdc_sort rows).
  split; [rewrite map_length, seq_length; reflexivity|].
  intros i Hi.
  pose proof (sort_perm rows) as Hperm. fold srt in Hperm.
  pose proof (sort_sorted rows) as Hsorted. fold srt in Hsorted.
  pose proof (walk_spec srt Hsorted srt [] eq_refl) as Hwalk.
  change (cT []) with 0 in Hwalk. change (cD []) with 0 in Hwalk.
  (* the i-th output *)
  rewrite (nth_indep _ 1%Q ((fun j => nth (index_of j (map kidx srt)) (tdc_walk 0 0 srt) 1%Q) 0%nat))
    by (rewrite map_length, seq_length; exact Hi).
  rewrite (map_nth (fun j => nth (index_of j (map kidx srt)) (tdc_walk 0 0 srt) 1%Q)).
  rewrite seq_nth by exact Hi. simpl Nat.add.
  (* position of i among the sorted rows *)
  destruct (rows_shape desc scores targets 0%nat Hlen) as [_ Hidx].
  assert (In i (map kidx srt)) as Hini.
  { apply (Permutation_in i (Permutation_map kidx (Permutation_sym Hperm))).
    unfold rows, tdc_rows. rewrite Hidx. apply in_seq. lia. }
  destruct (index_of_spec i (map kidx srt) 0%nat Hini) as [Hp Hnth].
  set (p := index_of i (map kidx srt)) in *.
  rewrite map_length in Hp.
  set (d := (0, (false, 0%nat)) : krow).
  assert (kidx (nth p srt d) = i) as Hkidx.
  { rewrite <- Hnth. rewrite (nth_indep _ 0%nat (kidx d)) by (rewrite map_length; exact Hp).
    symmetry. apply map_nth. }
  assert (In (nth p srt d) rows) as Hinrows.
  { apply (Permutation_in _ Hperm). apply nth_In. exact Hp. }
  destruct (in_rows desc scores targets _ Hlen Hinrows) as (_ & Hkey & _).
  rewrite Hkidx in Hkey.
  pose proof (Forall2_nth _ _ _ p d 1%Q Hwalk Hp) as Hmin. cbv beta in Hmin.
  rewrite Hkey in Hmin. destruct Hmin as (H1 & Hl & Ha).
  split; [exact H1|]. split.
  - intros s' Hs' Hb. rewrite <- (kF_bridge desc scores targets srt s' Hlen Hperm).
    apply Hl; [|exact Hb]. apply (keys_bridge desc scores targets srt _ Hlen Hperm).
    exists s'. split; [exact Hs'|reflexivity].
  - destruct Ha as [Ha | (c & Hc & Hk & Ha)]; [left; exact Ha|]. right.
    apply (keys_bridge desc scores targets srt _ Hlen Hperm) in Hc. destruct Hc as (s' & Hs' & ->).
    exists s'. split; [exact Hs'|]. split; [exact Hk|].
    rewrite <- (kF_bridge desc scores targets srt s' Hlen Hperm). exact Ha.
Qed.

(* ====================== consequences ====================== *)
Lemma is_qvalue_range desc st s v : is_qvalue desc st s v -> (0 < v)%Q /\ (v <= 1)%Q.
Proof.
  intros (H1 & _ & Ha). split; [|exact H1].
  destruct Ha as [E | (s' & _ & _ & E)]; rewrite E; [reflexivity|].
  apply tdc_fdr_pos. apply count_nonneg.
Qed.

(* q never decreases as the score worsens *)
Lemma is_qvalue_monotone desc st s1 s2 v1 v2 :
  is_qvalue desc st s1 v1 -> is_qvalue desc st s2 v2 -> better_eq desc s1 s2 -> (v1 <= v2)%Q.
Proof.
  intros (H1 & Hl & _) (_ & _ & Ha) Hb.
  destruct Ha as [E | (s' & Hin & Hb' & E)]; rewrite E; [exact H1|].
  apply Hl; [exact Hin|]. unfold better_eq in *. lia.
Qed.

Lemma is_qvalue_perm desc st st' s v : Permutation st st' -> is_qvalue desc st s v -> is_qvalue desc st' s v.
Proof.
  intros HP (H1 & Hl & Ha).
  assert (forall s', fdr_at desc st s' = fdr_at desc st' s') as HF.
  { intros s'. unfold fdr_at, n_targets, n_decoys. f_equal; apply count_perm; exact HP. }
  assert (forall s', In s' (map fst st) <-> In s' (map fst st')) as HI.
  { intros s'. split; apply Permutation_in; [|symmetry]; apply Permutation_map; exact HP. }
  split; [exact H1|]. split.
  - intros s' Hin Hb. rewrite <- HF. apply Hl; [apply HI; exact Hin|exact Hb].
  - destruct Ha as [E | (s' & Hin & Hb & E)]; [left; exact E|]. right. exists s'.
    split; [apply HI; exact Hin|]. split; [exact Hb|]. rewrite <- HF. exact E.
Qed.

(* strictly monotone rescaling of the scores *)
Lemma is_qvalue_rescale desc (f : Z -> Z) st s v :
  (forall a b, a <= b <-> f a <= f b) ->
  is_qvalue desc st s v -> is_qvalue desc (map (fun p => (f (fst p), snd p)) st) (f s) v.
Proof.
  intros Hf (H1 & Hl & Ha).
  assert (forall a b, (tdc_key desc (f a) <=? tdc_key desc (f b)) = (tdc_key desc a <=? tdc_key desc b)) as Hk.
  { intros a b. unfold tdc_key. destruct desc.
    - destruct (Z.leb_spec (- f a) (- f b)), (Z.leb_spec (- a) (- b)); try reflexivity.
      + assert (f b <= f a) as H' by lia. apply Hf in H'. lia.
      + assert (b <= a) as H' by lia. apply Hf in H'. lia.
    - destruct (Z.leb_spec (f a) (f b)), (Z.leb_spec a b); try reflexivity.
      + apply Hf in H. lia.
      + apply Hf in H0. lia. }
  assert (forall s', fdr_at desc (map (fun p => (f (fst p), snd p)) st) (f s') = fdr_at desc st s') as HF.
  { intros s'. unfold fdr_at, n_targets, n_decoys. rewrite !count_map. cbn [fst snd].
    f_equal; apply count_ext_in; intros p _; rewrite Hk; reflexivity. }
  assert (forall a b, better_eq desc (f a) (f b) <-> better_eq desc a b) as Hb.
  { intros a b. unfold better_eq. specialize (Hk a b).
    destruct (Z.leb_spec (tdc_key desc (f a)) (tdc_key desc (f b))), (Z.leb_spec (tdc_key desc a) (tdc_key desc b)); try discriminate; lia. }
  split; [exact H1|]. split.
  - intros s' Hin Hbe. rewrite map_map in Hin. cbn [fst] in Hin. apply in_map_iff in Hin.
    destruct Hin as (p & <- & Hp). rewrite HF. apply Hl; [apply in_map; exact Hp|]. apply Hb. exact Hbe.
  - destruct Ha as [E | (s' & Hin & Hbe & E)]; [left; exact E|]. right. exists (f s').
    split; [rewrite map_map; cbn [fst]; apply in_map_iff in Hin; destruct Hin as (p & <- & Hp);
            apply in_map_iff; exists p; split; [reflexivity|exact Hp]|].
    split; [apply Hb; exact Hbe|]. rewrite HF. exact E.
Qed.

(* ascending mode is descending mode on negated scores *)
Lemma is_qvalue_direction st s v :
  is_qvalue false st s v <-> is_qvalue true (map (fun p => (- fst p, snd p)) st) (- s) v.
Proof.
  assert (forall s', fdr_at true (map (fun p => (- fst p, snd p)) st) (- s') = fdr_at false st s') as HF.
  { intros s'. unfold fdr_at, n_targets, n_decoys. rewrite !count_map. cbn [fst snd tdc_key].
    f_equal; apply count_ext_in; intros p _; rewrite !Z.opp_involutive; reflexivity. }
  assert (forall a b, better_eq true (- a) (- b) <-> better_eq false a b) as Hb.
  { intros a b. unfold better_eq, tdc_key. lia. }
  assert (forall x, In x (map fst (map (fun p => (- fst p, snd p)) st)) <-> In (- x) (map fst st)) as HI.
  { intros x. rewrite map_map. cbn [fst]. rewrite !in_map_iff. split.
    - intros (p & <- & Hp). exists p. split; [lia|exact Hp].
    - intros (p & E & Hp). exists p. split; [lia|exact Hp]. }
  split; intros (H1 & Hl & Ha); (split; [exact H1|]); split.
  - intros s' Hin Hbe. replace s' with (- - s') by lia. rewrite HF. apply Hl; [apply HI; exact Hin|].
    apply Hb. rewrite Z.opp_involutive. exact Hbe.
  - destruct Ha as [E | (s' & Hin & Hbe & E)]; [left; exact E|]. right. exists (- s').
    split; [apply HI; rewrite Z.opp_involutive; exact Hin|]. split; [apply Hb; exact Hbe|]. rewrite HF. exact E.
  - intros s' Hin Hbe. rewrite <- HF. apply Hl; [apply HI; rewrite Z.opp_involutive; exact Hin|]. apply Hb. exact Hbe.
  - destruct Ha as [E | (s' & Hin & Hbe & E)]; [left; exact E|]. right. exists (- s').
    split; [apply HI; exact Hin|]. split; [apply Hb; rewrite Z.opp_involutive; exact Hbe|].
    rewrite <- HF, Z.opp_involutive. exact E.
Qed.

(* ====================== the public entry point ====================== *)
Theorem tdc_ok desc scores k labels qs :
  tdc desc scores k labels = Ok qs ->
  exists targets, normalize_labels k labels = Ok targets /\ length targets = length scores /\
    length qs = length scores /\
    forall i, (i < length scores)%nat ->
      is_qvalue desc (combine scores targets) (nth i scores 0) (nth i qs 1%Q).
Proof.
  unfold tdc. destruct (normalize_labels k labels) as [targets|e]; [|discriminate].
  destruct (Nat.eqb_spec (length scores) (length targets)) as [Hlen|]; simpl; [|discriminate].
  intros H. injection H as <-. exists targets. split; [reflexivity|]. split; [symmetry; exact Hlen|].
  apply tdc_core_spec. exact Hlen.
Qed.

Theorem tdc_error_iff desc scores k labels :
  (exists e, tdc desc scores k labels = Err e) <->
  (forall targets, normalize_labels k labels <> Ok targets) \/
  (exists targets, normalize_labels k labels = Ok targets /\ length targets <> length scores).
Proof.
  unfold tdc. destruct (normalize_labels k labels) as [targets|e].
  - destruct (Nat.eqb_spec (length scores) (length targets)) as [Hlen|Hlen]; simpl.
    + split; [intros (e & H); discriminate|]. intros [H|(t & E & H)]; [exfalso; apply (H targets); reflexivity|].
      injection E as <-. congruence.
    + split; [|intros _; eexists; reflexivity]. intros _. right. exists targets. split; [reflexivity|congruence].
  - split; [|intros _; eexists; reflexivity]. intros _. left. intros t. discriminate.
Qed.

Lemma normalize_labels_spec k vals targets :
  normalize_labels k vals = Ok targets ->
  length targets = length vals /\
  forall i, (i < length vals)%nat ->
    nth i targets false = match k with
                          | LBool => negb (nth i vals 0 =? 0)
                          | LInt => nth i vals 0 =? 1
                          | LFloat => nth i vals 0 =? 2
                          end.
Proof.
  assert (forall (f : Z -> bool) i, (i < length vals)%nat -> nth i (map f vals) false = f (nth i vals 0)) as G.
  { intros f i Hi. rewrite (nth_indep _ false (f 0)) by (rewrite map_length; exact Hi). apply map_nth. }
  destruct k; cbn [normalize_labels].
  - intros H. injection H as <-. split; [apply map_length|]. intros i Hi. apply G. exact Hi.
  - assert (match vals with [] => Err EValue | _ :: _ => if all_in_range01 vals then Ok (map (fun v => v =? 1) vals) else Err EValue end = Ok targets ->
            Ok (map (fun v => v =? 1) vals) = Ok targets) as G2.
    { destruct vals; [discriminate|]. destruct (all_in_range01 (z :: vals)); [tauto|discriminate]. }
    intros H. apply G2 in H. injection H as <-. split; [apply map_length|]. intros i Hi. apply G. exact Hi.
  - destruct (forallb _ vals); [|discriminate].
    intros H. injection H as <-. split; [apply map_length|]. intros i Hi. apply G. exact Hi.
Qed.

(* ====================== training labels ====================== *)
Theorem update_labels_spec desc scores targets thr labs :
  update_labels desc scores targets thr = Ok labs ->
  length labs = length scores /\
  forall i, (i < length scores)%nat ->
    let q := nth i (tdc_core desc scores targets) 1%Q in
    let t := nth i targets false in
    is_qvalue desc (combine scores targets) (nth i scores 0) q /\
    (nth i labs 0 = 1 <-> t = true /\ (q <= thr)%Q) /\
    (nth i labs 0 = -1 <-> t = false) /\
    (nth i labs 0 = 0 <-> t = true /\ ~ (q <= thr)%Q).
Proof.
  unfold update_labels.
  destruct (Nat.eqb_spec (length scores) (length targets)) as [Hlen|]; simpl; [|discriminate].
  intros H. injection H as <-.
  destruct (tdc_core_spec desc scores targets Hlen) as [Hql Hq].
  split; [rewrite map_length, combine_length, Hql, <- Hlen, Nat.min_id; reflexivity|].
  intros i Hi. cbv zeta.
  set (q := nth i (tdc_core desc scores targets) 1%Q). set (t := nth i targets false).
  split; [apply Hq; exact Hi|].
  assert (nth i (map (fun qt => tdc_label thr (fst qt) (snd qt)) (combine (tdc_core desc scores targets) targets)) 0
          = tdc_label thr q t) as ->.
  { rewrite (nth_indep _ 0 ((fun qt => tdc_label thr (fst qt) (snd qt)) (1%Q, false)))
      by (rewrite map_length, combine_length, Hql, <- Hlen, Nat.min_id; exact Hi).
    rewrite (map_nth (fun qt => tdc_label thr (fst qt) (snd qt))).
    rewrite combine_nth by (rewrite Hql; exact Hlen). reflexivity. }
  unfold tdc_label. destruct t; simpl.
  - destruct (Qle_bool q thr) eqn:E.
    + apply Qle_bool_iff in E. repeat split; try discriminate; try tauto; intros [_ H]; contradiction.
    + assert (~ (q <= thr)%Q) as N by (intros H; apply Qle_bool_iff in H; congruence).
      repeat split; try discriminate; try tauto; intros [_ H]; contradiction.
  - repeat split; try discriminate; try tauto; intros [H _]; discriminate.
Qed.

(* ====================== statements about the returned vector ====================== *)
Section Outputs.
Variables (desc : bool) (scores : list Z) (k : label_kind) (labels : list Z) (qs : list Q).
Hypothesis Hrun : tdc desc scores k labels = Ok qs.

Lemma out_range i : (i < length scores)%nat -> (0 < nth i qs 1)%Q /\ (nth i qs 1 <= 1)%Q.
Proof.
  destruct (tdc_ok _ _ _ _ _ Hrun) as (targets & _ & _ & _ & Hq). intros Hi.
  eapply is_qvalue_range. apply Hq. exact Hi.
Qed.

Lemma out_monotone i j : (i < length scores)%nat -> (j < length scores)%nat ->
  better_eq desc (nth i scores 0) (nth j scores 0) -> (nth i qs 1 <= nth j qs 1)%Q.
Proof.
  destruct (tdc_ok _ _ _ _ _ Hrun) as (targets & _ & _ & _ & Hq). intros Hi Hj Hb.
  eapply is_qvalue_monotone; [apply Hq; exact Hi|apply Hq; exact Hj|exact Hb].
Qed.

Lemma out_ties i j : (i < length scores)%nat -> (j < length scores)%nat ->
  nth i scores 0 = nth j scores 0 -> (nth i qs 1 == nth j qs 1)%Q.
Proof.
  destruct (tdc_ok _ _ _ _ _ Hrun) as (targets & _ & _ & _ & Hq). intros Hi Hj E.
  eapply is_qvalue_unique; [apply Hq; exact Hi|]. rewrite E. apply Hq. exact Hj.
Qed.
End Outputs.

(* same multiset of (score, label) pairs, any order: the value attached to a score is the same *)
Lemma out_input_order desc scores k labels qs scores' k' labels' qs' targets targets' i j :
  tdc desc scores k labels = Ok qs -> tdc desc scores' k' labels' = Ok qs' ->
  normalize_labels k labels = Ok targets -> normalize_labels k' labels' = Ok targets' ->
  Permutation (combine scores targets) (combine scores' targets') ->
  (i < length scores)%nat -> (j < length scores')%nat -> nth i scores 0 = nth j scores' 0 ->
  (nth i qs 1 == nth j qs' 1)%Q.
Proof.
  intros H1 H2 N1 N2 HP Hi Hj E.
  destruct (tdc_ok _ _ _ _ _ H1) as (t1 & N1' & _ & _ & Hq1).
  destruct (tdc_ok _ _ _ _ _ H2) as (t2 & N2' & _ & _ & Hq2).
  rewrite N1 in N1'. injection N1' as <-. rewrite N2 in N2'. injection N2' as <-.
  eapply is_qvalue_unique; [|apply Hq2; exact Hj].
  rewrite <- E. eapply is_qvalue_perm; [exact HP|]. apply Hq1. exact Hi.
Qed.

Lemma out_rescaling desc (f : Z -> Z) scores k labels qs qs' i :
  (forall a b, a <= b <-> f a <= f b) ->
  tdc desc scores k labels = Ok qs -> tdc desc (map f scores) k labels = Ok qs' ->
  (i < length scores)%nat -> (nth i qs 1 == nth i qs' 1)%Q.
Proof.
  intros Hf H1 H2 Hi.
  destruct (tdc_ok _ _ _ _ _ H1) as (t1 & N1 & L1 & _ & Hq1).
  destruct (tdc_ok _ _ _ _ _ H2) as (t2 & N2 & _ & _ & Hq2).
  rewrite N1 in N2. injection N2 as <-.
  specialize (Hq2 i). rewrite map_length in Hq2. specialize (Hq2 Hi).
  rewrite (nth_indep _ 0 (f 0)) in Hq2 by (rewrite map_length; exact Hi).
  rewrite map_nth in Hq2. rewrite combine_map_l in Hq2.
  eapply is_qvalue_unique; [|exact Hq2].
  apply is_qvalue_rescale; [exact Hf|]. apply Hq1. exact Hi.
Qed.

Lemma out_direction scores k labels qs qs' i :
  tdc false scores k labels = Ok qs -> tdc true (map Z.opp scores) k labels = Ok qs' ->
  (i < length scores)%nat -> (nth i qs 1 == nth i qs' 1)%Q.
Proof.
  intros H1 H2 Hi.
  destruct (tdc_ok _ _ _ _ _ H1) as (t1 & N1 & L1 & _ & Hq1).
  destruct (tdc_ok _ _ _ _ _ H2) as (t2 & N2 & _ & _ & Hq2).
  rewrite N1 in N2. injection N2 as <-.
  specialize (Hq2 i). rewrite map_length in Hq2. specialize (Hq2 Hi).
  rewrite (nth_indep _ 0 (- 0)) in Hq2 by (rewrite map_length; exact Hi).
  rewrite map_nth in Hq2. rewrite combine_map_l in Hq2.
  eapply is_qvalue_unique; [|exact Hq2].
  apply is_qvalue_direction. apply Hq1. exact Hi.
Qed.
